------------------------------- MODULE Collect -------------------------------
(***************************************************************************)
(* C10 -- collecting errors changes reporting only.                         *)
(*   utype/parser/options.py  RuntimeContext.handle_error / raise_error /    *)
(*                            collect_tmp_error / clear_tmp_error            *)
(*   utype/parser/base.py     the parse loops continue after handle_error    *)
(* M-layer: a context (errors, max_errors, collect flag) driven by a parse   *)
(* loop over the top-level items of an input, each item failing or not.      *)
(* P-layer: same verdict and value as fail-fast; the one exception names     *)
(* exactly the failing items, never a valid one, at most max_errors of them. *)
(***************************************************************************)
EXTENDS Naturals, Sequences, FiniteSets, TLC
ToSet(s) == {s[x] : x \in 1..Len(s)}

(* ---- M: handle_error / raise_error as coded, over a loop on items ------- *)
\* items: sequence of [name, fails]; maxe: 0 = no cap
RECURSIVE Loop(_, _, _, _, _)
Loop(items, i, errors, collect, maxe) ==
  IF i > Len(items) THEN [raised |-> errors # <<>>, reported |-> errors]             \* context.raise_error()
  ELSE IF ~items[i].fails THEN Loop(items, i + 1, errors, collect, maxe)
  ELSE LET es == Append(errors, items[i].name) IN                                    \* self.errors.append(e)
       IF ~collect THEN [raised |-> TRUE, reported |-> <<items[i].name>>]           \* raise e
       ELSE IF maxe # 0 /\ Len(es) >= maxe THEN [raised |-> TRUE, reported |-> es]  \* raise CollectedParseError(errors)
       ELSE Loop(items, i + 1, es, collect, maxe)
Run(items, collect, maxe) == Loop(items, 1, <<>>, collect, maxe)

(* ---- P ----------------------------------------------------------------- *)
Failing(items) == {items[i].name : i \in {j \in 1..Len(items) : items[j].fails}}
\* on the model
P_ModelVerdict(items, maxe) == Run(items, TRUE, maxe).raised = Run(items, FALSE, 0).raised
P_ModelReport(items, maxe) ==
  LET r == Run(items, TRUE, maxe) IN
  r.raised => /\ ToSet(r.reported) \subseteq Failing(items)
              /\ (maxe = 0 => ToSet(r.reported) = Failing(items))
              /\ (maxe # 0 => Len(r.reported) <= maxe)
              /\ Cardinality(ToSet(r.reported)) = Len(r.reported)
\* on a recorded pair of runs: c = [items, maxe], ff / col = [ok, v (canonical text), top, reported]
P_Verdict(c, ff, col) == ff.ok = col.ok
P_Value(c, ff, col)   == (ff.ok /\ col.ok) => ff.v = col.v
P_NoValidReported(c, col) == ~col.ok => ToSet(col.reported) \subseteq Failing(c.items)
P_AllReported(c, col) == (~col.ok /\ c.maxe = 0) => Failing(c.items) \subseteq ToSet(col.reported)
P_Cap(c, col) == (~col.ok /\ c.maxe # 0) => Len(col.reported) <= c.maxe
P_Once(c, col) == ~col.ok => Cardinality(ToSet(col.reported)) = Len(col.reported)     \* each failing item named once
P_OneException(c, col) == ~col.ok => col.top \in {"CollectedParseError", "ParseError"}
=============================================================================
