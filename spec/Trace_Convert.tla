----------------------------- MODULE Trace_Convert -----------------------------
EXTENDS Convert, Json, IOUtils
Tr == ndJsonDeserialize(IOEnv.TRACE_FILE)
VARIABLE tid
TInit == tid \in 1..Len(Tr)
TSpec == TInit /\ [][UNCHANGED tid]_tid
R == Tr[tid]
Clause == IF ~P_Restrict(R) THEN "Restrict" ELSE IF ~P_NoLossInt(R) THEN "NoLossInt" ELSE IF ~P_NoLossBool(R) THEN "NoLossBool"
          ELSE IF ~P_NoCollapse(R) THEN "NoCollapse" ELSE IF ~P_StrictBytes(R) THEN "StrictBytes" ELSE IF ~P_NoTimeToDate(R) THEN "NoTimeToDate"
          ELSE IF ~P_NoExtra(R) THEN "NoExtra" ELSE IF ~P_Group(R) THEN "Group" ELSE "none"
JudgeP == Clause = "none" \/ PrintT(<<"VIOL", R.id, Clause>>)
Flags == <<"none", "ne", "ndl", "both">>
JudgeM == \A i \in 1..4 :
            (R.T \in MTargets /\ Modelled(R.x)) => MConvOk(R.x, R.fx, R.T, FlagNe(i), FlagNdl(i)) = R.out[i].ok \/ PrintT(<<"DIV", R.id, Flags[i]>>)
=============================================================================
