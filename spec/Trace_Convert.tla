----------------------------- MODULE Trace_Convert -----------------------------
EXTENDS Convert, Json, IOUtils
Tr == ndJsonDeserialize(IOEnv.TRACE_FILE)
VARIABLE tid
TInit == tid \in 1..Len(Tr)
TSpec == TInit /\ [][UNCHANGED tid]_tid
R == Tr[tid]
Clause == IF ~P_NoPairLoss(R) THEN "NoPairLoss" ELSE IF ~P_Restrict(R) THEN "Restrict" ELSE IF ~P_NoLossInt(R) THEN "NoLossInt" ELSE IF ~P_NoLossBool(R) THEN "NoLossBool"
          ELSE IF ~P_NoCollapse(R) THEN "NoCollapse" ELSE IF ~P_StrictBytes(R) THEN "StrictBytes" ELSE IF ~P_NoTimeToDate(R) THEN "NoTimeToDate"
          ELSE IF ~P_NoExtra(R) THEN "NoExtra" ELSE IF ~P_Group(R) THEN "Group" ELSE "none"
Flags == <<"none", "ne", "ndl", "both">>
\* which flag sets break the clause (part of the scenario key)
Single(i) == [R EXCEPT !.out = [j \in 1..4 |-> IF j = i \/ j = 1 THEN R.out[j] ELSE [R.out[j] EXCEPT !.ok = FALSE]]]
BadFlags == LET bad == {i \in 2..4 : ~(P_Restrict(Single(i)) /\ P_NoLossInt(Single(i)) /\ P_NoLossBool(Single(i)) /\ P_NoCollapse(Single(i))
                                       /\ P_StrictBytes(Single(i)) /\ P_NoTimeToDate(Single(i)) /\ P_NoExtra(Single(i)) /\ P_NoPairLoss(Single(i)) /\ P_Group(Single(i)))} IN
            IF bad = {} THEN "?" ELSE Flags[CHOOSE i \in bad : \A j \in bad : i <= j]
JudgeP == Clause = "none" \/ PrintT(<<"VIOL", R.id, Clause, BadFlags>>)
JudgeM == \A i \in 1..4 :
            (R.T \in MTargets /\ Modelled(R.x)) => MConvOk(R.x, R.fx, R.T, FlagNe(i), FlagNdl(i)) = R.out[i].ok \/ PrintT(<<"DIV", R.id, Flags[i]>>)
=============================================================================
