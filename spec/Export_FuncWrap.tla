--------------------------- MODULE Export_FuncWrap ---------------------------
(* Writes the universe of MC_FuncWrap out for the replay into the code: one line per signature with all its calls. *)
EXTENDS MC_FuncWrap, IOUtils
SigSeq == SetToSeq(Sigs)
ASSUME ndJsonSerialize(IOEnv.OUT_CASES, [y \in 1..Len(SigSeq) |-> [sig |-> SigSeq[y], calls |-> SetToSeq(Calls(SigSeq[y]))]])
ESpec == fc = 0 /\ w = 0 /\ cs = 0 /\ m = 0 /\ outs = 0 /\ [][UNCHANGED <<fc, w, vars>>]_<<fc, w, vars>>
=============================================================================
