SPECIFICATION Spec
CONSTANTS
  Threads = {1, 2, 3}
  Names = {"b", "n"}
  Cons = {"n"}
  Local = FALSE
  Variant = "deferred"
INVARIANT P_AsAlone
INVARIANT P_LockFree
PROPERTY Termination
