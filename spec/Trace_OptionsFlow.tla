-------------------------- MODULE Trace_OptionsFlow --------------------------
(* Nested data classes parsed for real (harness/drivers/c12.py: options_flow): for every level of every chain the driver probes     *)
(* which conversion flags were in force (a numeric string is refused exactly under no_explicit_cast, a fractional float exactly      *)
(* under no_data_loss); TLC compares with OptionsFlow!Governing.  DIV only: this model is beyond the listed properties.              *)
EXTENDS OptionsFlow, Json, IOUtils
Tr == ndJsonDeserialize(IOEnv.TRACE_FILE)
VARIABLE tid
TInit == tid \in 1..Len(Tr)
TSpec == TInit /\ [][UNCHANGED tid]_tid
R == Tr[tid]
ToSet(s) == {s[x] : x \in 1..Len(s)}
O(r) == [flags |-> ToSet(r.flags), override |-> r.override]
Cls == [i \in 1..Len(R.cls) |-> O(R.cls[i])]
JudgeM == (\A i \in 1..Len(R.cls) : Governing(Cls, O(R.runtime), i).flags = ToSet(R.obs[i])) \/ PrintT(<<"DIV", R.id>>)
=============================================================================
