-------------------------- MODULE Export_Constraints --------------------------
(* Writes the universe of MC_Constraints out for the replay into real constrained types. *)
EXTENDS MC_Constraints, Json, IOUtils
ASSUME ndJsonSerialize(IOEnv.OUT_CASES, SetToSeq({[cons |-> SetToSeq(S), vals |-> SetToSeq(Vals)] : S \in ConSets}))
ESpec == cons = 0 /\ v = 0 /\ [][Next]_<<cons, v>>
=============================================================================
