SPECIFICATION Spec
CONSTANTS
  Variant = "fixed"
  MaxK = 6
PROPERTY Termination
PROPERTY Progress
