---------------------------- MODULE Trace_Totality ----------------------------
EXTENDS Totality, Json, IOUtils
Tr == ndJsonDeserialize(IOEnv.TRACE_FILE)
VARIABLE tid
TInit == tid \in 1..Len(Tr) /\ pc = "Done" /\ k = 0 /\ inf = FALSE          \* the loop model's variables are not used here
TSpec == TInit /\ [][UNCHANGED <<tid, vars>>]_<<tid, vars>>
R == Tr[tid]
Clause == IF ~P_Terminates(R.r) THEN "Terminates" ELSE IF ~P_OnlyParseError(R.r) THEN "OnlyParseError"
          ELSE IF ~P_NothingHappened(R.r) THEN "NothingHappened" ELSE "none"
JudgeP == Clause = "none" \/ PrintT(<<"VIOL", R.id, Clause>>)
=============================================================================
