------------------------------ MODULE ConcRefs ------------------------------
(***************************************************************************)
(* C20 (first use) -- utype/parser/base.py BaseParser.__call__ ->            *)
(* resolve_forward_refs, statement by statement, executed by several        *)
(* threads on one shared parser whose references are still pending.        *)
(* One action per source statement that reads or writes shared state:       *)
(*   Check     if not self.forward_refs: return False                        *)
(*   Acquire   with self._resolve_lock:   (after the first fix)              *)
(*   Snapshot  for name in list(self.forward_refs)                           *)
(*   Lookup    ref, constraints = self.forward_refs[name]   (pinned commit)  *)
(*   Eval      evaluate_forward_ref(ref, ...)   (evaluates again: the value  *)
(*             is the bare class until Annot)                                *)
(*   Annot     ref.__forward_value__ = parse_annotation(value, constraints)  *)
(*   Pop       self.forward_refs.pop(name)        (inside the loop)          *)
(*   Mark      resolved_names.append(name)        (after the second fix)     *)
(*   UpdField  for field in self.fields.values(): field.resolve_forward_refs *)
(*   ClearLocal  ref.__forward_evaluated__ = False  (function-local classes) *)
(*   PopAll    for name in resolved_names: self.forward_refs.pop(name, None) *)
(*   ReadField the conversion picks up field.type (a reference or its value) *)
(*   Convert   ... and dereferences it: a reference must be evaluated *now*  *)
(* P: every call ends like the call made alone: "ok"; never an internal      *)
(* error, never a reference that is not evaluated.                           *)
(***************************************************************************)
EXTENDS Naturals, Sequences, FiniteSets, TLC
CONSTANTS Threads, Names, Cons, Variant, Local
\* Variant: "orig" (pinned commit) | "tolerant" (get/pop with default, no lock) | "locked" (commit 0c1f78a: an unlocked
\* Check, then the whole resolution under the parser's lock with a second Check inside; names popped inside the loop)
\* | "deferred" (commit 0057f32: as locked, names popped after the fields were updated and the local references cleared)
\* Cons: the names whose reference carries Field constraints (annotating such a reference twice is a ConfigError)
\* Local: the class is local to a function (its evaluated references are cleared again after the fields were updated)
VARIABLES pending, evald, annotated, ftype, lock, pc, todo, cur, resolved, outcome, mine, held
vars == <<pending, evald, annotated, ftype, lock, pc, todo, cur, resolved, outcome, mine, held>>
Locked == Variant \in {"locked", "deferred"}
Deferred == Variant = "deferred"
SeqOf(S) == CHOOSE s \in [1..Cardinality(S) -> S] : \A x, y \in 1..Cardinality(S) : x # y => s[x] # s[y]
Init == /\ pending = Names /\ evald = {} /\ annotated = {} /\ ftype = [n \in Names |-> "ref"] /\ lock = 0
        /\ pc = [t \in Threads |-> "Check"] /\ todo = [t \in Threads |-> <<>>] /\ cur = [t \in Threads |-> "none"]
        /\ resolved = [t \in Threads |-> FALSE] /\ outcome = [t \in Threads |-> "running"]
        /\ mine = [t \in Threads |-> {}] /\ held = [t \in Threads |-> [n \in Names |-> "none"]]
Goto(t, l) == pc' = [pc EXCEPT ![t] = l]
\* leaving resolve_forward_refs (return / exception) releases the lock when this thread holds it
Leave(t, l) == Goto(t, l) /\ lock' = IF lock = t THEN 0 ELSE lock
LoopNext(t, rest) == /\ todo' = [todo EXCEPT ![t] = rest]
                     /\ Goto(t, IF rest = <<>> THEN "AfterLoop" ELSE "Lookup")
Fail(t, e) == outcome' = [outcome EXCEPT ![t] = e] /\ Leave(t, "Done")
Check(t) == /\ pc[t] = "Check"
            /\ IF pending = {} THEN Goto(t, "ReadField") ELSE Goto(t, IF Locked THEN "Acquire" ELSE "Snapshot")
            /\ UNCHANGED <<pending, evald, annotated, ftype, lock, todo, cur, resolved, outcome, mine, held>>
Acquire(t) == /\ pc[t] = "Acquire" /\ lock = 0 /\ lock' = t /\ Goto(t, "Check2")
              /\ UNCHANGED <<pending, evald, annotated, ftype, todo, cur, resolved, outcome, mine, held>>
Check2(t) == /\ pc[t] = "Check2"
             /\ IF pending = {} THEN Leave(t, "ReadField") ELSE Goto(t, "Snapshot") /\ UNCHANGED lock
             /\ UNCHANGED <<pending, evald, annotated, ftype, todo, cur, resolved, outcome, mine, held>>
Snapshot(t) == /\ pc[t] = "Snapshot"
               /\ LoopNext(t, IF pending = {} THEN <<>> ELSE SeqOf(pending))
               /\ UNCHANGED <<pending, evald, annotated, ftype, lock, cur, resolved, outcome, mine, held>>
Lookup(t) == /\ pc[t] = "Lookup"
             /\ LET n == Head(todo[t]) IN
                IF n \in pending
                  THEN cur' = [cur EXCEPT ![t] = n] /\ Goto(t, "Eval") /\ UNCHANGED <<todo, outcome, lock>>
                ELSE IF Variant = "tolerant"
                  THEN LoopNext(t, Tail(todo[t])) /\ UNCHANGED <<cur, outcome, lock>>   \* resolved by another thread meanwhile
                  ELSE Fail(t, "KeyError") /\ UNCHANGED <<todo, cur>>
             /\ UNCHANGED <<pending, evald, annotated, ftype, resolved, mine, held>>
\* typing evaluates the reference again (localns is not globalns): until Annot its value is the bare class
Eval(t) == /\ pc[t] = "Eval" /\ evald' = evald \cup {cur[t]} /\ Goto(t, "ReadVal")
           /\ annotated' = annotated \ {cur[t]}
           /\ UNCHANGED <<pending, ftype, lock, todo, cur, resolved, outcome, mine, held>>
\* value = ref.__forward_value__: what Annot is going to annotate
ReadVal(t) == /\ pc[t] = "ReadVal"
              /\ held' = [held EXCEPT ![t][cur[t]] = IF cur[t] \in annotated THEN "annotated" ELSE "bare"]
              /\ Goto(t, "Annot")
              /\ UNCHANGED <<pending, evald, annotated, ftype, lock, todo, cur, resolved, outcome, mine>>
\* ref.__forward_value__ = parse_annotation(value, constraints): a value that already carries its
\* constraints cannot be constrained again (ConfigError: range type must equal value type)
Annot(t) == /\ pc[t] = "Annot"
            /\ IF held[t][cur[t]] = "annotated" /\ cur[t] \in Cons
                 THEN Fail(t, "ConfigError") /\ UNCHANGED <<annotated, resolved>>
                 ELSE /\ annotated' = annotated \cup {cur[t]} /\ resolved' = [resolved EXCEPT ![t] = TRUE]
                      /\ Goto(t, IF Deferred THEN "Mark" ELSE "Pop") /\ UNCHANGED <<outcome, lock>>
            /\ UNCHANGED <<pending, evald, ftype, todo, cur, mine, held>>
Pop(t) == /\ pc[t] = "Pop"
          /\ IF cur[t] \notin pending /\ Variant # "tolerant"
               THEN Fail(t, "KeyError") /\ UNCHANGED <<pending, todo, mine>>
               ELSE /\ pending' = pending \ {cur[t]} /\ mine' = [mine EXCEPT ![t] = @ \cup {cur[t]}]
                    /\ LoopNext(t, Tail(todo[t])) /\ UNCHANGED <<outcome, lock>>
          /\ UNCHANGED <<evald, annotated, ftype, cur, resolved, held>>
Mark(t) == /\ pc[t] = "Mark" /\ mine' = [mine EXCEPT ![t] = @ \cup {cur[t]}] /\ LoopNext(t, Tail(todo[t]))
           /\ UNCHANGED <<pending, evald, annotated, ftype, lock, cur, resolved, outcome, held>>
AfterLoop(t) == /\ pc[t] = "AfterLoop"
                /\ Goto(t, IF resolved[t] THEN "UpdField" ELSE "ClearLocal")
                /\ UNCHANGED <<pending, evald, annotated, ftype, lock, todo, cur, resolved, outcome, mine, held>>
\* field.type = the value of its reference, when that is evaluated at this moment
UpdField(t) == /\ pc[t] = "UpdField"
               /\ ftype' = [n \in Names |-> IF ftype[n] = "ref" /\ n \in evald
                                              THEN (IF n \in annotated THEN "good" ELSE "bare") ELSE ftype[n]]
               /\ Goto(t, "ClearLocal")
               /\ UNCHANGED <<pending, evald, annotated, lock, todo, cur, resolved, outcome, mine, held>>
\* if self.is_local: for ref in clear_refs: ref.__forward_evaluated__ = False; ref.__forward_value__ = None
ClearLocal(t) == /\ pc[t] = "ClearLocal"
                 /\ IF Local THEN evald' = evald \ mine[t] /\ annotated' = annotated \ mine[t]
                             ELSE UNCHANGED <<evald, annotated>>
                 /\ IF Deferred THEN Goto(t, "PopAll") /\ UNCHANGED lock ELSE Leave(t, "ReadField")
                 /\ UNCHANGED <<pending, ftype, todo, cur, resolved, outcome, mine, held>>
PopAll(t) == /\ pc[t] = "PopAll" /\ pending' = pending \ mine[t] /\ Leave(t, "ReadField")
             /\ UNCHANGED <<evald, annotated, ftype, todo, cur, resolved, outcome, mine, held>>
\* the conversion reads field.type ...
ReadField(t) == /\ pc[t] = "ReadField" /\ held' = [held EXCEPT ![t] = ftype] /\ Goto(t, "Convert")
                /\ UNCHANGED <<pending, evald, annotated, ftype, lock, todo, cur, resolved, outcome, mine>>
\* ... and a reference among them must be evaluated (and carry its constraints) when it is dereferenced
Convert(t) == /\ pc[t] = "Convert"
              /\ outcome' = [outcome EXCEPT ![t] =
                     IF \E n \in Names : held[t][n] = "ref" /\ n \notin evald THEN "notEvaluated"
                     ELSE IF \E n \in Cons : held[t][n] = "bare" \/ (held[t][n] = "ref" /\ n \notin annotated) THEN "unconstrained"
                     ELSE "ok"]
              /\ Goto(t, "Done") /\ UNCHANGED <<pending, evald, annotated, ftype, lock, todo, cur, resolved, mine, held>>
Step(t) == Check(t) \/ Acquire(t) \/ Check2(t) \/ Snapshot(t) \/ Lookup(t) \/ Eval(t) \/ ReadVal(t) \/ Annot(t) \/ Pop(t)
           \/ Mark(t) \/ AfterLoop(t) \/ UpdField(t) \/ ClearLocal(t) \/ PopAll(t) \/ ReadField(t) \/ Convert(t)
Next == \E t \in Threads : Step(t)
Spec == Init /\ [][Next]_vars /\ \A t \in Threads : WF_vars(Step(t))
P_AsAlone == \A t \in Threads : pc[t] = "Done" => outcome[t] = "ok"
P_LockFree == (\A t \in Threads : pc[t] = "Done") => lock = 0
Termination == <>(\A t \in Threads : pc[t] = "Done")
=============================================================================
