------------------------------ MODULE ConcRefs ------------------------------
(***************************************************************************)
(* C20 (first use) -- utype/parser/base.py BaseParser.__call__ ->            *)
(* resolve_forward_refs, statement by statement, executed by several        *)
(* threads on one shared parser whose references are still pending.        *)
(* One action per source statement that reads or writes shared state:       *)
(*   Check     if not self.forward_refs: return False                        *)
(*   Acquire   with self._resolve_lock:   (after the fix)                    *)
(*   Snapshot  for name in list(self.forward_refs)                           *)
(*   Lookup    ref, constraints = self.forward_refs[name]   (pinned commit)  *)
(*             item = self.forward_refs.get(name) ...        (after the fix)  *)
(*   Eval      evaluate_forward_ref(ref, ...)                                *)
(*   Annot     ref.__forward_value__ = parse_annotation(value, constraints)  *)
(*   Pop       self.forward_refs.pop(name)  /  .pop(name, None)              *)
(*   UpdField  for field in self.fields.values(): field.resolve_forward_refs *)
(*   Parse     the conversion that follows reads the references              *)
(* P: every call ends like the call made alone: "ok"; never an internal      *)
(* error, never a reference that is not evaluated.                           *)
(***************************************************************************)
EXTENDS Naturals, Sequences, FiniteSets, TLC
CONSTANTS Threads, Names, Cons, Variant
\* Variant: "orig" (pinned commit) | "tolerant" (get/pop with default, no lock) | "locked" (after the fix: commit:
\* an unlocked Check, then the whole resolution under the parser's lock with a second Check inside)
\* Cons: the names whose reference carries Field constraints (annotating such a reference twice is a ConfigError)
VARIABLES pending, evald, annotated, updated, lock, pc, todo, cur, resolved, outcome
vars == <<pending, evald, annotated, updated, lock, pc, todo, cur, resolved, outcome>>
SeqOf(S) == CHOOSE s \in [1..Cardinality(S) -> S] : \A x, y \in 1..Cardinality(S) : x # y => s[x] # s[y]
Init == /\ pending = Names /\ evald = {} /\ annotated = {} /\ updated = FALSE /\ lock = 0
        /\ pc = [t \in Threads |-> "Check"] /\ todo = [t \in Threads |-> <<>>] /\ cur = [t \in Threads |-> "none"]
        /\ resolved = [t \in Threads |-> FALSE] /\ outcome = [t \in Threads |-> "running"]
Goto(t, l) == pc' = [pc EXCEPT ![t] = l]
\* leaving resolve_forward_refs (return / exception) releases the lock when this thread holds it
Leave(t, l) == Goto(t, l) /\ lock' = IF lock = t THEN 0 ELSE lock
LoopNext(t, rest) == /\ todo' = [todo EXCEPT ![t] = rest]
                     /\ Goto(t, IF rest = <<>> THEN "AfterLoop" ELSE "Lookup")
Fail(t, e) == outcome' = [outcome EXCEPT ![t] = e] /\ Leave(t, "Done")
Check(t) == /\ pc[t] = "Check"
            /\ IF pending = {} THEN Goto(t, "Parse") ELSE Goto(t, IF Variant = "locked" THEN "Acquire" ELSE "Snapshot")
            /\ UNCHANGED <<pending, evald, annotated, updated, lock, todo, cur, resolved, outcome>>
Acquire(t) == /\ pc[t] = "Acquire" /\ lock = 0 /\ lock' = t /\ Goto(t, "Check2")
              /\ UNCHANGED <<pending, evald, annotated, updated, todo, cur, resolved, outcome>>
Check2(t) == /\ pc[t] = "Check2"
             /\ IF pending = {} THEN Leave(t, "Parse") ELSE Goto(t, "Snapshot") /\ UNCHANGED lock
             /\ UNCHANGED <<pending, evald, annotated, updated, todo, cur, resolved, outcome>>
Snapshot(t) == /\ pc[t] = "Snapshot"
               /\ LoopNext(t, IF pending = {} THEN <<>> ELSE SeqOf(pending))
               /\ UNCHANGED <<pending, evald, annotated, updated, lock, cur, resolved, outcome>>
Lookup(t) == /\ pc[t] = "Lookup"
             /\ LET n == Head(todo[t]) IN
                IF n \in pending
                  THEN cur' = [cur EXCEPT ![t] = n] /\ Goto(t, "Eval") /\ UNCHANGED <<todo, outcome, lock>>
                ELSE IF Variant = "tolerant"
                  THEN LoopNext(t, Tail(todo[t])) /\ UNCHANGED <<cur, outcome, lock>>   \* resolved by another thread meanwhile
                  ELSE Fail(t, "KeyError") /\ UNCHANGED <<todo, cur>>
             /\ UNCHANGED <<pending, evald, annotated, updated, resolved>>
Eval(t) == /\ pc[t] = "Eval" /\ evald' = evald \cup {cur[t]} /\ Goto(t, "Annot")
           /\ UNCHANGED <<pending, annotated, updated, lock, todo, cur, resolved, outcome>>
\* ref.__forward_value__ = parse_annotation(value, constraints): a reference that already carries its
\* constraints cannot be constrained again (ConfigError: range type must equal value type)
Annot(t) == /\ pc[t] = "Annot"
            /\ IF cur[t] \in annotated /\ cur[t] \in Cons
                 THEN Fail(t, "ConfigError") /\ UNCHANGED <<annotated, resolved>>
                 ELSE /\ annotated' = annotated \cup {cur[t]} /\ resolved' = [resolved EXCEPT ![t] = TRUE]
                      /\ Goto(t, "Pop") /\ UNCHANGED <<outcome, lock>>
            /\ UNCHANGED <<pending, evald, updated, todo, cur>>
Pop(t) == /\ pc[t] = "Pop"
          /\ IF cur[t] \notin pending /\ Variant # "tolerant"
               THEN Fail(t, "KeyError") /\ UNCHANGED <<pending, todo>>
               ELSE pending' = pending \ {cur[t]} /\ LoopNext(t, Tail(todo[t])) /\ UNCHANGED <<outcome, lock>>
          /\ UNCHANGED <<evald, annotated, updated, cur, resolved>>
AfterLoop(t) == /\ pc[t] = "AfterLoop"
                /\ IF resolved[t] THEN Goto(t, "UpdField") /\ UNCHANGED lock ELSE Leave(t, "Parse")
                /\ UNCHANGED <<pending, evald, annotated, updated, todo, cur, resolved, outcome>>
UpdField(t) == /\ pc[t] = "UpdField" /\ updated' = TRUE /\ Leave(t, "Parse")
               /\ UNCHANGED <<pending, evald, annotated, todo, cur, resolved, outcome>>
\* the conversion needs every reference evaluated and carrying its constraints (annotated)
Parse(t) == /\ pc[t] = "Parse"
            /\ outcome' = [outcome EXCEPT ![t] = IF Names \subseteq evald /\ Names \subseteq annotated THEN "ok" ELSE "notEvaluated"]
            /\ Goto(t, "Done") /\ UNCHANGED <<pending, evald, annotated, updated, lock, todo, cur, resolved>>
Step(t) == Check(t) \/ Acquire(t) \/ Check2(t) \/ Snapshot(t) \/ Lookup(t) \/ Eval(t) \/ Annot(t) \/ Pop(t)
           \/ AfterLoop(t) \/ UpdField(t) \/ Parse(t)
Next == \E t \in Threads : Step(t)
Spec == Init /\ [][Next]_vars /\ \A t \in Threads : WF_vars(Step(t))
P_AsAlone == \A t \in Threads : pc[t] = "Done" => outcome[t] = "ok"
P_LockFree == (\A t \in Threads : pc[t] = "Done") => lock = 0
Termination == <>(\A t \in Threads : pc[t] = "Done")
=============================================================================
