-------------------------- MODULE Export_SchemaTrans --------------------------
EXTENDS MC_SchemaTrans
ASSUME Export
ESpec == sch = 0 /\ inst = 0 /\ cs = 0 /\ m = 0 /\ outs = 0 /\ [][UNCHANGED <<sch, inst, vars>>]_<<sch, inst, vars>>
=============================================================================
