---------------------------- MODULE Trace_RefUses ----------------------------
(* C17 on programs outside the family of ForwardRefs (several modules): only the P-layer -- every recorded use is accepted exactly  *)
(* when its input is valid, with the typed echo of the input as value (ForwardRefs!P_Use).  One TLC state per recorded program.     *)
EXTENDS Naturals, Sequences, TLC, Json, IOUtils
\* the P-layer of ForwardRefs, restated (that module's variables are of no use here)
ExpectedOk(kind) == kind = "valid"
P_Use(u) == u.ok = ExpectedOk(u.kind) /\ (u.ok => u.value = u.echo)
Tr == ndJsonDeserialize(IOEnv.TRACE_FILE)
VARIABLE tid
TInit == tid \in 1..Len(Tr)
TSpec == TInit /\ [][UNCHANGED tid]_tid
R == Tr[tid]
Clause(u) == IF u.ok /\ ~ExpectedOk(u.kind) THEN "accepts-invalid" ELSE IF ~u.ok /\ ExpectedOk(u.kind) THEN "rejects-valid"
             ELSE IF u.ok /\ u.value # u.echo THEN "wrong-value" ELSE "none"
JudgeP == \A x \in 1..Len(R.uses) : P_Use(R.uses[x]) \/ PrintT(<<"VIOL", R.id, Clause(R.uses[x]), x>>)
=============================================================================
