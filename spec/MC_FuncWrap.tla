---------------------------- MODULE MC_FuncWrap ----------------------------
(***************************************************************************)
(* The universe of FuncWrap: every signature of at most MaxNamed named       *)
(* parameters (positional-only, positional-or-keyword, keyword-only, in the  *)
(* order Python requires), each with one of the attribute sets Attrs, with or *)
(* without *args and **kwargs, x every call of 0..n+1 positional arguments,   *)
(* every keyword subset (own name or alias) and an unknown keyword, all       *)
(* values valid except at most one that is convertible or invalid.           *)
(***************************************************************************)
EXTENDS FuncWrap, Json
CONSTANTS MaxNamed, Attrs, SpecialVals

SV2 == {VStr("4", 4, TRUE), VStr("x", 0, FALSE)}
SV1 == {VStr("x", 0, FALSE)}
Ord(k) == CASE k = "po" -> 1 [] k = "pk" -> 2 [] OTHER -> 3
Letters == <<"a", "b", "c">>
AttrRec(a) == CASE a = "plain"    -> [ann |-> TRUE, hasdef |-> FALSE, priv |-> FALSE, alias |-> FALSE]
                [] a = "def"      -> [ann |-> TRUE, hasdef |-> TRUE, priv |-> FALSE, alias |-> FALSE]
                [] a = "unann"    -> [ann |-> FALSE, hasdef |-> FALSE, priv |-> FALSE, alias |-> FALSE]
                [] a = "unanndef" -> [ann |-> FALSE, hasdef |-> TRUE, priv |-> FALSE, alias |-> FALSE]
                [] a = "priv"     -> [ann |-> TRUE, hasdef |-> FALSE, priv |-> TRUE, alias |-> FALSE]
                [] a = "privdef"  -> [ann |-> TRUE, hasdef |-> TRUE, priv |-> TRUE, alias |-> FALSE]
                [] a = "alias"    -> [ann |-> TRUE, hasdef |-> FALSE, priv |-> FALSE, alias |-> TRUE]
                [] a = "aliasdef" -> [ann |-> TRUE, hasdef |-> TRUE, priv |-> FALSE, alias |-> TRUE]
NoVal == [k |-> "none", n |-> 0, s |-> ""]
Par(j, kind, a) == LET r == AttrRec(a)
                       nm == IF r.priv THEN "_" \o Letters[j] ELSE Letters[j]
                   IN [name |-> nm, kind |-> kind, ann |-> r.ann, hasdef |-> r.hasdef, def |-> IF r.hasdef THEN VInt(5 + j) ELSE NoVal,
                       keys |-> IF r.alias THEN <<nm, nm \o nm>> ELSE <<nm>>, priv |-> r.priv]
Var(kind, ann) == [name |-> IF kind = "va" THEN "args" ELSE "kw", kind |-> kind, ann |-> ann, hasdef |-> FALSE, def |-> NoVal,
                   keys |-> <<IF kind = "va" THEN "args" ELSE "kw">>, priv |-> FALSE]
KindSeqs == UNION {{q \in [1..n -> {"po", "pk", "ko"}] : \A i, j \in 1..n : i < j => Ord(q[i]) <= Ord(q[j])} : n \in 0..MaxNamed}
ValidAttrs(ks, as) ==
  /\ \A j \in 1..Len(ks) : (AttrRec(as[j]).priv => ks[j] \in {"po", "pk"}) /\ (AttrRec(as[j]).alias => ks[j] \in {"pk", "ko"})
  \* a positional parameter without a default cannot follow one with a default (an alias is declared through a default value: Param(alias_from=..))
  /\ \A i, j \in 1..Len(ks) : i < j /\ ks[i] \in {"po", "pk"} /\ ks[j] \in {"po", "pk"} /\ (AttrRec(as[i]).hasdef \/ AttrRec(as[i]).alias)
                                  => (AttrRec(as[j]).hasdef \/ AttrRec(as[j]).alias)
  \* ... and the undecorated twin (the reference for the binding) must be a legal Python function as well
  /\ \A i, j \in 1..Len(ks) : i < j /\ ks[i] \in {"po", "pk"} /\ ks[j] \in {"po", "pk"} /\ AttrRec(as[i]).hasdef => AttrRec(as[j]).hasdef
Named(ks, as) == [j \in 1..Len(ks) |-> Par(j, ks[j], as[j])]
\* va: "" none, "ann", "raw";  vk likewise
SigOf(ks, as, va, vk) ==
  LET nm == Named(ks, as)
      pos == SelectSeq(nm, LAMBDA p : p.kind \in {"po", "pk"})
      kos == SelectSeq(nm, LAMBDA p : p.kind = "ko")
  IN pos \o (IF va = "" THEN <<>> ELSE <<Var("va", va = "ann")>>) \o kos \o (IF vk = "" THEN <<>> ELSE <<Var("vk", vk = "ann")>>)
Sigs == {SigOf(ks, as, va, vk) : <<ks, as>> \in {p \in UNION {{<<ks, as>> : as \in [1..Len(ks) -> Attrs]} : ks \in KindSeqs} : ValidAttrs(p[1], p[2])},
                                  va \in {"", "ann", "raw"}, vk \in {"", "ann", "raw"}}

\* calls of a signature
Kwable(sig) == SelectSeq([i \in 1..Len(sig) |-> i], LAMBDA i : sig[i].kind \in {"pk", "ko"} /\ ~sig[i].priv)
KwChoices(sig) == {ch \in [1..Len(Kwable(sig)) -> {"none", "own", "alias"}] : \A y \in 1..Len(Kwable(sig)) : ch[y] = "alias" => Len(sig[Kwable(sig)[y]].keys) > 1}
KwOf(sig, ch, zz) == LET idx == SelectSeq([y \in 1..Len(Kwable(sig)) |-> y], LAMBDA y : ch[y] # "none")
                     IN [y \in 1..Len(idx) |-> [k |-> IF ch[idx[y]] = "own" THEN sig[Kwable(sig)[idx[y]]].keys[1] ELSE sig[Kwable(sig)[idx[y]]].keys[2], v |-> VInt(3)]]
                        \o (IF zz THEN <<[k |-> "zz", v |-> VInt(3)]>> ELSE <<>>)
MaxPos(sig) == Len(PosParams(sig)) + (IF HasVa(sig) THEN 2 ELSE 1)
Plain(sig) == {[pos |-> [j \in 1..n |-> VInt(3)], kw |-> KwOf(sig, ch, zz)] : n \in 0..MaxPos(sig), ch \in KwChoices(sig), zz \in BOOLEAN}
\* at most one value of the call is replaced by a convertible / invalid one
Special(cl) == {cl} \cup {[cl EXCEPT !.pos[j] = v] : j \in 1..Len(cl.pos), v \in SpecialVals}
                    \cup {[cl EXCEPT !.kw[y].v = v] : y \in 1..Len(cl.kw), v \in SpecialVals}
Calls(sig) == UNION {Special(cl) : cl \in Plain(sig)}

FInit == \E sig \in Sigs : \E cl \in Calls(sig) : fc = [sig |-> sig, call |-> cl] /\ w = W0 /\ cs = 0 /\ m = 0 /\ outs = 0
FSpec == FInit /\ [][WNext /\ UNCHANGED vars]_<<fc, w, vars>> /\ WF_<<fc, w, vars>>(WNext /\ UNCHANGED vars)
Termination == <>WDone
=============================================================================
