SPECIFICATION Spec
INVARIANT W_Restrict
INVARIANT W_NoLossInt
INVARIANT W_NoLossIntRejects
INVARIANT W_NoLossBool
INVARIANT W_NoLossBoolRejects
INVARIANT W_NoCollapse
INVARIANT W_StrictBytes
INVARIANT W_Group
INVARIANT W_GroupRejects
