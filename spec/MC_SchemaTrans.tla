--------------------------- MODULE MC_SchemaTrans ---------------------------
(* every object schema of the fragment over the property names a, b x every instance of up to three keys a, b, zz with an integer, a numeric string or another string *)
EXTENDS SchemaTrans, Json, IOUtils
PropSets == {<<"a">>, <<"a", "b">>}
SubLists(p) == IF Len(p) = 1 THEN {<<>>, p} ELSE {<<>>, <<p[1]>>, <<p[2]>>, p}

Schemas == {[props |-> p, required |-> r, addl |-> a, dep |-> dd] : p \in PropSets, r \in SubLists(<<"a", "b">>), a \in {"absent", "true", "false", "schema"}, dd \in {<<>>, <<<<"b", "a">>>>}}
Legit == {s \in Schemas : (\A y \in 1..Len(s.required) : \E z \in 1..Len(s.props) : s.props[z] = s.required[y]) /\ (s.dep # <<>> => Len(s.props) = 2)}
Vals3 == {VInt(3), VStr("5", 5, TRUE), VStr("x", 0, FALSE)}
KeySeqs == UNION {{q \in [1..l -> {"a", "b", "zz"}] : \A i, j \in 1..l : i # j => q[i] # q[j]} : l \in 0..3}
Insts == UNION {{[y \in 1..Len(ks) |-> [k |-> ks[y], v |-> vs[y]]] : vs \in [1..Len(ks) -> Vals3]} : ks \in KeySeqs}
VARIABLES sch, inst
SInit == sch \in Legit /\ inst \in Insts /\ cs = 0 /\ m = 0 /\ outs = 0
SSpec == SInit /\ [][UNCHANGED <<sch, inst, vars>>]_<<sch, inst, vars>>
P_Sound == M_Sound(sch, inst)
W_Accepts == ~TRun(sch, inst).ok
W_RejectsRequired == ~("absence" \in Range(TRun(sch, inst).errs))
W_RejectsExtra == ~("exceed" \in Range(TRun(sch, inst).errs))
W_RejectsDependent == ~("deps" \in Range(TRun(sch, inst).errs))
Export == ndJsonSerialize(IOEnv.OUT_CASES, SetToSeq({[s |-> s, insts |-> SetToSeq(Insts)] : s \in Legit}))
=============================================================================
