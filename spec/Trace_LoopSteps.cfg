SPECIFICATION TSpec
CONSTANTS
  Variant = "fixed"
  ShapeNames = {}
  PairShapes = {}
  MaxSettings = 0
  MaxLen = 0
  MaxLen2 = 0
CONSTRAINT JudgeStep
