SPECIFICATION TSpec
CONSTRAINT Report
