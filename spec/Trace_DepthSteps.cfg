SPECIFICATION TSpec
CONSTANTS
  Variant = "fixed"
CONSTRAINT JudgeStep
