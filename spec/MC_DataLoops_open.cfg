SPECIFICATION MCSpec
CONSTANTS
  Variant = "fixed"
  ShapeNames = {"alias", "ci"}
  PairShapes = {}
  MaxSettings = 1
  MaxLen = 2
  MaxLen2 = 1
INVARIANT M_Admissible_ffs
INVARIANT M_Admissible_dfs
INVARIANT M_Same
