SPECIFICATION TSpec
CONSTANTS
  Variant = "fixed"
  UseCache = FALSE
  RegMenu = {}
  MaxOps = 0
CONSTRAINT JudgeP
CONSTRAINT JudgeM
