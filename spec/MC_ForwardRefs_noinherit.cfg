SPECIFICATION MCSpecSub
CONSTANTS
  FixReturn = TRUE
  FixOrigin = TRUE
  Inherit = FALSE
  Variant = "fixed"
CONSTRAINT MRefute
