------------------------------- MODULE MC_Heap -------------------------------
(* Histories of parses and mutations on the heap model: three default-carrying fields      *)
(* (a list, a dict holding a list, a tuple holding a list and a dict) and a factory field. *)
EXTENDS Heap
CONSTANT MaxOps
\* initial heap: the class-level default objects
H0 == << [kind |-> "list",  items |-> <<Atom(1), Atom(2)>>],          \* 1: default of field 1
         [kind |-> "list",  items |-> <<Atom(1)>>],                   \* 2
         [kind |-> "dict",  items |-> <<Ref(2)>>],                    \* 3: default of field 2  {'k': [1]}
         [kind |-> "list",  items |-> <<Atom(1)>>],                   \* 4
         [kind |-> "dict",  items |-> <<Atom(2)>>],                   \* 5
         [kind |-> "tuple", items |-> <<Ref(4), Ref(5)>>] >>          \* 6: default of field 3  ([1], {'k': 2})
Defaults == <<Ref(1), Ref(3), Ref(6)>>
NF == 4                                                                \* field 4: default_factory=list
VARIABLES heap, results, inputs, nops
vars == <<heap, results, inputs, nops>>
Init == heap = H0 /\ results = <<>> /\ inputs = {} /\ nops = 0
RECURSIVE Fill(_, _, _, _)
Fill(h, j, acc, provided) ==          \* fields 1..NF in order; `provided` maps a field to the caller's value
  IF j > NF THEN [h |-> h, vals |-> acc]
  ELSE IF j \in DOMAIN provided
         THEN LET c == Rebuild(h, provided[j]) IN Fill(c.h, j + 1, Append(acc, [v |-> c.v, filled |-> FALSE]), provided)
       ELSE IF j = NF
         THEN Fill(Append(h, [kind |-> "list", items |-> <<>>]), j + 1, Append(acc, [v |-> Ref(Len(h) + 1), filled |-> TRUE]), provided)
       ELSE LET c == Copy(h, Defaults[j]) IN Fill(c.h, j + 1, Append(acc, [v |-> c.v, filled |-> TRUE]), provided)
CallOmit == LET f == Fill(heap, 1, <<>>, <<>>) IN
            heap' = f.h /\ results' = Append(results, f.vals) /\ UNCHANGED inputs
CallProvide == \* the caller passes its own list [7, [8]] for field 1
  LET h1 == Append(Append(heap, [kind |-> "list", items |-> <<Atom(8)>>]),
                   [kind |-> "list", items |-> <<Atom(7), Ref(Len(heap) + 1)>>])
      inp == Ref(Len(heap) + 2)
      f == Fill(h1, 1, <<>>, [x \in {1} |-> inp]) IN
  heap' = f.h /\ results' = Append(results, f.vals) /\ inputs' = inputs \cup {Len(heap) + 1, Len(heap) + 2}
Mutate == \E i \in 1..Len(results), j \in 1..NF :
            \E o \in MutReach(heap, results[i][j].v) :
               heap' = [heap EXCEPT ![o].items = Append(@, Atom(9))] /\ UNCHANGED <<results, inputs>>
Next == nops < MaxOps /\ nops' = nops + 1 /\ (CallOmit \/ CallProvide \/ Mutate)
Spec == Init /\ [][Next]_vars
\* no user mutation can reach a class default, a caller's input or another result's default-filled field
DefaultOids == UNION {Reach(H0, Defaults[d]) : d \in 1..Len(Defaults)}
P_DefaultsIntact == \A o \in DefaultOids : heap[o] = H0[o]
P_NoAlias == \A i \in 1..Len(results) : \A j \in 1..NF : results[i][j].filled =>
               /\ MutReach(heap, results[i][j].v) \cap DefaultOids = {}
               /\ \A i2 \in 1..Len(results) : \A j2 \in 1..NF : (i2 # i \/ j2 # j) =>
                    MutReach(heap, results[i][j].v) \cap MutReach(heap, results[i2][j2].v) = {}
P_InputsOwn == \A i \in 1..Len(results) : \A j \in 1..NF : MutReach(heap, results[i][j].v) \cap inputs = {}
=============================================================================
