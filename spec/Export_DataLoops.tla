--------------------------- MODULE Export_DataLoops ---------------------------
(* Writes the universe of MC_DataLoops out for the replay into the code: declarations and options once per name, cases by name. *)
EXTENDS MC_DataLoops, IOUtils
Names == SetToSeq({c \in CaseNames : Legal(Decl(c.sh), Opts(c.st))})
ShSeq == SetToSeq(ShapeTuples)
StSeq == SetToSeq(SettingSets)
\* one line per (declaration, options) name with all its inputs
CasesOf(c) == [sh |-> c.sh, st |-> SetToSeq(c.st), xs |-> SetToSeq(Inputs(Decl(c.sh), IF Len(c.sh) = 1 THEN MaxLen ELSE MaxLen2))]
ASSUME ndJsonSerialize(IOEnv.OUT_DECLS, [y \in 1..Len(ShSeq) |-> [sh |-> ShSeq[y], d |-> Decl(ShSeq[y])]])
ASSUME ndJsonSerialize(IOEnv.OUT_OPTS, [y \in 1..Len(StSeq) |-> [st |-> SetToSeq(StSeq[y]), o |-> Opts(StSeq[y])]])
ASSUME ndJsonSerialize(IOEnv.OUT_CASES, [y \in 1..Len(Names) |-> CasesOf(Names[y])])
ESpec == cs = 0 /\ m = 0 /\ outs = 0 /\ [][UNCHANGED vars]_vars
=============================================================================
