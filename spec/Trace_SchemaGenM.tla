--------------------------- MODULE Trace_SchemaGenM ---------------------------
(* The declarations of MC_SchemaGenM built for real: the structure of the generated input schema (props, required, addl as read from   *)
(* the document) and the probed behaviour of the real parser (accepted, preq, fate).                                                  *)
(*   VIOL  the structural clause of C13 on the real generator and the real parser                                                    *)
(*   DIV   the generator as transcribed (SchemaGenM) writes something else than the real one                                          *)
EXTENDS SchemaGenM, Json, IOUtils
Tr == ndJsonDeserialize(IOEnv.TRACE_FILE)
VARIABLE tid
TInit == tid \in 1..Len(Tr) /\ cs = 0 /\ m = 0 /\ outs = 0
TSpec == TInit /\ [][UNCHANGED <<tid, vars>>]_<<tid, vars>>
R == Tr[tid]
Clause == IF R.probed /\ ToSet(R.props) # ToSet(R.accepted) THEN "Properties"
          ELSE IF ToSet(R.required) # ToSet(R.preq) THEN "Required"
          ELSE IF R.fate = "rejected" /\ R.addl # "false" THEN "Additional"
          ELSE IF R.fate = "converted" /\ R.addl # "schema" THEN "Additional"
          ELSE IF R.fate \in {"kept", "dropped"} /\ R.addl \notin (IF R.fate = "kept" THEN {"true"} ELSE {"absent", "true"}) THEN "Additional"
          ELSE "none"
JudgeP == Clause = "none" \/ PrintT(<<"VIOL", R.id, Clause>>)
JudgeM == (GenProps(R.d, R.o) = ToSet(R.props) /\ GenRequired(R.d, R.o) = ToSet(R.required) /\ GenAddl(R.o) = R.addl) \/ PrintT(<<"DIV", R.id>>)
=============================================================================
