SPECIFICATION ESpec
CONSTANTS
  Variant = "fixed"
  MaxNamed = 2
  Attrs = {"plain", "def", "unann", "unanndef", "priv", "privdef", "alias", "aliasdef"}
  SpecialVals <- SV2
