SPECIFICATION TSpec
CONSTANTS
  FixReturn = TRUE
  FixOrigin = TRUE
  Inherit = TRUE
  Variant = "fixed"
CONSTRAINT JudgeP
CONSTRAINT JudgeM
