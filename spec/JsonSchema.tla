------------------------------ MODULE JsonSchema ------------------------------
(***************************************************************************)
(* C13 / C15 -- an independent validator for the supported fragment of JSON  *)
(* Schema 2020-12, written in TLA+ (cross-checked against the jsonschema     *)
(* package by tools/xcheck_jsonschema.py), and well-formedness of a schema    *)
(* document.                                                                *)
(* JSON values (instances and schemas alike) are uniform records             *)
(*   [j, b, n, d, s, ln, a, ks, vs, big]                                      *)
(*   j  "null" | "bool" | "num" | "str" | "arr" | "obj"                        *)
(*   b  boolean payload   n/d exact rational payload (big: magnitude not        *)
(*   encodable, comparisons not judged)   s text, ln its length in code points  *)
(*   a  array elements    ks / vs  object keys (strings) and values             *)
(* pm: logged regex facts: seq of [p, s, m] = re.search(p, s) is not None       *)
(***************************************************************************)
EXTENDS Integers, Sequences, FiniteSets, TLC

Has(o, k) == o.j = "obj" /\ \E x \in 1..Len(o.ks) : o.ks[x] = k
Get(o, k) == o.vs[CHOOSE x \in 1..Len(o.ks) : o.ks[x] = k]
IsInt(v) == v.j = "num" /\ (v.big \/ v.n % v.d = 0)
NumLE(a, b) == a.n * b.d <= b.n * a.d
NumLT(a, b) == a.n * b.d < b.n * a.d
NumEq(a, b) == a.n * b.d = b.n * a.d
RECURSIVE JEq(_, _)
JEq(a, b) ==
  IF a.j # b.j THEN FALSE
  ELSE CASE a.j = "null" -> TRUE
         [] a.j = "bool" -> a.b = b.b
         [] a.j = "num"  -> IF a.big \/ b.big THEN a.s = b.s ELSE NumEq(a, b)
         [] a.j = "str"  -> a.s = b.s /\ a.ln = b.ln
         [] a.j = "arr"  -> Len(a.a) = Len(b.a) /\ \A x \in 1..Len(a.a) : JEq(a.a[x], b.a[x])
         [] a.j = "obj"  -> /\ Len(a.ks) = Len(b.ks)
                            /\ \A x \in 1..Len(a.ks) : Has(b, a.ks[x]) /\ JEq(a.vs[x], Get(b, a.ks[x]))
TypeIs(v, t) ==
  CASE t = "null" -> v.j = "null" [] t = "boolean" -> v.j = "bool" [] t = "string" -> v.j = "str"
    [] t = "array" -> v.j = "arr" [] t = "object" -> v.j = "obj" [] t = "number" -> v.j = "num"
    [] t = "integer" -> IsInt(v) [] OTHER -> FALSE
Match(pm, p, s) == \E x \in 1..Len(pm) : pm[x].p = p /\ pm[x].s = s /\ pm[x].m
Known(pm, p, s) == \E x \in 1..Len(pm) : pm[x].p = p /\ pm[x].s = s
EmptyObj == [j |-> "obj", b |-> FALSE, n |-> 0, d |-> 1, s |-> "", ln |-> 0, a |-> <<>>, ks |-> <<>>, vs |-> <<>>, big |-> FALSE]

RECURSIVE Val(_, _, _)
Val(v, s, pm) ==
  IF s.j = "bool" THEN s.b
  ELSE
  /\ (Has(s, "type") => LET t == Get(s, "type") IN
        IF t.j = "str" THEN TypeIs(v, t.s) ELSE \E x \in 1..Len(t.a) : TypeIs(v, t.a[x].s))
  /\ (Has(s, "const") => JEq(v, Get(s, "const")))
  /\ (Has(s, "enum") => \E x \in 1..Len(Get(s, "enum").a) : JEq(v, Get(s, "enum").a[x]))
  /\ (v.j = "num" /\ ~v.big =>
        /\ (Has(s, "minimum") => NumLE(Get(s, "minimum"), v))
        /\ (Has(s, "maximum") => NumLE(v, Get(s, "maximum")))
        /\ (Has(s, "exclusiveMinimum") => NumLT(Get(s, "exclusiveMinimum"), v))
        /\ (Has(s, "exclusiveMaximum") => NumLT(v, Get(s, "exclusiveMaximum")))
        /\ (Has(s, "multipleOf") => LET m == Get(s, "multipleOf") IN (v.n * m.d) % (v.d * m.n) = 0))
  /\ (v.j = "str" =>
        /\ (Has(s, "minLength") => v.ln >= Get(s, "minLength").n)
        /\ (Has(s, "maxLength") => v.ln <= Get(s, "maxLength").n)
        /\ (Has(s, "pattern") => Match(pm, Get(s, "pattern").s, v.s)))
  /\ (v.j = "arr" =>
        LET np == IF Has(s, "prefixItems") THEN Len(Get(s, "prefixItems").a) ELSE 0 IN
        /\ (Has(s, "minItems") => Len(v.a) >= Get(s, "minItems").n)
        /\ (Has(s, "maxItems") => Len(v.a) <= Get(s, "maxItems").n)
        /\ (Has(s, "prefixItems") => \A x \in 1..Len(v.a) : x <= np => Val(v.a[x], Get(s, "prefixItems").a[x], pm))
        /\ (Has(s, "items") => \A x \in 1..Len(v.a) : x > np => Val(v.a[x], Get(s, "items"), pm))
        /\ (Has(s, "uniqueItems") /\ Get(s, "uniqueItems").b =>
               \A x, y \in 1..Len(v.a) : x < y => ~JEq(v.a[x], v.a[y]))
        /\ (Has(s, "contains") =>
               LET c == Cardinality({x \in 1..Len(v.a) : Val(v.a[x], Get(s, "contains"), pm)})
                   lo == IF Has(s, "minContains") THEN Get(s, "minContains").n ELSE 1 IN
               c >= lo /\ (Has(s, "maxContains") => c <= Get(s, "maxContains").n)))
  /\ (v.j = "obj" =>
        LET props == IF Has(s, "properties") THEN Get(s, "properties") ELSE EmptyObj
            pats == IF Has(s, "patternProperties") THEN Get(s, "patternProperties") ELSE EmptyObj
            byPattern(k) == {y \in 1..Len(pats.ks) : Match(pm, pats.ks[y], k)} IN
        /\ (Has(s, "required") => \A x \in 1..Len(Get(s, "required").a) : Has(v, Get(s, "required").a[x].s))
        /\ (Has(s, "minProperties") => Len(v.ks) >= Get(s, "minProperties").n)
        /\ (Has(s, "maxProperties") => Len(v.ks) <= Get(s, "maxProperties").n)
        /\ \A x \in 1..Len(v.ks) : Has(props, v.ks[x]) => Val(v.vs[x], Get(props, v.ks[x]), pm)
        /\ \A x \in 1..Len(v.ks) : \A y \in byPattern(v.ks[x]) : Val(v.vs[x], pats.vs[y], pm)
        /\ (Has(s, "additionalProperties") =>
               \A x \in 1..Len(v.ks) : (~Has(props, v.ks[x]) /\ byPattern(v.ks[x]) = {}) => Val(v.vs[x], Get(s, "additionalProperties"), pm))
        /\ (Has(s, "dependentRequired") =>
               LET dr == Get(s, "dependentRequired") IN
               \A x \in 1..Len(dr.ks) : Has(v, dr.ks[x]) => \A y \in 1..Len(dr.vs[x].a) : Has(v, dr.vs[x].a[y].s)))
  /\ (Has(s, "anyOf") => \E x \in 1..Len(Get(s, "anyOf").a) : Val(v, Get(s, "anyOf").a[x], pm))
  /\ (Has(s, "allOf") => \A x \in 1..Len(Get(s, "allOf").a) : Val(v, Get(s, "allOf").a[x], pm))
  /\ (Has(s, "oneOf") => Cardinality({x \in 1..Len(Get(s, "oneOf").a) : Val(v, Get(s, "oneOf").a[x], pm)}) = 1)
  /\ (Has(s, "not") => ~Val(v, Get(s, "not"), pm))

(* ---- well-formedness of a schema document (the meta-schema for the fragment) --------------------------------------- *)
TypeNames == {"null", "boolean", "object", "array", "number", "string", "integer"}
IsNat(v) == v.j = "num" /\ ~v.big /\ v.d = 1 /\ v.n >= 0
IsStrArr(v, uniq) == v.j = "arr" /\ (\A x \in 1..Len(v.a) : v.a[x].j = "str") /\
                     (uniq => \A x, y \in 1..Len(v.a) : x < y => v.a[x].s # v.a[y].s)
\* the document is JSON throughout (no value the JSON data model lacks)
RECURSIVE IsJson(_)
IsJson(v) == v.j # "notjson" /\ (\A x \in 1..Len(v.a) : IsJson(v.a[x])) /\ (\A x \in 1..Len(v.vs) : IsJson(v.vs[x]))
RECURSIVE WF(_)
WFObjOfSchemas(o) == o.j = "obj" /\ \A x \in 1..Len(o.vs) : WF(o.vs[x])
WFArrOfSchemas(o) == o.j = "arr" /\ Len(o.a) >= 1 /\ \A x \in 1..Len(o.a) : WF(o.a[x])
WF(s) ==
  \/ s.j = "bool"
  \/ /\ s.j = "obj"
     /\ (Has(s, "type") => LET t == Get(s, "type") IN
            (t.j = "str" /\ t.s \in TypeNames) \/ (IsStrArr(t, TRUE) /\ \A x \in 1..Len(t.a) : t.a[x].s \in TypeNames))
     /\ (Has(s, "enum") => Get(s, "enum").j = "arr")
     /\ \A kw \in {"minimum", "maximum", "exclusiveMinimum", "exclusiveMaximum"} : Has(s, kw) => Get(s, kw).j = "num"
     /\ (Has(s, "multipleOf") => Get(s, "multipleOf").j = "num" /\ Get(s, "multipleOf").n > 0)
     /\ \A kw \in {"minLength", "maxLength", "minItems", "maxItems", "minContains", "maxContains", "minProperties", "maxProperties"} :
           Has(s, kw) => IsNat(Get(s, kw))
     /\ \A kw \in {"pattern", "format", "title", "description", "$ref"} : Has(s, kw) => Get(s, kw).j = "str"
     /\ \A kw \in {"uniqueItems", "deprecated", "readOnly", "writeOnly"} : Has(s, kw) => Get(s, kw).j = "bool"
     /\ \A kw \in {"items", "contains", "additionalProperties", "not", "propertyNames"} : Has(s, kw) => WF(Get(s, kw))
     /\ \A kw \in {"prefixItems", "anyOf", "oneOf", "allOf"} : Has(s, kw) => WFArrOfSchemas(Get(s, kw))
     /\ \A kw \in {"properties", "patternProperties", "$defs"} : Has(s, kw) => WFObjOfSchemas(Get(s, kw))
     /\ (Has(s, "required") => IsStrArr(Get(s, "required"), TRUE))
     /\ (Has(s, "dependentRequired") => LET dr == Get(s, "dependentRequired") IN
            dr.j = "obj" /\ \A x \in 1..Len(dr.vs) : IsStrArr(dr.vs[x], TRUE))
     /\ (Has(s, "examples") => Get(s, "examples").j = "arr")
=============================================================================
