------------------------------- MODULE Values -------------------------------
(***************************************************************************)
(* The abstract universe shared by the pipeline properties (C01-C06,        *)
(* C08-C12): values as projected from real Python objects, declaration      *)
(* descriptors, the documented sense of every constraint (SatDoc) and the   *)
(* type-directed conformance predicate (Conforms).                          *)
(*                                                                         *)
(* value  [k, t, n, d, s, ln, items, ks, dg, ex]                             *)
(*   k   kind: none bool int float dec str bytes list tuple set fset dict   *)
(*       inst other ...            t   class names of the MRO               *)
(*   n/d exact rational payload (ints: d = 1; bool: n in {0,1})             *)
(*   s   text payload, ln = len()   items  elements / dict values / fields  *)
(*   ks  dict keys / field names (values)      dg, ex  Decimal.as_tuple()   *)
(* descriptor [k, name, cons, args, fields, ell, contains, minc, maxc]      *)
(*   k   prim | rule | union | xor | and | not | cls                        *)
(*   cons  sequence of [c, n, d, s, lax, vals]                              *)
(***************************************************************************)
EXTENDS Integers, Sequences, FiniteSets, TLC

Range(f) == {f[x] : x \in DOMAIN f}
IsA(v, name) == name \in Range(v.t)
Numeric(v) == v.k \in {"int", "bool", "float", "dec"}
Sized(v) == v.k \in {"str", "bytes", "list", "tuple", "set", "fset", "dict"}
Container(v) == v.k \in {"list", "tuple", "set", "fset", "dict"}

(* exact rational arithmetic on n/d with d > 0 *)
NumLT(a, b) == a.n * b.d < b.n * a.d
NumLE(a, b) == a.n * b.d <= b.n * a.d
\* equality: the projection sends every number as a reduced fraction, so equal numbers have equal n and d; numbers too large for
\* TLC's 32-bit products (|n| or d beyond 30000) are compared in that canonical form only
BigNum(a) == a.n > 30000 \/ a.n < -30000 \/ a.d > 30000
NumEq(a, b) == IF a.n = b.n /\ a.d = b.d THEN TRUE ELSE IF BigNum(a) \/ BigNum(b) THEN FALSE ELSE a.n * b.d = b.n * a.d
\* a is an integer multiple of m (m # 0):  (a.n/a.d) / (m.n/m.d) is an integer
MultipleOf(a, m) == m.n # 0 /\ (a.n * m.d) % (a.d * m.n) = 0

(* Python's == on the projected universe: numbers by value across int/bool/float/Decimal, text by text and kind, *)
(* containers element-wise (sets as sets)                                                                        *)
RECURSIVE PyEq(_, _)
PyEq(a, b) ==
  IF Numeric(a) /\ Numeric(b) THEN NumEq(a, b)
  ELSE IF a.k # b.k THEN (a.k \in {"set", "fset"} /\ b.k \in {"set", "fset"} /\
                          (\A x \in 1..Len(a.items) : \E y \in 1..Len(b.items) : PyEq(a.items[x], b.items[y])) /\
                          (\A y \in 1..Len(b.items) : \E x \in 1..Len(a.items) : PyEq(a.items[x], b.items[y])))
  ELSE CASE a.k \in {"str", "bytes"} -> a.s = b.s /\ a.ln = b.ln
         [] a.k = "none" -> TRUE
         [] a.k \in {"list", "tuple"} -> Len(a.items) = Len(b.items) /\ \A x \in 1..Len(a.items) : PyEq(a.items[x], b.items[x])
         [] a.k \in {"set", "fset"} -> (\A x \in 1..Len(a.items) : \E y \in 1..Len(b.items) : PyEq(a.items[x], b.items[y])) /\
                                       (\A y \in 1..Len(b.items) : \E x \in 1..Len(a.items) : PyEq(a.items[x], b.items[y]))
         [] a.k \in {"dict", "inst"} -> Len(a.ks) = Len(b.ks) /\
                          \A x \in 1..Len(a.ks) : \E y \in 1..Len(b.ks) : PyEq(a.ks[x], b.ks[y]) /\ PyEq(a.items[x], b.items[y])
         [] OTHER -> a.s = b.s
\* same value AND same concrete type (what "the result equals the input" / "an equal value of the same type" mean)
SameValue(a, b) == PyEq(a, b) /\ a.t = b.t

(* ---- documented sense of each strict constraint (references/rule.md) ------------------------------------------ *)
\* number of significant digits / decimal places of a Decimal digit tuple (sign ignored, leading zeros of 0.00x
\* count as decimal places but not as digits)
Digits(v) == IF v.ex >= 0 THEN Len(v.dg) + v.ex
             ELSE IF -v.ex > Len(v.dg) THEN -v.ex ELSE Len(v.dg)
Places(v) == IF v.ex >= 0 THEN 0 ELSE -v.ex
\* len(value); for values without __len__ the documented sense is the length of str(value) (logged as ln)
SizeOf(v) == IF Container(v) THEN Len(v.items) ELSE v.ln
\* const compares with == and requires the same exact type, except for the documented numeric pairs
Tolerated(a, b) == {a.t[1], b.t[1]} \in {{"int", "float"}, {"int", "Decimal"}}
UniqueItems(v) == \A x, y \in 1..Len(v.items) : x < y => ~PyEq(v.items[x], v.items[y])
\* a Decimal checked against decimal_places d is first completed to d places ("123.4 is completed to 123.40, and
\* then max_digits does not pass", references/rule.md); the completed value is what max_digits counts
Completed(v, d) == IF v.k = "dec" /\ v.ex > -d
                     THEN IF \A x \in 1..Len(v.dg) : v.dg[x] = 0 THEN [v EXCEPT !.dg = <<0>>, !.ex = -d]   \* zero keeps one digit
                          ELSE [v EXCEPT !.dg = v.dg \o [x \in 1..(v.ex + d) |-> 0], !.ex = -d]
                     ELSE v
\* a NaN is on neither side of any bound
IsNaN(v) == v.k = "floatx" /\ v.s = "nan"
SatDoc(v, c) ==
  CASE c.c = "gt" -> ~IsNaN(v) /\ NumLT(c, v)
    [] c.c = "ge" -> ~IsNaN(v) /\ NumLE(c, v)
    [] c.c = "lt" -> ~IsNaN(v) /\ NumLT(v, c)
    [] c.c = "le" -> ~IsNaN(v) /\ NumLE(v, c)
    [] c.c = "length"     -> SizeOf(v) = c.n
    [] c.c = "max_length" -> SizeOf(v) <= c.n
    [] c.c = "min_length" -> SizeOf(v) >= c.n
    [] c.c = "multiple_of" -> MultipleOf(v, c)
    [] c.c = "max_digits" -> Digits(v) <= c.n
    [] c.c = "decimal_places" -> Places(v) <= c.n
    [] c.c = "unique_items" -> UniqueItems(v)
    [] c.c = "const" -> \E y \in 1..Len(c.vals) : PyEq(v, c.vals[y]) /\ (v.t[1] = c.vals[y].t[1] \/ Tolerated(v, c.vals[y]))
    [] c.c = "enum"  -> \E y \in 1..Len(c.vals) : PyEq(v, c.vals[y])
    [] c.c = "regex" -> c.s = "match"              \* the harness logs re.fullmatch(pattern, value) as a fact per case
    [] OTHER -> TRUE

(* ---- conformance of a value to a declaration ---------------------------------------------------------------------- *)
PrimName(name) == IF name = "none" THEN "NoneType" ELSE name
\* could the value be converted to the (contains) type?  Known only for int: numbers, None, text that reads as a number
\* or boolean word (logged fact dg # <<>> on text values), collections (their first element is taken); other types: unknown, hence possibly
MayMatch(e, C) == IF C.k = "prim" /\ C.name = "int"
                    THEN Numeric(e) \/ e.k = "none" \/ (e.k \in {"str", "bytes"} /\ e.dg # <<>>) \/ Container(e) \/ e.k \in {"intx", "floatx", "decx"}
                         \* empty text converts to 0 ("convert '', None and others to 0"), and bytes are decoded leniently: what is left may be empty
                         \/ (e.k = "str" /\ e.ln = 0) \/ e.k = "bytes"
                  ELSE TRUE
RECURSIVE Conforms(_, _)
ArgsConform(v, T) ==
  IF T.args = <<>> THEN TRUE
  ELSE CASE v.k \in {"list", "set", "fset"} -> \A x \in 1..Len(v.items) : Conforms(v.items[x], T.args[1])
         [] v.k = "tuple" -> IF T.ell THEN \A x \in 1..Len(v.items) : Conforms(v.items[x], T.args[1])
                             ELSE Len(v.items) = Len(T.args) /\ \A x \in 1..Len(v.items) : Conforms(v.items[x], T.args[x])
         [] v.k = "dict" -> \A x \in 1..Len(v.items) : Conforms(v.ks[x], T.args[1]) /\ Conforms(v.items[x], T.args[2])
         [] OTHER -> TRUE
Conforms(v, T) ==
  CASE T.k = "prim" -> IsA(v, PrimName(T.name))
    [] T.k = "any"  -> TRUE
    [] T.k = "rule" -> /\ (T.name # "" => IsA(v, PrimName(T.name)))
                       /\ LET dp == {x \in 1..Len(T.cons) : T.cons[x].c = "decimal_places" /\ ~T.cons[x].lax}
                              w == IF dp # {} /\ T.name = "Decimal" /\ Places(v) <= T.cons[CHOOSE x \in dp : TRUE].n
                                   THEN Completed(v, T.cons[CHOOSE x \in dp : TRUE].n) ELSE v IN
                          \A x \in 1..Len(T.cons) : (~T.cons[x].lax =>
                                 SatDoc(IF T.cons[x].c = "max_digits" THEN w ELSE v, T.cons[x]))
                       /\ ArgsConform(v, T)
                       \* contains counts the elements that *match* the contains type, i.e. that it would accept (references/rule.md);
                       \* a conforming element certainly matches, an element that could not be converted certainly does not
                       /\ (T.contains # <<>> =>
                             LET sure == Cardinality({x \in 1..Len(v.items) : Conforms(v.items[x], T.contains[1])})
                                 maybe == Cardinality({x \in 1..Len(v.items) : Conforms(v.items[x], T.contains[1]) \/ MayMatch(v.items[x], T.contains[1])}) IN
                             maybe >= (IF T.minc < 0 THEN 1 ELSE T.minc) /\ (T.maxc >= 0 => sure <= T.maxc))
    [] T.k \in {"union", "xor"} -> \E x \in 1..Len(T.args) : Conforms(v, T.args[x])
    [] T.k = "and" -> Conforms(v, T.args[Len(T.args)])
    [] T.k = "not" -> ~Conforms(v, T.args[1])
    [] T.k = "cls" -> /\ v.k = "inst" /\ IsA(v, T.name)
                      /\ \A x \in 1..Len(T.fields) : LET f == T.fields[x] IN
                           /\ (f.req => \E y \in 1..Len(v.ks) : v.ks[y].s = f.out)
                           /\ \A y \in 1..Len(v.ks) : v.ks[y].s = f.out => Conforms(v.items[y], f.ty)
    [] OTHER -> FALSE
=============================================================================
