SPECIFICATION TSpec
CONSTRAINT JudgeP
