--------------------------- MODULE MC_Constraints ---------------------------
(***************************************************************************)
(* C02 / C03 on the model: every int rule with up to MaxCons constraints of   *)
(* the menu (gt / ge / lt / le over Bounds, multiple_of over Steps; ge, le    *)
(* and multiple_of also in lax mode; bounds consistent) x every value of      *)
(* Vals, run through the validators as transcribed (Constraints!RunRule).      *)
(*   M_StrictIsDoc   strict rules accept exactly the values that satisfy       *)
(*                   every constraint in its documented sense, unaltered       *)
(*   M_Idem          what a rule returns it returns again                      *)
(*   M_LaxStrict     the output satisfies the strict form of every lax         *)
(*                   constraint                                               *)
(* The last two hold except at the recorded open point (lax multiple_of        *)
(* combined with a bound: findings/known_findings.json, C03).                  *)
(***************************************************************************)
EXTENDS Constraints, SequencesExt
CONSTANTS MaxCons, Bounds, Steps, Vals

ValsQ == -4..7
IntV(n) == [k |-> "int", t |-> <<"int", "object">>, n |-> n, d |-> 1, s |-> "", ln |-> IF n < 0 THEN 2 ELSE 1, items |-> <<>>, ks |-> <<>>,
            dg |-> <<IF n < 0 THEN -n ELSE n>>, ex |-> 0]
Con(c, n, lax) == [c |-> c, n |-> n, d |-> 1, s |-> "", lax |-> lax, vals |-> <<>>]
Menu == {Con(c, b, FALSE) : c \in {"gt", "ge", "lt", "le"}, b \in Bounds} \cup {Con(c, b, TRUE) : c \in {"ge", "le"}, b \in Bounds}
        \cup {Con("multiple_of", st, l) : st \in Steps, l \in BOOLEAN}
Lower(S) == {c \in S : c.c \in {"gt", "ge"}}
Upper(S) == {c \in S : c.c \in {"lt", "le"}}
\* one constraint per name; a lower bound never above an upper bound (the library refuses contradictory declarations)
Sane(S) == /\ \A a, b \in S : a # b => a.c # b.c
           /\ Cardinality(Lower(S)) <= 1 /\ Cardinality(Upper(S)) <= 1
           /\ \A a \in Lower(S), b \in Upper(S) : a.n < b.n
ConSets == {S \in SUBSET Menu : Cardinality(S) >= 1 /\ Cardinality(S) <= MaxCons /\ Sane(S)}

VARIABLES cons, v
Init == \E S \in ConSets : cons = SetToSeq(S) /\ v \in {IntV(n) : n \in Vals}
Next == UNCHANGED <<cons, v>>
Spec == Init /\ [][Next]_<<cons, v>>
Out == RunRule(v, cons, 1)
AllStrict == \A y \in 1..Len(cons) : ~cons[y].lax
M_StrictIsDoc == AllStrict => Out.ok = (\A y \in 1..Len(cons) : SatDoc(v, cons[y])) /\ (Out.ok => Out.v = v)
Has(name, lax) == \E y \in 1..Len(cons) : cons[y].c = name /\ cons[y].lax = lax
OpenPoint == Has("multiple_of", TRUE) /\ \E y \in 1..Len(cons) : cons[y].c \in {"gt", "ge", "lt", "le"}
M_Idem == Out.ok => RunRule(Out.v, cons, 1).ok /\ PyEq(RunRule(Out.v, cons, 1).v, Out.v)
M_LaxStrict == Out.ok => \A y \in 1..Len(cons) : cons[y].lax => SatDoc(Out.v, cons[y])
M_Idem_ExceptOpen == ~OpenPoint => M_Idem
M_LaxStrict_ExceptOpen == ~OpenPoint => M_LaxStrict
\* vacuity witnesses (each must be refuted)
W_StrictAccepts == ~(AllStrict /\ Out.ok /\ Len(cons) >= 2)
W_StrictRejects == ~(AllStrict /\ ~Out.ok /\ Len(cons) >= 2)
W_LaxChanges == ~(Out.ok /\ Out.v # v)
W_LaxThenStrictRejects == ~(~AllStrict /\ ~Out.ok)
=============================================================================
