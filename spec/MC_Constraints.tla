--------------------------- MODULE MC_Constraints ---------------------------
(***************************************************************************)
(* C02 / C03 on the model: every int rule with up to MaxCons constraints of   *)
(* the menu (gt / ge / lt / le over Bounds, multiple_of over Steps; ge, le    *)
(* and multiple_of also in lax mode; bounds consistent) x every value of      *)
(* Vals, run through the validators as transcribed (Constraints!RunRule).      *)
(*   M_StrictIsDoc   strict rules accept exactly the values that satisfy       *)
(*                   every constraint in its documented sense, unaltered       *)
(*   M_Idem          what a rule returns it returns again                      *)
(*   M_LaxStrict     the output satisfies the strict form of every lax         *)
(*                   constraint                                               *)
(* The last two hold except at the recorded open point (lax multiple_of        *)
(* combined with a bound: findings/known_findings.json, C03).                  *)
(***************************************************************************)
EXTENDS UniConstraints
VARIABLES cons, v
Init == \E S \in ConSets : cons = SetToSeq(S) /\ v \in {IntV(n) : n \in Vals}
Next == UNCHANGED <<cons, v>>
Spec == Init /\ [][Next]_<<cons, v>>
Out == RunRule(v, cons, 1)
AllStrict == \A y \in 1..Len(cons) : ~cons[y].lax
M_StrictIsDoc == AllStrict => Out.ok = (\A y \in 1..Len(cons) : SatDoc(v, cons[y])) /\ (Out.ok => Out.v = v)
Has(name, lax) == \E y \in 1..Len(cons) : cons[y].c = name /\ cons[y].lax = lax
OpenPoint == Has("multiple_of", TRUE) /\ \E y \in 1..Len(cons) : cons[y].c \in {"gt", "ge", "lt", "le"}
M_Idem == Out.ok => RunRule(Out.v, cons, 1).ok /\ PyEq(RunRule(Out.v, cons, 1).v, Out.v)
M_LaxStrict == Out.ok => \A y \in 1..Len(cons) : cons[y].lax => SatDoc(Out.v, cons[y])
M_Idem_ExceptOpen == ~OpenPoint => M_Idem
M_LaxStrict_ExceptOpen == ~OpenPoint => M_LaxStrict
\* vacuity witnesses (each must be refuted)
W_StrictAccepts == ~(AllStrict /\ Out.ok /\ Len(cons) >= 2)
W_StrictRejects == ~(AllStrict /\ ~Out.ok /\ Len(cons) >= 2)
W_LaxChanges == ~(Out.ok /\ Out.v # v)
W_LaxThenStrictRejects == ~(~AllStrict /\ ~Out.ok)
=============================================================================
