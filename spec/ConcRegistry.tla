---------------------------- MODULE ConcRegistry ----------------------------
(***************************************************************************)
(* C20 (shared converter registry) -- utype/utils/base.py TypeRegistry:      *)
(* resolve() racing with register().  Statements:                           *)
(*   resolve:  Snap      cache = self._cache             (CacheMode "snapshot") *)
(*             CacheChk  if self.cache and t in cache: return cache[t]        *)
(*             Scan      for detector, trans, priority in self._registry ...  *)
(*             Fill      cache[t] = trans   (snapshot)  /  self._cache[t] = trans ("shared") *)
(*   register: Replace   self._registry = sorted([...] + self._registry)      *)
(*             Clear     self._cache = {}                                      *)
(* P: once every thread has finished, a conversion made alone resolves to the *)
(* latest registration (the cache holds nothing superseded), and every racing *)
(* resolve returned a converter that was registered when it ran.              *)
(***************************************************************************)
EXTENDS Integers, Sequences, FiniteSets, TLC
CONSTANTS Resolvers, Registrars, CacheMode      \* CacheMode: "snapshot" (code) | "shared" (writes through self._cache)
VARIABLES registry, cacheObj, caches, pc, snap, found, result
\* registry: version of the newest matching registration (0 = initial one); caches: cache objects (function id -> value or -1);
\* cacheObj: which cache object self._cache points to
vars == <<registry, cacheObj, caches, pc, snap, found, result>>
Procs == Resolvers \cup Registrars
Init == /\ registry = 0 /\ cacheObj = 1 /\ caches = <<-1>>
        /\ pc = [p \in Procs |-> IF p \in Resolvers THEN "Snap" ELSE "Replace"]
        /\ snap = [p \in Procs |-> 0] /\ found = [p \in Procs |-> -1] /\ result = [p \in Procs |-> -1]
Goto(p, l) == pc' = [pc EXCEPT ![p] = l]
Snap(p) == /\ pc[p] = "Snap" /\ snap' = [snap EXCEPT ![p] = cacheObj] /\ Goto(p, "CacheChk")
           /\ UNCHANGED <<registry, cacheObj, caches, found, result>>
CacheOf(p) == IF CacheMode = "snapshot" THEN snap[p] ELSE cacheObj
CacheChk(p) == /\ pc[p] = "CacheChk"
               /\ IF caches[CacheOf(p)] # -1
                    THEN result' = [result EXCEPT ![p] = caches[CacheOf(p)]] /\ Goto(p, "Done")
                    ELSE Goto(p, "Scan") /\ UNCHANGED result
               /\ UNCHANGED <<registry, cacheObj, caches, snap, found>>
Scan(p) == /\ pc[p] = "Scan" /\ found' = [found EXCEPT ![p] = registry] /\ Goto(p, "Fill")
           /\ UNCHANGED <<registry, cacheObj, caches, snap, result>>
Fill(p) == /\ pc[p] = "Fill"
           /\ caches' = [caches EXCEPT ![CacheOf(p)] = found[p]]
           /\ result' = [result EXCEPT ![p] = found[p]] /\ Goto(p, "Done")
           /\ UNCHANGED <<registry, cacheObj, snap, found>>
Replace(p) == /\ pc[p] = "Replace" /\ registry' = registry + 1 /\ Goto(p, "Clear")
              /\ UNCHANGED <<cacheObj, caches, snap, found, result>>
Clear(p) == /\ pc[p] = "Clear" /\ caches' = Append(caches, -1) /\ cacheObj' = Len(caches) + 1 /\ Goto(p, "Done")
            /\ UNCHANGED <<registry, snap, found, result>>
Next == \E p \in Procs : Snap(p) \/ CacheChk(p) \/ Scan(p) \/ Fill(p) \/ Replace(p) \/ Clear(p)
Spec == Init /\ [][Next]_vars
Quiescent == \A p \in Procs : pc[p] = "Done"
\* what a conversion made alone after the race returns
PostResolve == IF caches[cacheObj] # -1 THEN caches[cacheObj] ELSE registry
P_PostAsAlone == Quiescent => PostResolve = registry
P_ResolvedExisting == \A p \in Resolvers : pc[p] = "Done" => result[p] \in 0..registry
=============================================================================
