SPECIFICATION FSpec
CONSTANTS
  Variant = "fixed"
  MaxNamed = 2
  Attrs = {"def", "privdef"}
  SpecialVals <- SV1
INVARIANT M_Bind
