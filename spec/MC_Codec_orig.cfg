SPECIFICATION Spec
CONSTANTS
  Variant = "orig"
INVARIANT P_ShapeRoundTrips
