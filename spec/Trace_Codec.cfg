SPECIFICATION TSpec
CONSTANTS
  Variant = "fixed"
CONSTRAINT JudgeP
