SPECIFICATION TSpec
CONSTANTS
  EnumLookup = "value-first"
  Variant = "fixed"
CONSTRAINT JudgeP
