SPECIFICATION TSpec
CONSTANTS
  MaxCons = 0
  Bounds = {}
  Steps = {}
  Vals = {}
CONSTRAINT JudgeP
CONSTRAINT JudgeM
