SPECIFICATION Spec
CONSTANTS
  Variant = "fixed"
INVARIANT P_M
