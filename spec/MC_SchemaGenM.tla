---------------------------- MODULE MC_SchemaGenM ----------------------------
(* the declarations x options of the DataLoops universe (case-sensitive ones): generator as transcribed against parser as transcribed *)
EXTENDS MC_DataLoops, SchemaGenM, IOUtils
VARIABLE nm
Names == {c \in CaseNames : Legal(Decl(c.sh), Opts(c.st)) /\ c.st \cap {"ci", "minp=2", "maxp=1"} = {} /\ \A y \in 1..Len(c.sh) : c.sh[y] \notin {"ci", "cidef"}}
GInit == nm \in Names /\ cs = 0 /\ m = 0 /\ outs = 0
GSpec == GInit /\ [][UNCHANGED <<nm, vars>>]_<<nm, vars>>
DD == Decl(nm.sh)
OO == Opts(nm.st)
P_Properties == M_Properties(DD, OO)
P_Required == M_Required(DD, OO)
P_Additional == M_Additional(DD, OO)
W_NoInputField == ~(\E j \in 1..Len(DD.fields) : NoInput(DD.fields[j], OO))
W_RequiredField == ~(GenRequired(DD, OO) # {})
W_Rejected == ~(FateByRun(DD, OO) = "rejected")
W_Converted == ~(FateByRun(DD, OO) = "converted")
Export == ndJsonSerialize(IOEnv.OUT_CASES, SetToSeq({[sh |-> c.sh, st |-> SetToSeq(c.st), d |-> Decl(c.sh), o |-> Opts(c.st),
              props |-> SetToSeq(GenProps(Decl(c.sh), Opts(c.st))), required |-> SetToSeq(GenRequired(Decl(c.sh), Opts(c.st))), addl |-> GenAddl(Opts(c.st))] : c \in Names}))
=============================================================================
