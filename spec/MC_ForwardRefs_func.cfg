SPECIFICATION MCSpecFunc
CONSTANTS
  FixReturn = TRUE
  FixOrigin = TRUE
  Inherit = TRUE
  Variant = "fixed"
INVARIANT P_Model
