--------------------------- MODULE Trace_LoopSteps ---------------------------
(* Trace validation proper for the lookup loops: the driver logs, through sys.settrace, the loop's locals at every visit of a loop head    *)
(* (after 0, 1, .., n iterations of field_first_parse's field loop, of data_first_parse's input loop and of its second loop).  The trace    *)
(* spec consumes one snapshot per step: l-th snapshot = DataLoops after l applications of the loop's action.                              *)
(*   FLoop   field-first, one field          DLoop   data-first, one input entry          DPost   data-first, one field (absence/default)  *)
(* A mismatch is a divergence of the model from the code (note), located at its step.                                                     *)
EXTENDS MC_DataLoops, IOUtils
Tr == ndJsonDeserialize(IOEnv.TRACE_FILE)
VARIABLES tid, l
TInit == tid \in 1..Len(Tr) /\ l = 1 /\ cs = 0 /\ m = 0 /\ outs = 0
TNext == l < Len(Tr[tid].steps) /\ l' = l + 1 /\ UNCHANGED <<tid, vars>>
TSpec == TInit /\ [][TNext]_<<tid, l, vars>>
R == Tr[tid]
C == CaseOf(R.sh, Range(R.st), R.x)
\* the loop state when the logged loop starts: parse_data's own checks, the case-folding pass (field-first), the input loop done (second loop)
RECURSIVE Until(_, _, _)
Until(c, mm, pc) == IF mm.pc = pc \/ mm.pc = "finish" THEN mm ELSE Until(c, StepF(c, mm), pc)
StartOf(loop) == Until(C, M0(IF loop = "floop" THEN "ffs" ELSE "dfs"), loop)
RECURSIVE Iter(_, _, _)
Iter(c, mm, k) == IF k = 0 THEN mm ELSE Iter(c, StepF(c, mm), k - 1)
\* the position of snapshot l inside its loop: snapshots of one loop are consecutive
First(loop) == CHOOSE x \in 1..Len(R.steps) : R.steps[x].loop = loop /\ \A y \in 1..(x - 1) : R.steps[y].loop # loop
ModelAt == LET s == R.steps[l] IN Iter(C, StartOf(s.loop), l - First(s.loop))
Same(mm, s) == /\ AsMap(mm.res) = AsMap(s.res)
               /\ mm.errs = s.errs
               /\ mm.unprov = Range(s.unprov)
               /\ mm.deps = Range(s.deps)
JudgeStep == Same(ModelAt, R.steps[l]) \/ PrintT(<<"DIV", R.id, R.steps[l].loop, l>>)
=============================================================================
