------------------------------ MODULE ArgsLoops ------------------------------
(***************************************************************************)
(* C11, M-layer -- the element loops of utype/parser/rule.py as coded, one    *)
(* step per element:                                                         *)
(*   SeqStep   _parse_seq_args: convert the item; on failure EXCLUDE skips     *)
(*             it, PRESERVE appends it as it is, otherwise the error is         *)
(*             handled (raised at once: options are not collecting here)       *)
(*   MapStep   _parse_map_args: the key first (EXCLUDE drops the whole entry,   *)
(*             PRESERVE keeps the raw key and goes on to the value, otherwise    *)
(*             an error and the value is not looked at), then the value         *)
(* A case is the record of ArgsPolicy: entries [rawk, rawv, ck, cv, koff, voff, *)
(* kpol, pol, req] each observed alone.  The result is [ok, keys, vals].        *)
(***************************************************************************)
EXTENDS ArgsPolicy
VARIABLES ac,     \* the case
          lp      \* [i, keys, vals, failed, done]
L0 == [i |-> 1, keys |-> <<>>, vals |-> <<>>, failed |-> FALSE, done |-> FALSE]
SeqStepF(c, l) ==
  IF l.i > Len(c.entries) THEN [l EXCEPT !.done = TRUE]
  ELSE LET e == c.entries[l.i]  nx == [l EXCEPT !.i = @ + 1] IN
       IF ~e.voff THEN [nx EXCEPT !.vals = Append(@, e.cv)]
       ELSE IF e.pol = "exclude" THEN nx                                       \* continue
       ELSE IF e.pol = "preserve" THEN [nx EXCEPT !.vals = Append(@, e.rawv)]
       ELSE [nx EXCEPT !.failed = TRUE, !.done = TRUE]                         \* context.handle_error(error): raised
MapStepF(c, l) ==
  IF l.i > Len(c.entries) THEN [l EXCEPT !.done = TRUE]
  ELSE LET e == c.entries[l.i]  nx == [l EXCEPT !.i = @ + 1] IN
       IF e.koff /\ e.kpol = "exclude" THEN nx                                 \* invalid key excluded: the entry is gone
       ELSE IF e.koff /\ e.kpol # "preserve" THEN [nx EXCEPT !.failed = TRUE, !.done = TRUE]
       ELSE LET key == IF e.koff THEN e.rawk ELSE e.ck IN
            IF ~e.voff THEN [nx EXCEPT !.keys = Append(@, key), !.vals = Append(@, e.cv)]
            ELSE IF e.pol = "exclude" THEN nx
            ELSE IF e.pol = "preserve" THEN [nx EXCEPT !.keys = Append(@, key), !.vals = Append(@, e.rawv)]
            ELSE [nx EXCEPT !.failed = TRUE, !.done = TRUE]
StepL(c, l) == IF c.shape = "map" THEN MapStepF(c, l) ELSE SeqStepF(c, l)
SeqStep == ~lp.done /\ ac.shape # "map" /\ lp' = SeqStepF(ac, lp) /\ UNCHANGED ac
MapStep == ~lp.done /\ ac.shape = "map" /\ lp' = MapStepF(ac, lp) /\ UNCHANGED ac
LNext == SeqStep \/ MapStep
RECURSIVE LRunFrom(_, _)
LRunFrom(c, l) == IF l.done THEN [ok |-> ~l.failed, keys |-> l.keys, vals |-> l.vals] ELSE LRunFrom(c, StepL(c, l))
LRun(c) == LRunFrom(c, L0)
\* the loops as coded against the element-wise reference of the property
M_Elementwise == lp.done => P_Elementwise(ac, [ok |-> ~lp.failed, keys |-> lp.keys, vals |-> lp.vals])
=============================================================================
