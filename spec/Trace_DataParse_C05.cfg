SPECIFICATION TSpec
CONSTRAINT JudgeC05
