------------------------- MODULE MC_LayeredRegistry -------------------------
EXTENDS LayeredRegistry
T(c, a, p, at, m, d) == [cls |-> c, allow |-> a, prio |-> p, attr |-> at, meta |-> m, det |-> d]
MenuL == { T({"A"}, TRUE, 0, "none", "none", "none"), T({"B"}, TRUE, 1, "none", "none", "none"), T({"B"}, FALSE, 0, "none", "none", "none"),
           T({}, TRUE, 0, "hx", "none", "none") }
ASSUME PrintT(<<"MENUL", MenuL>>)
=============================================================================
