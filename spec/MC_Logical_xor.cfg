SPECIFICATION Spec
CONSTANTS
  Op = "xor"
INVARIANT P_M
