SPECIFICATION Spec
CONSTANTS
  Local = FALSE
  LockMode = "sharedlocal"
  ClearAll = TRUE
INVARIANT P_AsAlone
PROPERTY Termination
