SPECIFICATION MCSpec
PROPERTY Termination
CONSTANTS
  Variant = "fixed"
  ShapeNames = {"req", "def", "opt", "alias", "aliasreq", "ci", "cidef", "noin", "noinreq", "noout", "moder", "modew", "defer"}
  PairShapes = {"alias", "ci", "dep"}
  MaxSettings = 1
  MaxLen = 1
  MaxLen2 = 1



