SPECIFICATION Spec
CONSTANTS
  ClassName = "S2"
  MaxOps = 3
CONSTRAINT MJudge
