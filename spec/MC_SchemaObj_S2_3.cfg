SPECIFICATION Spec
CONSTANTS
  Variant = "fixed"
  ClassName = "S2"
  MaxOps = 3
CONSTRAINT MJudge
