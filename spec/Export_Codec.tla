----------------------------- MODULE Export_Codec -----------------------------
(* Writes the (kind, value shape) pairs of MC_Codec out: the driver builds concrete values of every shape and sends them through the real   *)
(* encoder and parser (spec -> code).                                                                                                      *)
EXTENDS MC_Codec, Json, IOUtils, SequencesExt
Pairs == UNION {{[kind |-> kk, shape |-> s, form |-> Enc(kk, s), kept |-> Kept(kk, s)] : s \in Shapes(kk)} : kk \in {"datetime", "time", "timedelta", "decimal", "date", "enum"}}
ASSUME ndJsonSerialize(IOEnv.OUT_CASES, SetToSeq(Pairs))
ESpec == k = 0 /\ sh = 0 /\ [][UNCHANGED <<k, sh>>]_<<k, sh>>
=============================================================================
