SPECIFICATION TSpec
CONSTANTS
  Variant = "fixed"
CONSTRAINT JudgeF
CONSTRAINT JudgeM
