SPECIFICATION TSpec
CONSTRAINT JudgeP
CONSTRAINT JudgeM
CONSTANTS
  Variant = "fixed"
