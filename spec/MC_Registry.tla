---------------------------- MODULE MC_Registry ----------------------------
EXTENDS Registry
T(c, a, p, at, m, d) == [cls |-> c, allow |-> a, prio |-> p, attr |-> at, meta |-> m, det |-> d]
MenuQuick == {
  T({"A"}, TRUE, 0, "none", "none", "none"),  T({"A"}, TRUE, 1, "none", "none", "none"),
  T({"B"}, TRUE, 0, "none", "none", "none"),  T({"B"}, FALSE, 1, "none", "none", "none"),
  T({"A", "D"}, TRUE, 0, "none", "none", "none"),
  T({}, TRUE, 0, "hx", "none", "none"),       T({}, TRUE, 2, "none", "Meta", "none"),
  T({"D"}, TRUE, 1, "hx", "none", "none"),    T({}, TRUE, 0, "none", "none", "nameBF"),
  T({}, TRUE, 1, "none", "none", "raise") }
MenuFull == MenuQuick \cup {
  T({"A"}, FALSE, 0, "none", "none", "none"), T({"A"}, TRUE, 2, "none", "none", "none"),
  T({"C"}, TRUE, 0, "none", "none", "none"),  T({"B"}, TRUE, 2, "none", "none", "none"),
  T({"D"}, TRUE, 0, "none", "Meta", "none"),  T({}, TRUE, 1, "hx", "Meta", "none"),
  T({"F"}, FALSE, 0, "hx", "none", "none"),   T({}, TRUE, 2, "none", "none", "nameBF") }
ASSUME PrintT(<<"MENUQ", MenuQuick>>) /\ PrintT(<<"MENUF", MenuFull>>)
=============================================================================
