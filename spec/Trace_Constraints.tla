-------------------------- MODULE Trace_Constraints --------------------------
(* One state per grid point [T, x, ok, out, isinst] recorded from the real constrained type.             *)
(*  VIOL  : P_Exact / P_Unaltered / P_IsInstance false on what the code did (verdict)                    *)
(*  MVIOL : the validators as transcribed (M) disagree with the documented sense (P) on this grid point   *)
(*  DIV   : M predicts a different verdict than the code gave                                             *)
EXTENDS Constraints, Json, IOUtils
Tr == ndJsonDeserialize(IOEnv.TRACE_FILE)
VARIABLE tid
TInit == tid \in 1..Len(Tr)
TSpec == TInit /\ [][UNCHANGED tid]_tid
R == Tr[tid]
Clause == IF ~P_Exact(R) THEN (IF R.ok THEN "accepts-invalid" ELSE "rejects-valid")
          ELSE IF ~P_Unaltered(R) THEN "altered" ELSE IF ~P_IsInstance(R) THEN "isinstance" ELSE "none"
JudgeP == Clause = "none" \/ PrintT(<<"VIOL", R.id, Clause>>)
JudgeMC == P_CodeMeetsDoc(R.x, R.T) \/ PrintT(<<"MVIOL", R.id>>)
JudgeM == (RunStrict(R.x, R.T.cons, 1).ok /\ ContainsDoc(R)) = R.ok \/ PrintT(<<"DIV", R.id>>)
=============================================================================
