SPECIFICATION Spec
CONSTANTS
  Local = TRUE
  LockMode = "perparser"
  ClearAll = FALSE
INVARIANT P_AsAlone
PROPERTY Termination
