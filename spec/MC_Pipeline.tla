----------------------------- MODULE MC_Pipeline -----------------------------
(***************************************************************************)
(* C01 on the model, for int rules: Rule.parse is "convert to the origin     *)
(* type, then run the validators".  The composition of the two transcribed    *)
(* mechanisms -- Convert!ToInt (default options) and Constraints!RunRule --    *)
(* is checked against the type-directed conformance predicate Values!Conforms *)
(* for every abstract source of UniConvert x every int rule of UniConstraints: *)
(* whatever the pipeline returns is an int that satisfies every strict         *)
(* constraint of the declaration.                                             *)
(***************************************************************************)
EXTENDS UniConvert, UniConstraints
VARIABLES src, cons
Init == src \in Sources /\ \E S \in ConSets : cons = SetToSeq(S)
Next == UNCHANGED <<src, cons>>
Spec == Init /\ [][Next]_<<src, cons>>
T == [k |-> "rule", name |-> "int", cons |-> cons, args |-> <<>>, fields |-> <<>>, ell |-> FALSE, contains |-> <<>>, minc |-> -1, maxc |-> -1]
Pipe == LET c == ToInt(src.x, src.fx, FALSE, FALSE)
        IN IF ~c.ok THEN FailV(src.x) ELSE RunRule(IntV(c.n), cons, 1)
M_Conforms == Pipe.ok => Conforms(Pipe.v, T)
\* the recorded open point (C03 finding, seen here as a conformance failure): a lax multiple_of rounds down after a strict bound has run
OpenPoint == (\E y \in 1..Len(cons) : cons[y].c = "multiple_of" /\ cons[y].lax) /\ (\E y \in 1..Len(cons) : cons[y].c \in {"gt", "ge", "lt", "le"} /\ ~cons[y].lax)
M_Conforms_ExceptOpen == ~OpenPoint => M_Conforms
W_Accepts == ~(Pipe.ok /\ src.x.k # "int")
W_RejectsByConstraint == ~(~Pipe.ok /\ ToInt(src.x, src.fx, FALSE, FALSE).ok)
W_RejectsByConversion == ~(~ToInt(src.x, src.fx, FALSE, FALSE).ok)
=============================================================================
