----------------------------- MODULE SchemaTrans -----------------------------
(***************************************************************************)
(* C15, M-layer for object schemas: what JsonSchemaParser.parse_object makes  *)
(* of {type: object, properties, required, additionalProperties,              *)
(* dependentRequired} (integer properties) -- a data class whose fields are    *)
(* required exactly when listed, with the addition policy of                   *)
(* additionalProperties -- composed with the parser as transcribed             *)
(* (DataLoops!Run).  The result is judged by the JSON Schema validator         *)
(* written in TLA+ (JsonSchema!Val, instantiated as JS).                       *)
(* A schema of the fragment is a record                                        *)
(*   [props (seq of names), required (seq), addl ("absent"|"true"|"false"|     *)
(*    "schema"), dep (seq of <<name, name>>: name requires name)]              *)
(***************************************************************************)
EXTENDS DataLoops
JS == INSTANCE JsonSchema

TField(s, name) == [att |-> name, out |-> name, keys |-> <<[s |-> name, low |-> name]>>, ci |-> FALSE,
                    req |-> \E y \in 1..Len(s.required) : s.required[y] = name, hasdef |-> FALSE, def |-> Unprov, defer |-> FALSE,
                    noin |-> FALSE, noout |-> FALSE, fmode |-> <<>>,
                    deps |-> SelectSeq([y \in 1..Len(s.dep) |-> s.dep[y][2]], LAMBDA g : \E y \in 1..Len(s.dep) : s.dep[y] = <<name, g>>)]
TDecl(s) == [fields |-> [y \in 1..Len(s.props) |-> TField(s, s.props[y])]]
TOpts(s) == [mode |-> "", addition |-> CASE s.addl = "true" -> "any" [] s.addl = "false" -> "forbid" [] s.addl = "schema" -> "int" [] OTHER -> "none",
             ignore_required |-> FALSE, no_default |-> FALSE, hasforce |-> FALSE, force |-> Unprov, defer_default |-> FALSE,
             ignore_conflicts |-> FALSE, ci |-> FALSE, minp |-> 0, maxp |-> 0, exclude |-> FALSE]
\* the built class parses an instance (a JSON object given as a sequence of [k (name), v (value)])
TRun(s, inst) == Run([d |-> TDecl(s), o |-> TOpts(s), x |-> [y \in 1..Len(inst) |-> [k |-> [s |-> inst[y].k, low |-> inst[y].k], v |-> inst[y].v]]], "ffs")

\* ---- JSON records for JsonSchema!Val ------------------------------------------------------------------------------------------
J0 == [j |-> "null", b |-> FALSE, n |-> 0, d |-> 1, s |-> "", ln |-> 0, a |-> <<>>, ks |-> <<>>, vs |-> <<>>, big |-> FALSE]
JNum(n) == [J0 EXCEPT !.j = "num", !.n = n]
JStr(s, ln) == [J0 EXCEPT !.j = "str", !.s = s, !.ln = ln]
JBool(b) == [J0 EXCEPT !.j = "bool", !.b = b]
JArr(a) == [J0 EXCEPT !.j = "arr", !.a = a]
JObj(ks, vs) == [J0 EXCEPT !.j = "obj", !.ks = ks, !.vs = vs]
JVal(v) == IF v.k = "int" THEN JNum(v.n) ELSE JStr(v.s, Len(v.s))
IntSchema == JObj(<<"type">>, <<JStr("integer", 7)>>)
JSchema(s) ==
  LET base == <<"type", "properties">>
      bv == <<JStr("object", 6), JObj(s.props, [y \in 1..Len(s.props) |-> IntSchema])>>
      rq == IF s.required = <<>> THEN [k |-> <<>>, v |-> <<>>] ELSE [k |-> <<"required">>, v |-> <<JArr([y \in 1..Len(s.required) |-> JStr(s.required[y], Len(s.required[y]))])>>]
      ap == CASE s.addl = "true" -> [k |-> <<"additionalProperties">>, v |-> <<JBool(TRUE)>>]
              [] s.addl = "false" -> [k |-> <<"additionalProperties">>, v |-> <<JBool(FALSE)>>]
              [] s.addl = "schema" -> [k |-> <<"additionalProperties">>, v |-> <<IntSchema>>]
              [] OTHER -> [k |-> <<>>, v |-> <<>>]
      dp == IF s.dep = <<>> THEN [k |-> <<>>, v |-> <<>>]
            ELSE [k |-> <<"dependentRequired">>,
                  v |-> <<JObj([y \in 1..Len(s.dep) |-> s.dep[y][1]], [y \in 1..Len(s.dep) |-> JArr(<<JStr(s.dep[y][2], Len(s.dep[y][2]))>>)])>>]
  IN JObj(base \o rq.k \o ap.k \o dp.k, bv \o rq.v \o ap.v \o dp.v)
JResult(out) == LET q == SetToSeq(out.data) IN JObj([y \in 1..Len(q) |-> q[y][1]], [y \in 1..Len(q) |-> JVal(q[y][2])])
\* soundness on the model: what the built class returns validates against the source schema
M_Sound(s, inst) == LET out == TRun(s, inst) IN out.ok => JS!Val(JResult(out), JSchema(s), <<>>)
=============================================================================
