------------------------------ MODULE MC_Collect ------------------------------
EXTENDS Collect
VARIABLES fails, maxe
Names == <<"a", "b", "c", "d">>
Init == fails \in [1..4 -> BOOLEAN] /\ maxe \in 0..4
Next == UNCHANGED <<fails, maxe>>
Spec == Init /\ [][Next]_<<fails, maxe>>
Items == [i \in 1..4 |-> [name |-> Names[i], fails |-> fails[i]]]
P_M == P_ModelVerdict(Items, maxe) /\ P_ModelReport(Items, maxe)
=============================================================================
