SPECIFICATION Spec
CONSTANTS
  Threads = {1, 2}
  Names = {"b", "n"}
  Cons = {"n"}
  Local = FALSE
  Variant = "tolerant"
INVARIANT P_AsAlone
INVARIANT P_LockFree
