------------------------------ MODULE Trace_Heap ------------------------------
(* Trace validation for C19: every event of every recorded history (a parse or a user mutation of a returned   *)
(* container) carries the logged facts; TLC evaluates the P-layer of Heap on each event and its predecessor.    *)
EXTENDS Heap, Json, IOUtils
Tr == ndJsonDeserialize(IOEnv.TRACE_FILE)
VARIABLES tid, l
TInit == tid \in 1..Len(Tr) /\ l = 1
TNext == l < Len(Tr[tid].events) /\ l' = l + 1 /\ UNCHANGED tid
TSpec == TInit /\ [][TNext]_<<tid, l>>
E(x) == Tr[tid].events[x]
Empty == [results |-> <<>>, defaults |-> E(1).defaults]
Prev == IF l = 1 THEN Empty ELSE E(l - 1)
Clause == IF ~P_InputUnchanged(E(l)) THEN "InputUnchanged"
          ELSE IF ~P_NoSharedDefault(E(l)) THEN "NoSharedDefault"
          ELSE IF ~P_Isolated(Prev, E(l)) THEN "Isolated"
          ELSE IF ~P_CallKeeps(Prev, E(l)) THEN "CallKeeps"
          ELSE IF ~P_HistoryFree(E(l)) THEN "HistoryFree" ELSE "none"
JudgeP == Clause = "none" \/ PrintT(<<"VIOL", Tr[tid].id, Clause, l>>)
=============================================================================
