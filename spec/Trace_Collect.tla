----------------------------- MODULE Trace_Collect -----------------------------
EXTENDS Collect, Json, IOUtils
Tr == ndJsonDeserialize(IOEnv.TRACE_FILE)
VARIABLE tid
TInit == tid \in 1..Len(Tr)
TSpec == TInit /\ [][UNCHANGED tid]_tid
R == Tr[tid]
Clause == IF ~P_Verdict(R.c, R.ff, R.col) THEN "Verdict" ELSE IF ~P_Value(R.c, R.ff, R.col) THEN "Value"
          ELSE IF ~P_OneException(R.c, R.col) THEN "OneException"
          ELSE IF ~P_NoValidReported(R.c, R.col) THEN "ValidReported" ELSE IF ~P_AllReported(R.c, R.col) THEN "NotAllReported"
          ELSE IF ~P_Cap(R.c, R.col) THEN "Cap" ELSE IF ~P_Once(R.c, R.col) THEN "ReportedTwice" ELSE "none"
JudgeP == Clause = "none" \/ PrintT(<<"VIOL", R.id, Clause>>)
\* M: the loop as coded, items in the order the strategy visits them (logged), reports the same names in the same order
JudgeM == R.col.ok \/ Run(R.c.items, TRUE, R.c.maxe).reported = R.col.reported \/ PrintT(<<"DIV", R.id>>)
=============================================================================
