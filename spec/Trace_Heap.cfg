SPECIFICATION TSpec
CONSTANTS
  CopiedKinds = {"list", "set", "tuple", "dict"}
CONSTRAINT JudgeP
