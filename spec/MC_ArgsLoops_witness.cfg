SPECIFICATION Spec
CONSTANTS
  Variant = "fixed"
INVARIANT W_Excluded
INVARIANT W_Preserved
INVARIANT W_Raised
