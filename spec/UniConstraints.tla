--------------------------- MODULE UniConstraints ---------------------------
(* The int rules of the constraint models (no variables: shared by MC_Constraints and MC_Pipeline). *)
EXTENDS Constraints, SequencesExt
CONSTANTS MaxCons, Bounds, Steps, Vals

ValsQ == -4..7
IntV(n) == [k |-> "int", t |-> <<"int", "object">>, n |-> n, d |-> 1, s |-> "", ln |-> IF n < 0 THEN 2 ELSE 1, items |-> <<>>, ks |-> <<>>,
            dg |-> <<IF n < 0 THEN -n ELSE n>>, ex |-> 0]
Con(c, n, lax) == [c |-> c, n |-> n, d |-> 1, s |-> "", lax |-> lax, vals |-> <<>>]
Menu == {Con(c, b, FALSE) : c \in {"gt", "ge", "lt", "le"}, b \in Bounds} \cup {Con(c, b, TRUE) : c \in {"ge", "le"}, b \in Bounds}
        \cup {Con("multiple_of", st, l) : st \in Steps, l \in BOOLEAN}
Lower(S) == {c \in S : c.c \in {"gt", "ge"}}
Upper(S) == {c \in S : c.c \in {"lt", "le"}}
\* one constraint per name; a lower bound never above an upper bound (the library refuses contradictory declarations)
Sane(S) == /\ \A a, b \in S : a # b => a.c # b.c
           /\ Cardinality(Lower(S)) <= 1 /\ Cardinality(Upper(S)) <= 1
           /\ \A a \in Lower(S), b \in Upper(S) : a.n < b.n
ConSets == {S \in SUBSET Menu : Cardinality(S) >= 1 /\ Cardinality(S) <= MaxCons /\ Sane(S)}
=============================================================================
