SPECIFICATION Spec
CONSTANTS
  ClassName = "S1"
  MaxOps = 2
CONSTRAINT MJudge
