SPECIFICATION Spec
CONSTANTS
  Variant = "fixed"
  ClassName = "S1"
  MaxOps = 2
CONSTRAINT MJudge
