------------------------------ MODULE Trace_Depth ------------------------------
EXTENDS Depth, Json, IOUtils
Tr == ndJsonDeserialize(IOEnv.TRACE_FILE)
VARIABLE tid
TInit == tid \in 1..Len(Tr)
TSpec == TInit /\ [][UNCHANGED tid]_tid
R == Tr[tid]
Clause == IF R.judge_exact /\ R.kind # "cost" /\ ~P_Exact(R.tree, R.d, R.ok) THEN "Exact"
          ELSE IF R.kind = "cost" /\ (~P_Cost(R.size, R.depth, R.work) \/ R.exc = "BUDGET") THEN "Cost"
          ELSE IF R.kind = "cost" /\ R.leaf = "ok" /\ ~R.ok THEN "Exact"
          ELSE "none"
JudgeP == Clause = "none" \/ PrintT(<<"VIOL", R.id, Clause>>)
JudgeM == R.kind = "cost" \/ MOk(R.tree, R.d) = R.ok \/ PrintT(<<"DIV", R.id>>)
=============================================================================
