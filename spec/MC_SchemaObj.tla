---------------------------- MODULE MC_SchemaObj ----------------------------
(* Exhaustive exploration of SchemaObj's operations on a fixed class family. *)
(* The family, the initial inputs and the operation alphabet are printed so  *)
(* that the harness builds the same classes for real and replays the same    *)
(* operations (single source of truth = this module).                        *)
EXTENDS SchemaObj

CONSTANTS ClassName, MaxOps

F(att, out, keys, ty, lo, hi, maxlen, req, hasdef, def, imm, noout, prop, dep, mul) ==
  [att |-> att, out |-> out, keys |-> keys, ty |-> ty, lo |-> lo, hi |-> hi, maxlen |-> maxlen, req |-> req,
   hasdef |-> hasdef, def |-> def, imm |-> imm, noout |-> noout, prop |-> prop, dep |-> dep, mul |-> mul]
NB == NoBound
\* required / optional+default / optional unstable / immutable / aliased / no_output / property fields
S1 == [name |-> "S1", base |-> "Schema", addition |-> "int", fields |-> <<
  F("r",  "r",  <<"r">>,              "int", 0, NB, NB, TRUE,  FALSE, VFail,   FALSE, FALSE, FALSE, "", 0),
  F("o",  "o",  <<"o">>,              "int", 1, NB, NB, FALSE, TRUE,  VInt(5), FALSE, FALSE, FALSE, "", 0),
  F("u",  "u",  <<"u">>,              "str", NB, NB, 3, FALSE, FALSE, VFail,   FALSE, FALSE, FALSE, "", 0),
  F("im", "im", <<"im">>,             "int", NB, NB, NB, FALSE, TRUE, VInt(1), TRUE,  FALSE, FALSE, "", 0),
  F("al", "AL", <<"al", "AL", "al2">>, "int", NB, 9, NB, FALSE, FALSE, VFail,  FALSE, FALSE, FALSE, "", 0),
  F("no", "no", <<"no">>,             "int", NB, NB, NB, FALSE, FALSE, VFail,  FALSE, TRUE,  FALSE, "", 0),
  F("dbl", "dbl", <<"dbl">>,          "int", NB, NB, NB, FALSE, FALSE, VFail,  FALSE, FALSE, TRUE,  "r", 2),
  F("tri", "tri", <<"tri">>,          "int", NB, NB, NB, FALSE, FALSE, VFail,  FALSE, FALSE, TRUE,  "no", 3) >>]
\* nothing required or immutable: clear / popitem / pop succeed; additions kept as they are
S2 == [name |-> "S2", base |-> "Schema", addition |-> "any", fields |-> <<
  F("o",  "o",  <<"o">>,              "int", 1, NB, NB, FALSE, TRUE,  VInt(5), FALSE, FALSE, FALSE, "", 0),
  F("u",  "u",  <<"u">>,              "str", NB, NB, 3, FALSE, FALSE, VFail,   FALSE, FALSE, FALSE, "", 0),
  F("al", "AL", <<"al", "AL", "al2">>, "int", NB, 9, NB, FALSE, FALSE, VFail,  FALSE, FALSE, FALSE, "", 0),
  F("no", "no", <<"no">>,             "int", NB, NB, NB, FALSE, FALSE, VFail,  FALSE, TRUE,  FALSE, "", 0),
  F("dbl", "dbl", <<"dbl">>,          "int", NB, 20, NB, FALSE, FALSE, VFail,  FALSE, FALSE, TRUE,  "o", 2) >>]
\* attribute-based data class
D1 == [name |-> "D1", base |-> "DataClass", addition |-> "none", fields |-> <<
  F("r",  "r",  <<"r">>,              "int", 0, NB, NB, TRUE,  FALSE, VFail,   FALSE, FALSE, FALSE, "", 0),
  F("o",  "o",  <<"o">>,              "int", 1, NB, NB, FALSE, TRUE,  VInt(5), FALSE, FALSE, FALSE, "", 0),
  F("u",  "u",  <<"u">>,              "str", NB, NB, 3, FALSE, FALSE, VFail,   FALSE, FALSE, FALSE, "", 0),
  F("im", "im", <<"im">>,             "int", NB, NB, NB, FALSE, TRUE, VInt(1), TRUE,  FALSE, FALSE, "", 0),
  F("al", "AL", <<"al", "AL", "al2">>, "int", NB, 9, NB, FALSE, FALSE, VFail,  FALSE, FALSE, FALSE, "", 0) >>]
Decl == CASE ClassName = "S1" -> S1 [] ClassName = "S2" -> S2 [] ClassName = "D1" -> D1

KV(k, v) == [k |-> k, v |-> v]
Inputs ==
  CASE ClassName = "S1" -> { <<KV("r", VInt(3))>>,
                             <<KV("r", VInt(3)), KV("u", VStr("ab", 0, FALSE)), KV("al2", VInt(4)), KV("no", VInt(7)), KV("zz", VInt(9))>> }
    [] ClassName = "S2" -> { <<>>, <<KV("o", VInt(2)), KV("u", VStr("ab", 0, FALSE)), KV("AL", VInt(4)), KV("no", VInt(7)), KV("zz", VStr("q", 0, FALSE))>> }
    [] ClassName = "D1" -> { <<KV("r", VInt(3))>>, <<KV("r", VInt(3)), KV("u", VStr("ab", 0, FALSE)), KV("al2", VInt(4))>> }

\* argument values: for every field some are valid, some convertible, some invalid
Vals == { VInt(-1), VInt(2), VInt(12), VStr("4", 4, TRUE), VStr("abcd", 0, FALSE), VBytes("xy", 0, FALSE), VNone }
ItemKeys == UNION {Range(Decl.fields[x].keys) : x \in 1..Len(Decl.fields)} \cup {"zz"}
Atts == {Decl.fields[x].att : x \in 1..Len(Decl.fields)}
O(op, key, v, kvs, hasd) == [op |-> op, key |-> key, v |-> v, kvs |-> kvs, hasd |-> hasd]
OpsDC == {O("setattr", a, v, <<>>, FALSE) : a \in Atts, v \in Vals} \cup {O("delattr", a, VNone, <<>>, FALSE) : a \in Atts}
OpsSchema ==
  OpsDC
  \cup {O("setitem", k, v, <<>>, FALSE) : k \in ItemKeys, v \in Vals}
  \cup {O("delitem", k, VNone, <<>>, FALSE) : k \in ItemKeys}
  \cup {O("pop", k, VNone, <<>>, h) : k \in ItemKeys, h \in BOOLEAN}
  \cup {O("popitem", "", VNone, <<>>, FALSE), O("clear", "", VNone, <<>>, FALSE)}
  \cup {O("setdefault", k, v, <<>>, FALSE) : k \in ItemKeys, v \in {VNone, VInt(2), VStr("abcd", 0, FALSE), VStr("4", 4, TRUE)}}
  \cup {O(u, "", VNone, <<KV(k, v)>>, FALSE) : u \in {"update", "ior"}, k \in {"o", "u", "AL", "zz"}, v \in {VInt(2), VStr("abcd", 0, FALSE)}}
  \cup {O("update", "", VNone, <<KV("o", VInt(2)), KV(k, v)>>, FALSE) : k \in {"u", "al2", "no"}, v \in {VInt(12), VStr("4", 4, TRUE)}}
  \cup {O("updatekw", "", VNone, <<KV("u", VInt(2)), KV("o", v)>>, FALSE) : v \in {VInt(-1), VInt(12)}}
Ops == IF Decl.base = "DataClass" THEN OpsDC ELSE OpsSchema
ASSUME PrintT(<<"DECL", Decl>>) /\ PrintT(<<"INPUTS", Inputs>>) /\ PrintT(<<"OPS", Ops>>)

(* state: up to two instances (2 = a copy of 1), the projection of the initial state, and the last operation *)
VARIABLES inst, init, last, nops
vars == <<inst, init, last, nops>>
NoSt == [data |-> <<>>, ad |-> <<>>]
NoOp == [o |-> O("new", "", VNone, <<>>, FALSE), tgt |-> 1, raised |-> FALSE, before |-> <<NoSt, NoSt>>]
Init == /\ \E i \in Inputs : inst = <<New(Decl, i), NoSt>>
        /\ init = <<ViewOf(Decl, inst[1]), ViewOf(Decl, NoSt)>>
        /\ last = NoOp /\ nops = 0
Live(x) == x = 1 \/ init[2] # ViewOf(Decl, NoSt) \/ inst[2] # NoSt
DoOp(x, o) == LET r == Apply(Decl, inst[x], o) IN
              /\ inst' = [inst EXCEPT ![x] = r.st]
              /\ last' = [o |-> o, tgt |-> x, raised |-> r.raised, before |-> inst]
              /\ UNCHANGED init
DoCopy == /\ Decl.base = "Schema" /\ inst[2] = NoSt
          /\ inst' = [inst EXCEPT ![2] = inst[1]]            \* Schema.copy(): both dicts copied
          /\ init' = [init EXCEPT ![2] = init[1]]
          /\ last' = [o |-> O("copy", "", VNone, <<>>, FALSE), tgt |-> 1, raised |-> FALSE, before |-> inst]
Next == /\ nops < MaxOps /\ nops' = nops + 1
        /\ \/ \E o \in Ops : DoOp(1, o)
           \/ \E o \in Ops : inst[2] # NoSt /\ DoOp(2, o)
           \/ DoCopy
Spec == Init /\ [][Next]_vars

P_Valid1 == Valid(Decl, ViewOf(Decl, inst[1]), init[1])
P_Valid2 == inst[2] # NoSt => Valid(Decl, ViewOf(Decl, inst[2]), init[2])
P_Step == StepOk(last.o, last.raised, ViewOf(Decl, last.before[last.tgt]), ViewOf(Decl, inst[last.tgt]))
P_Copy == last.o.op \notin {"new", "copy"} =>
            LET other == 3 - last.tgt IN ViewOf(Decl, inst[other]) = ViewOf(Decl, last.before[other])
MClause == IF ~P_Valid1 THEN FailingClause(Decl, ViewOf(Decl, inst[1]), init[1])
           ELSE IF ~P_Valid2 THEN FailingClause(Decl, ViewOf(Decl, inst[2]), init[2])
           ELSE IF ~P_Step THEN "StepOk" ELSE IF ~P_Copy THEN "CopyOk" ELSE "none"
\* model-level counterexamples are directed scenarios, not verdicts: print each and do not explore beyond it
MJudge == MClause = "none" \/ (PrintT(<<"MVIOL", MClause, last.o.op, last.o.key>>) /\ FALSE)
=============================================================================
