------------------------- MODULE Trace_ForwardRefs -------------------------
(* Trace validation for C17: M (ForwardRefs) is stepped through each recorded program (Define..., Use...); after *)
(* every Use the results recorded from the real code for that use are judged: P_Use by TLC (VIOL), and M's        *)
(* prediction for the valid input against what the code did (DIV).                                               *)
EXTENDS ForwardRefs, Json, IOUtils
Tr == ndJsonDeserialize(IOEnv.TRACE_FILE)
VARIABLE tid
TInit == tid \in 1..Len(Tr) /\ prog = Tr[tid].prog /\ Init
TNext == Next /\ UNCHANGED tid
TSpec == TInit /\ [][TNext]_<<vars, tid>>
UseIdx == pc - 1 - Len(prog.ents)
Results == IF UseIdx >= 1 THEN Tr[tid].uses[UseIdx].results ELSE <<>>
Clause(u) == IF u.ok /\ ~ExpectedOk(u.kind) THEN "accepts-invalid"
             ELSE IF ~u.ok /\ ExpectedOk(u.kind) THEN "rejects-valid"
             ELSE IF u.ok /\ u.value # u.echo THEN "wrong-value" ELSE "none"
JudgeP == \A y \in 1..Len(Results) : P_Use(Results[y]) \/ PrintT(<<"VIOL", Tr[tid].id, Clause(Results[y]), UseIdx, y>>)
JudgeM == \A y \in 1..Len(Results) :
            \/ (Results[y].kind = "valid" => Results[y].ok = outcome.ok)
               /\ (Results[y].kind = "badcons" => Results[y].ok = ~outcome.cons)
            \/ PrintT(<<"DIV", Tr[tid].id, Results[y].kind, UseIdx>>)
=============================================================================
