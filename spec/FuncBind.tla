------------------------------ MODULE FuncBind ------------------------------
(***************************************************************************)
(* C08 -- decorated functions get Python's binding with conforming          *)
(* arguments and result.                                                    *)
(*   utype/parser/func.py  signature analysis, parse_params, parse_pos_type, *)
(*                         get_params, parse_result, generator wrappers      *)
(* sig:  sequence of parameters [name, kind, ann, hasdef, def, keys, priv]    *)
(*       kind: "po" positional-only, "pk" positional-or-keyword, "va" *args, *)
(*       "ko" keyword-only, "vk" **kwargs ; keys: accepted keyword names      *)
(* call: [pos: seq of values, kw: seq of [k, v]]   (k already the parameter's *)
(*       own name when an alias was used: Python knows no aliases)           *)
(* binding: seq of [k, v]: one entry per named parameter, "*i" per extra       *)
(*       positional, "**key" per extra keyword                               *)
(* PyBind is the reference written from the language rules; the harness also  *)
(* logs what Python itself bound for the undecorated twin (r.py).             *)
(***************************************************************************)
EXTENDS Integers, Sequences, FiniteSets, TLC
Range(s) == {s[x] : x \in 1..Len(s)}
VInt(n) == [k |-> "int", n |-> n, s |-> ""]
Conv(v) == IF v.k = "int" THEN v ELSE IF v.k = "lit" THEN VInt(v.n) ELSE [k |-> "FAIL", n |-> 0, s |-> ""]
Fails(v) == Conv(v).k = "FAIL"
Has(a, key) == \E x \in 1..Len(a) : a[x].k = key
Get(a, key) == a[CHOOSE x \in 1..Len(a) : a[x].k = key].v
AsMap(a) == {<<a[x].k, a[x].v>> : x \in 1..Len(a)}
KV(a) == [x \in 1..Len(a) |-> [k |-> a[x].k, v |-> a[x].v]]

Idx(sig, kinds) == SelectSeq([i \in 1..Len(sig) |-> i], LAMBDA i : sig[i].kind \in kinds)
HasKind(sig, kd) == \E i \in 1..Len(sig) : sig[i].kind = kd
ParamOf(sig, kinds, name) == {i \in 1..Len(sig) : sig[i].kind \in kinds /\ sig[i].name = name}
\* ---- the language's binding rules ------------------------------------------------------------------------------------
PyBind(sig, call) ==
  LET posi == Idx(sig, {"po", "pk"})
      np == Len(call.pos)
      nfix == IF np < Len(posi) THEN np ELSE Len(posi)
      byPos == {posi[j] : j \in 1..nfix}                                   \* parameters filled positionally
      tooMany == np > Len(posi) /\ ~HasKind(sig, "va")
      kwTarget(e) == ParamOf(sig, {"pk", "ko"}, e.k)                       \* a keyword can only name pk / ko parameters
      dup == \E y \in 1..Len(call.kw) : kwTarget(call.kw[y]) \cap byPos # {}
      unknown == {y \in 1..Len(call.kw) : kwTarget(call.kw[y]) = {}}
      unexpected == unknown # {} /\ ~HasKind(sig, "vk")
      given(i) == i \in byPos \/ \E y \in 1..Len(call.kw) : i \in kwTarget(call.kw[y])
      missing == \E i \in 1..Len(sig) : sig[i].kind \in {"po", "pk", "ko"} /\ ~given(i) /\ ~sig[i].hasdef
      valueOf(i) == IF i \in byPos THEN call.pos[CHOOSE j \in 1..nfix : posi[j] = i]
                    ELSE IF \E y \in 1..Len(call.kw) : i \in kwTarget(call.kw[y])
                      THEN call.kw[CHOOSE y \in 1..Len(call.kw) : i \in kwTarget(call.kw[y])].v
                    ELSE sig[i].def
      named == [j \in 1..Len(Idx(sig, {"po", "pk", "ko"})) |->
                  LET i == Idx(sig, {"po", "pk", "ko"})[j] IN [k |-> sig[i].name, v |-> valueOf(i), cat |-> "named"]]
      extraPos == [j \in 1..(np - nfix) |-> [k |-> "*" \o ToString(j - 1), v |-> call.pos[nfix + j], cat |-> "va"]]
      unk == SelectSeq([y \in 1..Len(call.kw) |-> y], LAMBDA y : y \in unknown)
      extraKw == [j \in 1..Len(unk) |-> [k |-> "**" \o call.kw[unk[j]].k, v |-> call.kw[unk[j]].v, cat |-> "vk"]]
  IN IF tooMany \/ dup \/ unexpected \/ missing THEN [bindable |-> FALSE, binding |-> <<>>]
     ELSE [bindable |-> TRUE, binding |-> named \o extraPos \o extraKw]

\* is the value of a binding entry converted (annotated parameter, *args / **kwargs element of an annotated variadic)?
Annotated(sig, e) ==
  CASE e.cat = "named" -> \E i \in 1..Len(sig) : sig[i].name = e.k /\ sig[i].kind \in {"po", "pk", "ko"} /\ sig[i].ann /\ ~sig[i].priv
    [] e.cat = "va" -> \E i \in 1..Len(sig) : sig[i].kind = "va" /\ sig[i].ann
    [] OTHER -> \E i \in 1..Len(sig) : sig[i].kind = "vk" /\ sig[i].ann
\* defaults are trusted: an entry that comes from a default is not converted (py.isdefault[x])
Expected(sig, py) == [x \in 1..Len(py.binding) |->
                        LET e == py.binding[x] IN
                        [k |-> e.k, v |-> IF Annotated(sig, e) /\ ~py.isdefault[x] THEN Conv(e.v) ELSE e.v]]
AnyInvalid(sig, py) == \E x \in 1..Len(py.binding) : Annotated(sig, py.binding[x]) /\ ~py.isdefault[x] /\ Fails(py.binding[x].v)

(* ---- P on a recorded call: r = [py (Python's own binding of the twin), ok, body (entered), got (binding the body saw), retok] ---- *)
P_Bind(sig, r) ==
  r.py.bindable =>
    IF AnyInvalid(sig, r.py) THEN ~r.ok /\ ~r.body /\ r.parseerror            \* a failing parameter: ParseError, body not entered
    ELSE r.ok /\ r.body /\ AsMap(r.got) = AsMap(Expected(sig, r.py))
WhyNot(sig, r) == IF AnyInvalid(sig, r.py) THEN (IF r.body THEN "body-entered-on-invalid" ELSE IF r.ok THEN "accepts-invalid" ELSE "not-a-ParseError")
                  ELSE IF ~r.ok THEN "rejects-bindable-call" ELSE "wrong-binding"
P_Ref(sig, call, r) == PyBind(sig, call).bindable = r.py.bindable /\
                       (r.py.bindable => AsMap(KV(PyBind(sig, call).binding)) = AsMap(KV(r.py.binding)))

(* ---- generators: the event sequence through the wrapper equals the undecorated one, value-wise converted ---- *)
\* events: seq of [ev ("yield" | "return" | "raise"), v]; conv flags say whether yield / return types are declared
P_Gen(r) == Len(r.dec) = Len(r.raw) /\ \A x \in 1..Len(r.raw) :
              /\ r.dec[x].ev = r.raw[x].ev
              /\ r.dec[x].v = (IF r.raw[x].ev \in {"yield", "return", "recv"} /\ r.raw[x].v.k \in {"int", "lit"} THEN Conv(r.raw[x].v) ELSE r.raw[x].v)
=============================================================================
