----------------------------- MODULE OptionsFlow -----------------------------
(***************************************************************************)
(* Beyond the listed properties: which options govern a nested parse.        *)
(*   utype/parser/options.py  Options.__and__, Options.make_context,          *)
(*                            RuntimeContext.enter                            *)
(*   utype/parser/cls.py      init_dataclass (runtime options or the class's   *)
(*                            own), transform_dataclass (nested classes are    *)
(*                            entered with the caller's context, not options)  *)
(* An options record is [flags (set of names that are set), override].        *)
(* A parse is a chain of nested data classes c[1] .. c[n], each with its class *)
(* options; the caller passes runtime options to the outermost class.          *)
(* Governing(i) is the options record of the context in which the fields of    *)
(* class i are converted.  This is the root of the recorded C12 / C18          *)
(* findings (a nested class parses under its own options) and of the           *)
(* undocumented remedy Options(override=True).                                *)
(***************************************************************************)
EXTENDS Naturals, Sequences, FiniteSets, TLC
Vacuum(o) == o.flags = {} /\ ~o.override
\* Options.__and__
And(a, b) == IF Vacuum(b) THEN a ELSE IF Vacuum(a) THEN b ELSE IF b.override THEN b ELSE IF a.override THEN a
             ELSE [flags |-> a.flags \cup b.flags, override |-> FALSE]
\* Options.make_context(cls, context): the options themselves, unless the enclosing context carries override and they do not
MakeContext(opts, hasCtx, ctxOpts) == IF hasCtx /\ ~opts.override /\ ctxOpts.override THEN ctxOpts ELSE opts
\* the context of class i of the chain: cls[i] is its class options, runtime the caller's options for the outermost class
RECURSIVE Governing(_, _, _)
Governing(cls, runtime, i) ==
  IF i = 1 THEN MakeContext(runtime, FALSE, runtime)                                  \* init_dataclass(cls, data, options=runtime)
  ELSE MakeContext(cls[i], TRUE, Governing(cls, runtime, i - 1))                       \* parser.make_context(context=transformer.context)
\* (field-level contexts are context.enter(route): options & None = the same options)

(* what one might expect, and what holds *)
FlagsReach(cls, runtime) == \A i \in 1..Len(cls) : runtime.flags \subseteq Governing(cls, runtime, i).flags
OverrideWins(cls, runtime) == (runtime.override /\ \A i \in 2..Len(cls) : ~cls[i].override)
                                 => \A i \in 1..Len(cls) : Governing(cls, runtime, i) = runtime
OwnOptionsOtherwise(cls, runtime) == (~runtime.override /\ \A i \in 2..Len(cls) : ~cls[i].override)
                                 => \A i \in 2..Len(cls) : Governing(cls, runtime, i) = cls[i]
=============================================================================
