SPECIFICATION Spec
CONSTANTS
  Variant = "orig"
  UseCache = TRUE
  RegMenu <- MenuQuick
  MaxOps = 4
INVARIANT P_C16
INVARIANT CacheCoherent
INVARIANT SortedByPrio
