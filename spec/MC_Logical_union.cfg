SPECIFICATION Spec
CONSTANTS
  Op = "union"
INVARIANT P_M
