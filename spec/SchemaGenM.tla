----------------------------- MODULE SchemaGenM -----------------------------
(***************************************************************************)
(* C13, M-layer for the structural clause: what JsonSchemaGenerator writes   *)
(* for a data class in the input view (generator.py generate_for_dataclass / *)
(* generate_for_field), transcribed over the declaration records of          *)
(* DataParse, and the parser's behaviour it is supposed to describe, taken    *)
(* from the transcribed lookup loops (DataLoops!Run).                         *)
(*   GenProps      names listed under "properties"                            *)
(*   GenRequired   names listed under "required"                              *)
(*   GenAddl       "absent" | "true" | "false" | "schema"                      *)
(* against                                                                    *)
(*   TakesByRun    giving the field a value under its output name puts that    *)
(*                 value into the result                                      *)
(*   AbsentByRun   leaving the field out (everything else given) reports an    *)
(*                 absence                                                    *)
(*   FateByRun     what happens to an unknown key                              *)
(* Case-insensitive declarations are left out: the generator lists the        *)
(* lower-cased name for them, and which spelling "the accepted name" is then   *)
(* is not something the property settles.                                     *)
(***************************************************************************)
EXTENDS DataLoops
\* generate_for_field returns None for a field that never takes input (always_no_input: static forms only in this universe)
GenProps(d, o) == {d.fields[j].out : j \in {j \in 1..Len(d.fields) : ~NoInput(d.fields[j], o)}}
\* field.is_required(options)
GenRequired(d, o) == {d.fields[j].out : j \in {j \in 1..Len(d.fields) : ~NoInput(d.fields[j], o) /\ Required(d.fields[j], o)}}
GenAddl(o) == CASE o.addition = "none" -> "absent" [] o.addition = "any" -> "true" [] o.addition = "forbid" -> "false" [] OTHER -> "schema"

\* the parser as transcribed: inputs that give every field but the probed one a valid value under its output name
K2(s) == [s |-> s, low |-> s]
Entry(f, n) == [k |-> K2(f.out), v |-> VInt(n)]
Others(d, j) == LET idx == SelectSeq([y \in 1..Len(d.fields) |-> y], LAMBDA y : y # j) IN [y \in 1..Len(idx) |-> Entry(d.fields[idx[y]], 2)]
All(d) == [y \in 1..Len(d.fields) |-> Entry(d.fields[y], 2)]
TakesByRun(d, o, j) == LET r == RunRaw([d |-> d, o |-> o, x |-> Others(d, j) \o <<Entry(d.fields[j], 3)>>], "ffs")
                       IN Has(r.res, d.fields[j].out) /\ Get(r.res, d.fields[j].out) = VInt(3)
AbsentByRun(d, o, j) == "absence" \in Range(RunRaw([d |-> d, o |-> o, x |-> Others(d, j)], "ffs").errs)
FateByRun(d, o) == LET r == RunRaw([d |-> d, o |-> o, x |-> All(d) \o <<[k |-> K2("zz"), v |-> VStr("7", 7, TRUE)]>>], "ffs")
                   IN IF "exceed" \in Range(r.errs) THEN "rejected"
                      ELSE IF ~Has(r.add, "zz") THEN "dropped"
                      ELSE IF Get(r.add, "zz") = VInt(7) THEN "converted" ELSE "kept"
\* the structural clause of C13 on the two models
M_Properties(d, o) == GenProps(d, o) = {d.fields[j].out : j \in {j \in 1..Len(d.fields) : TakesByRun(d, o, j)}}
M_Required(d, o) == GenRequired(d, o) = {d.fields[j].out : j \in {j \in 1..Len(d.fields) : AbsentByRun(d, o, j)}}
M_Additional(d, o) == CASE FateByRun(d, o) = "rejected" -> GenAddl(o) = "false"
                        [] FateByRun(d, o) = "converted" -> GenAddl(o) = "schema"
                        [] FateByRun(d, o) = "kept" -> GenAddl(o) = "true"
                        [] OTHER -> GenAddl(o) \in {"absent", "true"}
=============================================================================
