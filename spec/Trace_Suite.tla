------------------------------ MODULE Trace_Suite ------------------------------
(* Executions of the repository's own test-suite, observed by harness/suite_plugin.py:                                    *)
(*   kind "input"  a conversion / parse call with a container argument: its canonical text before (b) and after (a)        *)
(*                 C19: parsing never modifies the caller's input objects                                                  *)
(*   kind "idem"   a successful top-level conversion applied once more to its own result: ok2, v1, v2                      *)
(*                 C03: re-parsing the result succeeds and returns an equal value                                          *)
EXTENDS Values, Json, IOUtils
Tr == ndJsonDeserialize(IOEnv.TRACE_FILE)
VARIABLE tid
TInit == tid \in 1..Len(Tr)
TSpec == TInit /\ [][UNCHANGED tid]_tid
R == Tr[tid]
P_InputUnchanged == R.kind = "input" => R.b = R.a
\* a value that is not equal to itself (NaN) cannot be "returned equal": equality of the recorded text stands in for it
P_Idempotent == R.kind = "idem" => R.ok2 /\ (PyEq(R.v2, R.v1) \/ R.v1 = R.v2)
JudgeP == /\ (P_InputUnchanged \/ PrintT(<<"VIOL", R.id, "InputUnchanged">>))
          /\ (P_Idempotent \/ PrintT(<<"VIOL", R.id, IF R.ok2 THEN "reparse-differs" ELSE "reparse-fails">>))
=============================================================================
