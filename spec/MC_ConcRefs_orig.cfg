SPECIFICATION Spec
CONSTANTS
  Threads = {1, 2}
  Names = {"b", "n"}
  Cons = {"n"}
  Local = FALSE
  Variant = "orig"
INVARIANT P_AsAlone
INVARIANT P_LockFree
