SPECIFICATION TSpec
CONSTRAINT JudgeP
CONSTANTS
  Variant = "fixed"
