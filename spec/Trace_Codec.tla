------------------------------ MODULE Trace_Codec ------------------------------
(* C14: recorded round trips (instance -> JSON text -> instance of the same class) judged with Codec!P_RoundTrip; the    *)
(* lexical form the code emitted for each temporal / decimal field is compared with Codec!Enc (binding of M, DIV only). *)
EXTENDS Codec, Json, IOUtils
Tr == ndJsonDeserialize(IOEnv.TRACE_FILE)
VARIABLE tid
TInit == tid \in 1..Len(Tr)
TSpec == TInit /\ [][UNCHANGED tid]_tid
R == Tr[tid]
FormsAsModel == \A x \in 1..Len(R.forms) : R.forms[x].form = Enc(R.forms[x].kind, R.forms[x].shape)
\* M predicts the outcome of decoding from forms alone: a FAIL in Dec must show as a failed parse (and only then, for the kinds modelled)
ModelSaysFail == \E x \in 1..Len(R.forms) : Dec(R.forms[x].kind, R.forms[x].form) = FailD
JudgeM == (FormsAsModel /\ (ModelSaysFail => ~R.r.decoded)) \/ PrintT(<<"DIV", R.id>>)
JudgeP == /\ (P_RoundTrip(R.r) \/ PrintT(<<"VIOL", R.id, WhyNot(R.r)>>))
          /\ (~(R.r.encoded /\ R.r.stdjson) \/ JudgeM)
=============================================================================
