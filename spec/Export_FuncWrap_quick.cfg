SPECIFICATION ESpec
CONSTANTS
  Variant = "fixed"
  MaxNamed = 2
  Attrs = {"plain", "def", "privdef", "alias"}
  SpecialVals <- SV1
