----------------------------- MODULE Registry -----------------------------
(***************************************************************************)
(* C16 -- utype/utils/base.py  TypeRegistry.register / TypeRegistry.resolve *)
(*                                                                         *)
(* M-layer: the registry list and the resolution cache exactly as coded     *)
(* (one operator per statement group; `Variant` selects the code as it was  *)
(* at the pinned commit ("orig") or as it is after the fix: commit          *)
(* ("fixed")).  P-layer: Ref, the history-free reference the property      *)
(* states: among all registrations made so far that match the type, the    *)
(* highest priority, the most recent winning ties.                         *)
(***************************************************************************)
EXTENDS Naturals, Sequences, FiniteSets, TLC

CONSTANTS Variant,      \* "orig" | "fixed"   which implementation M transcribes
          UseCache,     \* BOOLEAN            TypeRegistry(cache=...)
          RegMenu,      \* set of registration templates (records without fn) explored by MC
          MaxOps        \* bound on history length for MC

(* ---- the small class hierarchy the harness builds for real ------------- *)
Types   == {"A", "B", "C", "D", "E", "F"}
Parent(t) == CASE t = "B" -> "A" [] t = "C" -> "B" [] t = "E" -> "D" [] OTHER -> "none"
RECURSIVE Sub(_, _)
Sub(t, c) == t = c \/ (Parent(t) # "none" /\ Sub(Parent(t), c))      \* issubclass(t, c)
MetaOf(t) == IF t \in {"D", "E"} THEN "Meta" ELSE "type"               \* isinstance(t, Meta)
Attrs(t)  == IF t \in {"C", "E", "F"} THEN {"hx"} ELSE {}               \* hasattr(t, 'hx')
DetNameBF(t) == t \in {"B", "F"}                                       \* a user detector
DetRaise(t)  == t \in {"C"}                                            \* detector raising TypeError on "A","D"
DetRaises(t) == t \in {"A", "D"}

(* A registration: classes (set), allow_subclasses, priority, attr, metaclass, detector, fn *)
(* fn is the identity of the registered function (its sequence number); 0 is `default`.    *)

Matches(e, t) ==
  IF e.det = "nameBF" THEN DetNameBF(t)
  ELSE IF e.det = "raise" THEN (~DetRaises(t) /\ DetRaise(t))       \* exception => `continue` => no match
  ELSE /\ (e.cls # {} => IF e.allow THEN \E c \in e.cls : Sub(t, c) ELSE t \in e.cls)
       /\ (e.meta # "none" => MetaOf(t) = e.meta)
       /\ (e.attr # "none" => e.attr \in Attrs(t))

(* ---- M: register -------------------------------------------------------- *)
\* stable sort by descending priority == list.sort(key=lambda v: -v[2])
RECURSIVE InsertByPrio(_, _)
InsertByPrio(sorted, e) ==
  IF sorted = <<>> THEN <<e>>
  ELSE IF Head(sorted).prio >= e.prio THEN <<Head(sorted)>> \o InsertByPrio(Tail(sorted), e)
       ELSE <<e>> \o sorted
RECURSIVE StableSort(_)
StableSort(s) == IF s = <<>> THEN <<>> ELSE
                   LET rest == StableSort(SubSeq(s, 1, Len(s) - 1)) IN InsertByPrio(rest, s[Len(s)])

RegisterList(registry, e) ==
  LET ins == <<e>> \o registry IN                    \* self._registry.insert(0, (detector, f, priority))
  IF Variant = "orig"
    THEN IF e.prio # 0 THEN StableSort(ins) ELSE ins \* if priority: self._registry.sort(...)
    ELSE StableSort(ins)                             \* fixed: always sort
RegisterCache(cache, e) ==
  IF Variant = "orig" THEN cache ELSE <<>>           \* fixed: self._cache.clear()

(* cache is a sequence of <<type, fn>> pairs (a dict in insertion order)                  *)
CacheHas(cache, t) == \E x \in 1..Len(cache) : cache[x][1] = t
CacheGet(cache, t) == cache[CHOOSE x \in 1..Len(cache) : cache[x][1] = t][2]

(* ---- M: resolve --------------------------------------------------------- *)
FirstMatch(registry, t) ==
  LET hits == {x \in 1..Len(registry) : Matches(registry[x], t)} IN
  IF hits = {} THEN 0 ELSE registry[CHOOSE x \in hits : \A y \in hits : x <= y].fn

ResolveFn(registry, cache, t) ==
  IF UseCache /\ CacheHas(cache, t) THEN CacheGet(cache, t)     \* if self.cache and t in self._cache
  ELSE FirstMatch(registry, t)
ResolveCache(registry, cache, t) ==
  IF UseCache /\ ~CacheHas(cache, t) /\ FirstMatch(registry, t) # 0
    THEN Append(cache, <<t, FirstMatch(registry, t)>>)           \* self._cache[t] = trans
    ELSE cache

(* ---- P: the reference of the property ----------------------------------- *)
\* regs: every registration made so far, in order of registration (fn = position)
Ref(regs, t) ==
  LET m == {x \in 1..Len(regs) : Matches(regs[x], t)} IN
  IF m = {} THEN 0
  ELSE regs[CHOOSE x \in m : \A y \in m :
               regs[x].prio > regs[y].prio \/ (regs[x].prio = regs[y].prio /\ x >= y)].fn

(* ---- the state machine --------------------------------------------------- *)
VARIABLES registry, cache, regs, res, lastT, nops
vars == <<registry, cache, regs, res, lastT, nops>>

Init == registry = <<>> /\ cache = <<>> /\ regs = <<>> /\ res = 0 /\ lastT = "none" /\ nops = 0

Register(tpl) ==
  LET e == [cls |-> tpl.cls, allow |-> tpl.allow, prio |-> tpl.prio, attr |-> tpl.attr,
            meta |-> tpl.meta, det |-> tpl.det, fn |-> Len(regs) + 1] IN
  /\ registry' = RegisterList(registry, e)
  /\ cache' = RegisterCache(cache, e)
  /\ regs' = Append(regs, e)
  /\ lastT' = "none" /\ res' = 0 /\ nops' = nops + 1

Resolve(t) ==
  /\ res' = ResolveFn(registry, cache, t)
  /\ cache' = ResolveCache(registry, cache, t)
  /\ lastT' = t /\ nops' = nops + 1
  /\ UNCHANGED <<registry, regs>>

Next == /\ nops < MaxOps
        /\ \/ \E tpl \in RegMenu : Register(tpl)
           \/ \E t \in Types : Resolve(t)
Spec == Init /\ [][Next]_vars

(* ---- properties ---------------------------------------------------------- *)
P_C16 == lastT # "none" => res = Ref(regs, lastT)                    \* the property
CacheCoherent == \A x \in 1..Len(cache) : cache[x][2] = Ref(regs, cache[x][1])   \* inductive strengthening
SortedByPrio == \A x, y \in 1..Len(registry) : x < y => registry[x].prio >= registry[y].prio
=============================================================================
