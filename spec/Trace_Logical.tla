----------------------------- MODULE Trace_Logical -----------------------------
(* C09: one state per case.  kind "parse": a combinator over real arguments on one input, with the independent   *)
(* observations of every argument (c) and what the combined type did (r).  kind "alg": an expression tree built   *)
(* with the operators and the tree of the type that came out.                                                     *)
EXTENDS Logical, Json, IOUtils
Tr == ndJsonDeserialize(IOEnv.TRACE_FILE)
VARIABLE tid
TInit == tid \in 1..Len(Tr)
TSpec == TInit /\ [][UNCHANGED tid]_tid
R == Tr[tid]
ConfT(v, i) == Conforms(v, R.c.args[i])

(* ---- construction algebra: normal form of an expression [op, name, args] ---- *)
Leaf(n) == [op |-> "leaf", name |-> n, args |-> <<>>]
AnyT == Leaf("ANY")
RECURSIVE Flat(_, _), DedupE(_, _)
Flat(args, op) == IF args = <<>> THEN <<>>
                  ELSE (IF Head(args).op = op THEN Head(args).args ELSE <<Head(args)>>) \o Flat(Tail(args), op)
DedupE(args, acc) == IF args = <<>> THEN acc
                     ELSE IF \E y \in 1..Len(acc) : acc[y] = Head(args) THEN DedupE(Tail(args), acc)
                     ELSE DedupE(Tail(args), Append(acc, Head(args)))
RECURSIVE NF(_)
NF(e) ==
  IF e.op = "leaf" THEN e
  ELSE IF e.op = "not" THEN LET n == NF(e.args[1]) IN
                            IF n.op = "not" THEN n.args[1] ELSE [op |-> "not", name |-> "", args |-> <<n>>]   \* double negation cancels
  ELSE LET parts == Flat([x \in 1..Len(e.args) |-> NF(e.args[x])], e.op)                     \* same combinator flattens
           hasAny == \E x \in 1..Len(parts) : parts[x] = AnyT
           kept == DedupE(SelectSeq(parts, LAMBDA p : p # AnyT), <<>>) IN                     \* duplicates absorbed
       IF hasAny /\ e.op \in {"union", "xor"} THEN AnyT                                      \* Any absorbs | and ^, is ignored by &
       ELSE IF kept = <<>> THEN AnyT
       ELSE IF Len(kept) = 1 THEN kept[1]
       ELSE [op |-> e.op, name |-> "", args |-> kept]
\* operators are applied pairwise left to right: a | b | c is (a | b) | c
RECURSIVE Binary(_)
Binary(e) == IF e.op \in {"leaf"} THEN e
             ELSE IF e.op = "not" THEN [e EXCEPT !.args = <<Binary(e.args[1])>>]
             ELSE [e EXCEPT !.args = [x \in 1..Len(e.args) |-> Binary(e.args[x])]]
\* Duplicates are recognised among the same objects: two composite types built separately are different objects even when
\* they have the same structure ((b | d | d) and (b | d)), so the constructed tree may keep both.  The comparison is
\* therefore made modulo structurally equal composite siblings, while equal leaves must have been absorbed.
RECURSIVE Canon(_), NoLeafDup(_)
Canon(t) == IF t.op = "leaf" THEN t
            ELSE IF t.op = "not" THEN [t EXCEPT !.args = <<Canon(t.args[1])>>]
            ELSE LET kept == DedupE([x \in 1..Len(t.args) |-> Canon(t.args[x])], <<>>) IN
                 IF Len(kept) = 1 THEN kept[1] ELSE [t EXCEPT !.args = kept]
NoLeafDup(t) == /\ \A x, y \in 1..Len(t.args) : (x < y /\ t.args[x].op = "leaf") => t.args[x] # t.args[y]
                /\ \A x \in 1..Len(t.args) : NoLeafDup(t.args[x])
P_Algebra(r) == Canon(r.refl) = NF(r.e) /\ NoLeafDup(r.refl)

Clause == IF R.kind = "alg" THEN (IF P_Algebra(R) THEN "none" ELSE "Algebra")
          ELSE CASE R.c.op = "union" -> IF P_Union(R.c, R.r, ConfT) THEN "none" ELSE "Union"
                 [] R.c.op = "xor" -> IF ~P_Xor(R.c, R.r) THEN "Xor" ELSE IF ~P_XorOrder(R.c, R.r) THEN "XorOrder" ELSE "none"
                 [] R.c.op = "not" -> IF P_Not(R.c, R.r) THEN "none" ELSE "Not"
                 [] OTHER -> IF P_And(R.c, R.r) THEN "none" ELSE "And"
JudgeP == Clause = "none" \/ PrintT(<<"VIOL", R.id, Clause>>)
JudgeM == R.kind = "alg" \/ (Model(R.c).ok = R.r.ok /\ (R.r.ok => PyEq(Model(R.c).v, R.r.v))) \/ PrintT(<<"DIV", R.id>>)
=============================================================================
