SPECIFICATION ESpec
