SPECIFICATION MCSpec
CONSTANTS
  Variant = "orig"
  ShapeNames = {"def", "req", "ci"}
  PairShapes = {}
  MaxSettings = 1
  MaxLen = 2
  MaxLen2 = 1
INVARIANT M_Admissible_ffs
INVARIANT M_Admissible_dfs
INVARIANT M_Same_ExceptOpen
