--------------------------- MODULE MC_ForwardRefs ---------------------------
(* All programs of the C17 family (E7 of DESIGN.md) as initial states.  *)
EXTENDS ForwardRefs
Spells == {"direct", "str", "list", "dict", "opt", "union", "whole"}
Fld(c, att, target, spell, cons) == [c |-> c, att |-> att, target |-> target, spell |-> spell, cons |-> cons]
Perms == {<<"A", "B", "N">>, <<"A", "N", "B">>, <<"B", "A", "N">>, <<"B", "N", "A">>, <<"N", "A", "B">>, <<"N", "B", "A">>}
OkProg(p) == Legal(p) /\ (p.future => \A x \in 1..Len(p.fields) : p.fields[x].spell \notin {"str", "whole"})
ModuleInit ==
  \E o \in Perms, fu \in BOOLEAN, us \in {<<"A", "B">>, <<"B", "A">>},
     t1 \in {"A", "B"}, s1 \in Spells, t2 \in {"B", "N"}, s2 \in Spells, c2 \in BOOLEAN,
     t3 \in {"A", "N"}, s3 \in Spells, c3 \in BOOLEAN :
    prog = [ents |-> o, scope |-> "module", future |-> fu, uses |-> us, decoy |-> FALSE,
            fields |-> << Fld("A", "f1", t1, s1, FALSE), Fld("A", "f2", t2, s2, c2), Fld("B", "g1", t3, s3, c3) >>]
LocalInit ==
  \E d \in BOOLEAN, s1 \in Spells \ {"direct"}, s2 \in Spells \ {"direct"} :
    prog = [ents |-> <<"A">>, scope |-> "local", future |-> FALSE, uses |-> <<"A", "A">>, decoy |-> d,
            fields |-> << Fld("A", "f1", "A", s1, FALSE), Fld("A", "f2", "A", s2, FALSE) >>]
\* under postponed evaluation nobody quotes names inside annotations
MCInit == (ModuleInit \/ LocalInit) /\ OkProg(prog) /\ Init
MCSpec == MCInit /\ [][Next]_vars
ASSUME PrintT(<<"MENU", [spells |-> Spells, perms |-> Perms]>>)
MJudge == P_Model \/ (PrintT(<<"MVIOL", prog.fields, prog.ents, prog.uses, outcome>>) /\ FALSE)
=============================================================================
