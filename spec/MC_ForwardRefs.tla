--------------------------- MODULE MC_ForwardRefs ---------------------------
(* All programs of the C17 family (E7 of DESIGN.md) as initial states.  *)
EXTENDS ForwardRefs
Spells == {"direct", "str", "list", "dict", "opt", "union", "whole"}
Fld(c, att, target, spell, cons) == [c |-> c, att |-> att, target |-> target, spell |-> spell, cons |-> cons]
Perms == {<<"A", "B", "N">>, <<"A", "N", "B">>, <<"B", "A", "N">>, <<"B", "N", "A">>, <<"N", "A", "B">>, <<"N", "B", "A">>}
\* the subclass S of A: absent, defined straight after A, or defined last
RECURSIVE After(_, _)
After(o, e) == IF o = <<>> THEN <<>> ELSE IF Head(o) = e THEN <<e, "S">> \o Tail(o) ELSE <<Head(o)>> \o After(Tail(o), e)
WithS(o) == {o, After(o, "A"), o \o <<"S">>}
UsesOf(o) == IF "S" \in Range(o) THEN {<<"S", "A">>, <<"A", "S">>, <<"S", "B">>, <<"B", "S">>} ELSE {<<"A", "B">>, <<"B", "A">>}
OkProg(p) == Legal(p) /\ (p.future => \A x \in 1..Len(p.fields) : p.fields[x].spell \notin {"str", "whole"})
ModuleInit ==
  \E o0 \in Perms, fu \in BOOLEAN : \E o \in WithS(o0) : \E us \in UsesOf(o),
     t1 \in {"A", "B"}, s1 \in Spells, t2 \in {"B", "N"}, s2 \in Spells, c2 \in BOOLEAN,
     t3 \in {"A", "N"}, s3 \in Spells, c3 \in BOOLEAN :
    prog = [ents |-> o, scope |-> "module", future |-> fu, uses |-> us, decoy |-> FALSE, fscope |-> "none", varargs |-> FALSE, igp |-> FALSE, gen |-> FALSE,
            fields |-> << Fld("A", "f1", t1, s1, FALSE), Fld("A", "f2", t2, s2, c2), Fld("B", "g1", t3, s3, c3) >>]
LocalInit ==
  \E d \in BOOLEAN, s1 \in Spells \ {"direct"}, s2 \in Spells \ {"direct"} :
    prog = [ents |-> <<"A">>, scope |-> "local", future |-> FALSE, uses |-> <<"A", "A">>, decoy |-> d, fscope |-> "none", varargs |-> FALSE, igp |-> FALSE, gen |-> FALSE,
            fields |-> << Fld("A", "f1", "A", s1, FALSE), Fld("A", "f2", "A", s2, FALSE) >>]
\* a decorated function (module level, or nested in a factory function) whose parameter (p or *p) and return type name the
\* module-level class B
FuncInit ==
  \E o \in {<<"B", "F">>, <<"F", "B">>}, fu \in BOOLEAN, fs \in {"module", "local"}, va \in BOOLEAN, ig \in BOOLEAN, ge \in BOOLEAN, s1 \in Spells, s2 \in Spells :
    prog = [ents |-> o, scope |-> "module", future |-> fu, uses |-> <<"F", "F">>, decoy |-> FALSE, fscope |-> fs, varargs |-> va, igp |-> ig, gen |-> ge,       \* gen: a generator function, r is its yield type (Iterator[r]); igp: declared with ignore_params=True (only the result is parsed)
            fields |-> << Fld("F", "p", "B", s1, FALSE), Fld("F", "r", "B", s2, FALSE) >>]
\* under postponed evaluation nobody quotes names inside annotations
MCInit == (ModuleInit \/ LocalInit \/ FuncInit) /\ OkProg(prog) /\ Init
MCSpecFunc == (FuncInit /\ OkProg(prog) /\ Init) /\ [][Next]_vars
MCSpec == MCInit /\ [][Next]_vars
\* the programs whose first use is the subclass (witness family of MC_ForwardRefs_noinherit.cfg)
MCSpecSub == (MCInit /\ prog.uses[1] = "S" /\ ~prog.future) /\ [][Next]_vars
ASSUME PrintT(<<"MENU", [spells |-> Spells, perms |-> UNION {WithS(o) : o \in Perms}]>>)
\* for the variants that must be refuted: report the first violating state and stop (printing an error trace re-generates the
\* 2x10^5 initial states, which takes minutes)
MRefute == P_Model \/ (PrintT(<<"MVIOL", prog.fields, prog.ents, prog.uses, outcome>>) /\ TLCSet("exit", TRUE))
MJudge == P_Model \/ (PrintT(<<"MVIOL", prog.fields, prog.ents, prog.uses, outcome>>) /\ FALSE)
=============================================================================
