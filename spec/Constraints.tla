----------------------------- MODULE Constraints -----------------------------
(***************************************************************************)
(* C02 / C03 -- utype/parser/rule.py  Constraints.<name> strict validators, *)
(* Constraints._parse_decimal, the lax_* validators, Rule._parse_contains   *)
(* and LogicalType.__instancecheck__, transcribed branch by branch          *)
(* (M-layer).  The P-layer is Values!SatDoc / Conforms (documented sense).  *)
(***************************************************************************)
EXTENDS Values

(* ---- M: strict validators as coded.  Result: [ok, v] (validators return the running value) ---- *)
OkV(v) == [ok |-> TRUE, v |-> v]
FailV(v) == [ok |-> FALSE, v |-> v]
\* _parse_decimal(value): digits, decimals from Decimal(str(value)).as_tuple()
ParseDecimal(v) ==
  IF v.ex >= 0 THEN [digits |-> Len(v.dg) + v.ex, decimals |-> 0]
  ELSE IF -v.ex > Len(v.dg) THEN [digits |-> -v.ex, decimals |-> -v.ex]
  ELSE [digits |-> Len(v.dg), decimals |-> -v.ex]
\* len(v) for sized values, len(str(v)) otherwise
LenCode(v) == IF Sized(v) THEN (IF Container(v) THEN Len(v.items) ELSE v.ln) ELSE v.ln
\* `x in lst` / `val in lst`: Python membership is ==
InList(x, lst) == \E y \in 1..Len(lst) : PyEq(x, lst[y])
TypeOf(v) == v.t[1]
ToleranceCode == {{"int", "float"}, {"int", "Decimal"}}          \* ({int, float}, {int, Decimal}, (float, Decimal)): the tuple never matches a set
Strict(v, c) ==
  CASE c.c = "gt" -> IF IsNaN(v) \/ NumLE(v, c) THEN FailV(v) ELSE OkV(v)      \* if not value > gt: raise  (commit 01b9c33; before: if value <= gt)
    [] c.c = "ge" -> IF IsNaN(v) \/ NumLT(v, c) THEN FailV(v) ELSE OkV(v)
    [] c.c = "lt" -> IF IsNaN(v) \/ NumLE(c, v) THEN FailV(v) ELSE OkV(v)      \* if not value < lt: raise
    [] c.c = "le" -> IF IsNaN(v) \/ NumLT(c, v) THEN FailV(v) ELSE OkV(v)
    [] c.c = "length"     -> IF LenCode(v) # c.n THEN FailV(v) ELSE OkV(v)
    [] c.c = "max_length" -> IF LenCode(v) > c.n THEN FailV(v) ELSE OkV(v)
    [] c.c = "min_length" -> IF LenCode(v) < c.n THEN FailV(v) ELSE OkV(v)
    [] c.c = "multiple_of" -> IF MultipleOf(v, c) THEN OkV(v) ELSE FailV(v)   \* mod = value % of; if mod: raise
    [] c.c = "max_digits" -> IF ParseDecimal(v).digits > c.n THEN FailV(v) ELSE OkV(v)
    [] c.c = "decimal_places" -> IF ParseDecimal(v).decimals > c.n THEN FailV(v)
                                 ELSE OkV(Completed(v, c.n))                  \* Decimal: return round(value, d)
    [] c.c = "unique_items" -> IF \E x, y \in 1..Len(v.items) : x < y /\ PyEq(v.items[x], v.items[y]) THEN FailV(v) ELSE OkV(v)
    [] c.c = "const" -> IF ~PyEq(v, c.vals[1]) THEN FailV(v)
                        ELSE IF TypeOf(v) # TypeOf(c.vals[1]) /\ {TypeOf(v), TypeOf(c.vals[1])} \notin ToleranceCode THEN FailV(v)
                        ELSE OkV(c.vals[1])                                   \* return v (the declared constant)
    [] c.c = "enum" -> IF InList(v, c.vals) THEN OkV(v) ELSE FailV(v)
    [] c.c = "regex" -> IF c.s = "match" THEN OkV(v) ELSE FailV(v)
    [] OTHER -> OkV(v)
\* Rule.__constraints__: the order in which validators run, whatever the order of declaration
ConsOrder == <<"gt", "ge", "lt", "le", "const", "enum", "regex", "decimal_places", "multiple_of", "max_digits",
               "length", "max_length", "min_length", "unique_items">>
RECURSIVE RunStrict(_, _, _)
RunStrict(v, cons, x) ==
  IF x > Len(ConsOrder) THEN OkV(v)
  ELSE LET here == {y \in 1..Len(cons) : cons[y].c = ConsOrder[x] /\ ~cons[y].lax} IN
       IF here = {} THEN RunStrict(v, cons, x + 1)
       ELSE LET r == Strict(v, cons[CHOOSE y \in here : TRUE]) IN IF r.ok THEN RunStrict(r.v, cons, x + 1) ELSE r


(* ---- M: lax (transforming) validators as coded (C03) ------------------------------------------------------------- *)
\* helpers on exact rationals: floor(a / m) * m  for m > 0, as [n, d]
FloorDivMul(a, m) == LET q == (a.n * m.d) \div (a.d * m.n) IN [n |-> q * m.n, d |-> m.d]
TruncDivMul(a, m) == LET num == a.n * m.d  den == a.d * m.n
                         q == IF (num >= 0) = (den > 0) THEN (IF num >= 0 THEN num ELSE -num) \div (IF den > 0 THEN den ELSE -den)
                              ELSE -((IF num >= 0 THEN num ELSE -num) \div (IF den > 0 THEN den ELSE -den))
                     IN [n |-> q * m.n, d |-> m.d]
Take(v, k) == IF Container(v) THEN [v EXCEPT !.items = SubSeq(v.items, 1, k), !.ln = k] ELSE [v EXCEPT !.ln = k, !.s = "?"]
RECURSIVE Dedup(_, _)
Dedup(items, acc) == IF items = <<>> THEN acc
                     ELSE IF \E y \in 1..Len(acc) : PyEq(Head(items), acc[y]) THEN Dedup(Tail(items), acc)
                     ELSE Dedup(Tail(items), Append(acc, Head(items)))
LaxV(v, c) ==
  CASE c.c = "ge" -> IF NumLT(v, c) THEN OkV([v EXCEPT !.n = c.n, !.d = c.d]) ELSE OkV(v)           \* return ge
    [] c.c = "le" -> IF NumLT(c, v) THEN OkV([v EXCEPT !.n = c.n, !.d = c.d]) ELSE OkV(v)
    [] c.c = "length" -> IF LenCode(v) = c.n THEN OkV(v)
                         ELSE IF ~Sized(v) \/ LenCode(v) < c.n THEN FailV(v) ELSE OkV(Take(v, c.n))   \* value[:lg]
    [] c.c = "max_length" -> IF LenCode(v) <= c.n THEN OkV(v) ELSE IF ~Sized(v) THEN FailV(v) ELSE OkV(Take(v, c.n))
    [] c.c = "multiple_of" -> IF MultipleOf(v, c) THEN OkV(v)
                              ELSE LET f == IF v.k = "dec" THEN TruncDivMul(v, c) ELSE FloorDivMul(v, c)      \* Decimal.__floordiv__ truncates toward zero
                                   IN OkV([v EXCEPT !.n = f.n, !.d = f.d])                                    \* (value // of) * of
    [] c.c = "unique_items" -> OkV([v EXCEPT !.items = Dedup(v.items, <<>>)])
    [] c.c = "const" -> OkV(c.vals[1])
    [] c.c = "enum" -> IF InList(v, c.vals) THEN OkV(v) ELSE OkV(c.vals[1])                           \* list(lst)[0]
    [] OTHER -> OkV(v)                                                                               \* rounding validators: not modelled
\* Rule.parse: the validators run in ConsOrder, each in its declared mode (strict or lax), threading the value
RECURSIVE RunRule(_, _, _)
RunRule(v, cons, x) ==
  IF x > Len(ConsOrder) THEN OkV(v)
  ELSE LET here == {y \in 1..Len(cons) : cons[y].c = ConsOrder[x]} IN
       IF here = {} THEN RunRule(v, cons, x + 1)
       ELSE LET c == cons[CHOOSE y \in here : TRUE]
                r == IF c.lax THEN LaxV(v, c) ELSE Strict(v, c)
            IN IF r.ok THEN RunRule(r.v, cons, x + 1) ELSE r
\* P for C03 on the model: one lax step is a fixed point and, on exact domains, satisfies the strict form
Modelled(c) == c.c \in {"ge", "le", "length", "max_length", "multiple_of", "unique_items", "const", "enum"}
P_LaxFixedPoint(v, c) == Modelled(c) /\ LaxV(v, c).ok =>
                           /\ LaxV(LaxV(v, c).v, c).ok /\ PyEq(LaxV(LaxV(v, c).v, c).v, LaxV(v, c).v)
                           /\ SatDoc(LaxV(v, c).v, c)

(* ---- P for C02 on one recorded case: [T (rule), x, ok, out, isinst] ---- *)
\* contains counts the elements that match the contains type, i.e. that it accepts when parsed alone
\* (references/rule.md: ConTuple([1, True, b'1', '1.0']) has 4 matches); logged per element as r.cacc
ContainsDoc(r) == r.T.contains = <<>> \/
                  LET cnt == Cardinality({x \in 1..Len(r.cacc) : r.cacc[x]}) IN
                  cnt >= (IF r.T.minc < 0 THEN 1 ELSE r.T.minc) /\ (r.T.maxc >= 0 => cnt <= r.T.maxc)
AllDoc(r) == Conforms(r.x, [r.T EXCEPT !.contains = <<>>]) /\ ContainsDoc(r)
P_Exact(r)    == r.ok = AllDoc(r)
P_Unaltered(r) == r.ok => PyEq(r.out, r.x)
\* (a rule without an origin type has nothing for isinstance to agree with: the clause is about typed rules)
P_IsInstance(r) == r.T.name = "" \/ r.isinst = AllDoc(r)
(* M |= P on a (value, rule) pair of the grid *)
P_CodeMeetsDoc(v, T) == RunStrict(v, T.cons, 1).ok = Conforms(v, [T EXCEPT !.contains = <<>>, !.args = <<>>])

(* ---- P for C03 on one recorded case: [T, x, ok1, v1, ok2, v2, exact] ---- *)
\* "returns an equal value": Python equality (a union may hand back 1 first and Decimal('1') for it afterwards)
P_Idempotent(r) == r.ok1 => r.ok2 /\ PyEq(r.v2, r.v1)
\* on exact domains the output of a lax constraint satisfies its strict form
P_LaxStrict(r) == (r.ok1 /\ r.exact /\ r.T.k = "rule") =>
                    \A y \in 1..Len(r.T.cons) : r.T.cons[y].lax => SatDoc(r.v1, r.T.cons[y])
=============================================================================
