SPECIFICATION Spec
CONSTANTS
  CopiedKinds = {"list", "set", "dict"}
  MaxOps = 4
INVARIANT P_DefaultsIntact
INVARIANT P_NoAlias
INVARIANT P_InputsOwn
