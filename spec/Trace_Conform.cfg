SPECIFICATION TSpec
CONSTRAINT JudgeP
