SPECIFICATION ESpec
