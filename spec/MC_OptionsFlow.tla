--------------------------- MODULE MC_OptionsFlow ---------------------------
(* every chain of 1..3 nested classes x class options x runtime options over two flags *)
EXTENDS OptionsFlow, Json, IOUtils, SequencesExt
Flags == {"ne", "ndl"}
Opt == [flags : SUBSET Flags, override : BOOLEAN]
VARIABLES cls, runtime
Init == cls \in UNION {[1..n -> Opt] : n \in 1..3} /\ runtime \in Opt
Next == UNCHANGED <<cls, runtime>>
Spec == Init /\ [][Next]_<<cls, runtime>>
M_OverrideWins == OverrideWins(cls, runtime)
M_OwnOptionsOtherwise == OwnOptionsOtherwise(cls, runtime)
M_FlagsReach == FlagsReach(cls, runtime)                       \* refuted: the design behind the C12 / C18 findings
Cases == {[cls |-> c, runtime |-> r, gov |-> [i \in 1..Len(c) |-> SetToSeq(Governing(c, r, i).flags)]] : c \in UNION {[1..n -> Opt] : n \in 1..3}, r \in Opt}
Export == ndJsonSerialize(IOEnv.OUT_CASES, SetToSeq({[cls |-> [i \in 1..Len(x.cls) |-> [flags |-> SetToSeq(x.cls[i].flags), override |-> x.cls[i].override]],
                                                       runtime |-> [flags |-> SetToSeq(x.runtime.flags), override |-> x.runtime.override],
                                                       gov |-> x.gov] : x \in Cases}))
=============================================================================
