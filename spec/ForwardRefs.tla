---------------------------- MODULE ForwardRefs ----------------------------
(***************************************************************************)
(* C17 -- forward references and declaration order.                        *)
(*   utype/parser/rule.py   register_forward_ref, LogicalType/Rule          *)
(*                          .register_forward_refs/.resolve_forward_refs    *)
(*   utype/parser/base.py   BaseParser.resolve_forward_refs (first call)    *)
(*   utype/parser/field.py  ParserField.resolve_forward_refs                *)
(*   utype/utils/transform.py  "ForwardRef ... not evaluated" at conversion *)
(*                                                                         *)
(* A program is data: entities (data classes A, B, a subclass S of A, a     *)
(* constrained int type N, a decorated function F -- module level or nested *)
(* in another function -- with a parameter p / *p and a return type r) in   *)
(* definition order, reference fields [c, att, target, spell,    *)
(* cons], scope, postponed annotations, and the order of first use.         *)
(* M-layer: registration keys, reference-object identity (typing caches     *)
(* generic aliases, so List['B'] is one object wherever it is written),     *)
(* evaluation at class creation or at the first call of the owning parser.  *)
(* P-layer: Expected -- what the same program means when every reference is *)
(* written directly: a valid input parses to its typed echo, an invalid one *)
(* is rejected; from the first call on, whatever the orders.                *)
(***************************************************************************)
EXTENDS Naturals, Sequences, FiniteSets, TLC

CONSTANT Variant          \* "orig": registration key as at the pinned commit; "fixed": after the fix: commit
CONSTANT Inherit          \* TRUE: a subclass takes over the pending references of the fields it inherits (commit dbd41ab)
CONSTANT FixReturn        \* TRUE: a function's return / *args types are rebuilt before local references are cleared (commit 4816f76)
CONSTANT FixOrigin        \* TRUE: references inside Optional / Union are replaced when resolved (commit 29dafc9)

Range(s) == {s[x] : x \in 1..Len(s)}
Generic(sp) == sp \in {"list", "dict", "opt", "union"}
Classes(p) == {e \in Range(p.ents) : e # "N"}
\* "S" is a subclass of A that declares no reference of its own: its fields are A's field objects
Owner(c) == IF c = "S" THEN "A" ELSE c
FieldsOf(p, c) == {x \in 1..Len(p.fields) : p.fields[x].c = c}
PosOf(p, e) == CHOOSE x \in 1..Len(p.ents) : p.ents[x] = e

(* legality of a program: a direct reference needs its target to exist when the class body runs *)
Legal(p) == \A x \in 1..Len(p.fields) : LET f == p.fields[x] IN
              /\ (f.spell = "direct" /\ ~p.future => PosOf(p, f.target) < PosOf(p, f.c))
              /\ (f.cons => f.target = "N" /\ f.spell \in {"direct", "str"})
              /\ (p.scope = "local" => f.target = f.c /\ f.spell # "direct")
              /\ (f.c = "F" => f.target = "B" /\ ~f.cons)
              /\ ("S" \in Range(p.ents) => PosOf(p, "A") < PosOf(p, "S"))

(* ---- M: identity of the reference object and its registration key ------ *)
\* postponed evaluation turns every annotation into one top-level string
TopLevel(p, f) == p.future \/ f.spell \in {"str", "whole"}
IsForward(p, f) == p.future \/ f.spell # "direct"
RefObj(p, x) == LET f == p.fields[x] IN
  IF TopLevel(p, f) THEN <<"field", f.c, f.att>>                \* ForwardRef(annotation): one object per field
  ELSE <<"typing", f.spell, f.target>>                          \* typing's alias cache: one object per (generic, name)
RegKey(p, x) == LET f == p.fields[x] IN
  IF TopLevel(p, f) THEN <<"$", f.att>>
  ELSE IF Variant = "orig" THEN <<"name", f.target>>            \* forward_refs.setdefault(__forward_arg__, ...): first wins
  ELSE <<"obj", f.spell, f.target>>                             \* fixed: one entry per distinct reference object

VARIABLES prog, pc, defined, pending, spending, evald, applied, called, outcome
vars == <<prog, pc, defined, pending, spending, evald, applied, called, outcome>>
\* spending: the pending references S took over from A when it was created
\* pending : class -> set of field indexes whose reference object is the registered one for its key
\* evald   : set of reference objects evaluated so far ;  applied : field indexes whose type has been rebuilt with
\* the Field constraints ; called : classes whose parser ran resolve_forward_refs ; outcome : last use's prediction

\* the object that owns the field is local to a function: its evaluated references are cleared again (force_clear)
OwnerLocal(p, c) == IF c = "F" THEN p.fscope = "local" ELSE p.scope = "local"
\* a reference resolved at the first call whose holder is not rebuilt before the local references are cleared
Lost(p, x) == LET f == p.fields[x] IN
  /\ OwnerLocal(p, f.c)
  /\ \/ ~FixReturn /\ f.c = "F" /\ (f.att = "r" \/ p.varargs)
     \/ ~FixOrigin /\ ~TopLevel(p, f) /\ f.spell \in {"opt", "union"}
Resolvable(p, f, defd) == f.target \in defd \/ f.target = f.c   \* ClassParser.globals injects the class's own name
\* class creation: generate_fields -> parse_annotation -> register_forward_ref for every forward field in order
RECURSIVE Create(_, _, _, _, _)
Create(p, c, idxs, st, defd) ==
  IF idxs = {} THEN st
  ELSE LET x == CHOOSE y \in idxs : \A z \in idxs : y <= z
           f == p.fields[x]
           s1 == IF ~IsForward(p, f) THEN [st EXCEPT !.applied = @ \cup {x}]
                 ELSE IF Resolvable(p, f, defd)
                   THEN [st EXCEPT !.evald = IF OwnerLocal(p, c) THEN @ ELSE @ \cup {RefObj(p, x)},   \* force_clear
                                   !.applied = @ \cup {x}]
                 ELSE IF \E y \in st.pend : p.fields[y].c = c /\ RegKey(p, y) = RegKey(p, x) THEN st                          \* setdefault: lost
                 ELSE [st EXCEPT !.pend = @ \cup {x}]
       IN Create(p, c, idxs \ {x}, s1, defd)

\* first call: BaseParser.resolve_forward_refs evaluates every registered reference whose target exists now,
\* then every field re-reads its type (the registered object of a top-level reference carries the constraints)
FirstCall(p, c, st, defd) ==
  LET mine == IF c = "S" THEN st.spend ELSE {x \in st.pend : p.fields[x].c = c}
      done == {x \in mine : Resolvable(p, p.fields[x], defd)} IN
  [st EXCEPT !.pend = IF c = "S" THEN @ ELSE @ \ done,       \* A's own registration stays until A's first call
             !.spend = IF c = "S" THEN @ \ done ELSE @,
             !.evald = @ \cup {RefObj(p, x) : x \in {y \in done : ~OwnerLocal(p, p.fields[y].c)}},
             \* every field of the class re-reads its type: all those that hold one of the objects evaluated now are rebuilt
             !.applied = @ \cup {x \in FieldsOf(p, Owner(c)) : /\ IsForward(p, p.fields[x]) /\ ~Lost(p, x)
                                                                 /\ RefObj(p, x) \in {RefObj(p, y) : y \in done}}]

\* which parsers run for an input nested two levels below class c
Targets(p, cs) == {p.fields[x].target : x \in {y \in 1..Len(p.fields) : p.fields[y].c \in {Owner(c) : c \in cs}}} \ {"N"}
Closure(p, c) == {c} \cup Targets(p, {c}) \cup Targets(p, Targets(p, {c}))
RECURSIVE FirstCalls(_, _, _, _)
FirstCalls(p, cs, st, defd) == IF cs = {} THEN st
                               ELSE LET c == CHOOSE d \in cs : TRUE IN FirstCalls(p, cs \ {c}, FirstCall(p, c, st, defd), defd)
\* a field converts iff its type is usable: not forward, or its reference object has been evaluated
Usable(p, x, st) == ~IsForward(p, p.fields[x]) \/ RefObj(p, x) \in st.evald \/ x \in st.applied
MOk(p, c, st) == \A x \in 1..Len(p.fields) : p.fields[x].c \in {Owner(d) : d \in Closure(p, c)} => Usable(p, x, st)
MCons(p, c, st) == \A x \in 1..Len(p.fields) : (p.fields[x].c \in {Owner(c)} \cup Targets(p, {c}) /\ p.fields[x].cons) => x \in st.applied

St == [pend |-> pending, spend |-> spending, evald |-> evald, applied |-> applied]
Init == /\ pc = 1 /\ defined = {} /\ pending = {} /\ spending = {} /\ evald = {} /\ applied = {} /\ called = {}
        /\ outcome = [use |-> "none", ok |-> TRUE, cons |-> TRUE]
Define == /\ pc <= Len(prog.ents)
          /\ LET e == prog.ents[pc]
                 s == IF e = "N" THEN St
                      ELSE IF e = "S" THEN [St EXCEPT !.spend = IF Inherit THEN {x \in pending : prog.fields[x].c = "A"} ELSE {}]
                      ELSE Create(prog, e, FieldsOf(prog, e), St, defined) IN
             /\ pending' = s.pend /\ spending' = s.spend /\ evald' = s.evald /\ applied' = s.applied
             /\ defined' = defined \cup {e}
          /\ pc' = pc + 1 /\ UNCHANGED <<prog, called, outcome>>
Use == /\ pc > Len(prog.ents) /\ pc <= Len(prog.ents) + Len(prog.uses)
       /\ LET c == prog.uses[pc - Len(prog.ents)]
              s == FirstCalls(prog, Closure(prog, c), St, defined) IN
          /\ pending' = s.pend /\ spending' = s.spend /\ evald' = s.evald /\ applied' = s.applied
          /\ called' = called \cup Closure(prog, c)
          /\ outcome' = [use |-> c, ok |-> MOk(prog, c, s), cons |-> MCons(prog, c, s)]
       /\ pc' = pc + 1 /\ UNCHANGED <<prog, defined>>
Next == Define \/ Use

(* ---- P: the meaning of the program with direct references ---------------- *)
\* input kinds of a use: "valid", "badleaf" (a nested value of the wrong type), "badcons" (a value that
\* violates a Field constraint declared on a referencing field)
ExpectedOk(kind) == kind = "valid"
\* on a recorded use: ok exactly when expected, and an accepted value is the typed echo of the input
P_Use(u) == /\ u.ok = ExpectedOk(u.kind)
            /\ (u.ok => u.value = u.echo)
\* on the model: a valid input is accepted, and the constraints of referencing fields are in force
P_Model == outcome.use # "none" => outcome.ok /\ outcome.cons
=============================================================================
