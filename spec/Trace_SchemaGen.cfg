SPECIFICATION TSpec
CONSTRAINT JudgeP
