SPECIFICATION Spec
CONSTANTS
  Variant = "fixed"
  ClassName = "S1"
  MaxOps = 3
CONSTRAINT MJudge
