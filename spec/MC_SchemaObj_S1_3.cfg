SPECIFICATION Spec
CONSTANTS
  ClassName = "S1"
  MaxOps = 3
CONSTRAINT MJudge
