SPECIFICATION Spec
CONSTANTS
  Variant = "orig"
  MaxK = 6
PROPERTY Termination
PROPERTY Progress
