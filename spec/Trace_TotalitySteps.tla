------------------------- MODULE Trace_TotalitySteps -------------------------
(* Trace validation proper for the timestamp normalisation loop of to_datetime: the driver logs (sys.settrace) the magnitude class k of     *)
(* `data` -- how many factors of 1000 it lies above the watershed -- at every visit of the loop head; consecutive snapshots must be related  *)
(* by Totality!Loop (k' = k - 1 while k > 0) and the last one must be the exit (k = 0).                                                      *)
EXTENDS Totality, Json, IOUtils
Tr == ndJsonDeserialize(IOEnv.TRACE_FILE)
VARIABLES tid, l
TInit == tid \in 1..Len(Tr) /\ l = 1 /\ pc = "Loop" /\ inf = FALSE /\ k = Tr[tid].steps[1].k
\* one Loop step of the model, and the next snapshot must show its effect
TNext == /\ l < Len(Tr[tid].steps) /\ l' = l + 1
         /\ Loop
         /\ UNCHANGED tid
TSpec == TInit /\ [][TNext]_<<tid, l, vars>>
R == Tr[tid]
JudgeStep == (R.steps[l].k = k /\ (l = Len(R.steps) => k = 0)) \/ PrintT(<<"DIV", R.id, l>>)
=============================================================================
