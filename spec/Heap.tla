-------------------------------- MODULE Heap --------------------------------
(***************************************************************************)
(* C19 -- parsing is pure: no input mutation, no shared defaults, no        *)
(* cross-call state.                                                        *)
(*   utype/utils/functional.py  copy_value                                  *)
(*   utype/parser/field.py      ParserField.get_default                     *)
(*   utype/parser/rule.py       args parsers build fresh containers         *)
(*   utype/utils/transform.py   exact-type shortcut returns its argument    *)
(*                                                                         *)
(* M-layer: an object heap with identities.  Values are atoms or references *)
(* to containers; copy_value is transcribed (which kinds are rebuilt is the *)
(* constant CopiedKinds); a parse fills omitted fields from copies of the   *)
(* class defaults and rebuilds or (same-type shortcut) passes through the   *)
(* caller's containers; users mutate what they got back.                    *)
(* P-layer: stated on facts any execution can log -- projections (canonical *)
(* text) and the sets of mutable-container identities reachable from roots. *)
(***************************************************************************)
EXTENDS Naturals, Sequences, FiniteSets, TLC

CONSTANT CopiedKinds            \* kinds copy_value rebuilds: {"list","set","tuple","dict"} in the code
Mutable == {"list", "set", "dict"}
Atom(n) == [a |-> n, r |-> 0]
Ref(o)  == [a |-> 0, r |-> o]
\* heap: sequence of [kind, items]; oid = index
RECURSIVE Reach(_, _)
Reach(h, v) == IF v.r = 0 THEN {} ELSE {v.r} \cup UNION {Reach(h, h[v.r].items[x]) : x \in 1..Len(h[v.r].items)}
MutReach(h, v) == {o \in Reach(h, v) : h[o].kind \in Mutable}

RECURSIVE Copy(_, _), CopyItems(_, _, _)
Copy(h, v) ==                                \* copy_value(data)
  IF v.r = 0 \/ h[v.r].kind \notin CopiedKinds THEN [h |-> h, v |-> v]
  ELSE LET ci == CopyItems(h, h[v.r].items, <<>>) IN
       [h |-> Append(ci.h, [kind |-> h[v.r].kind, items |-> ci.items]), v |-> Ref(Len(ci.h) + 1)]
CopyItems(h, items, acc) ==
  IF items = <<>> THEN [h |-> h, items |-> acc]
  ELSE LET c == Copy(h, Head(items)) IN CopyItems(c.h, Tail(items), Append(acc, c.v))
\* the args parsers (List[int], Dict[str, ...]) always build new containers, whatever the kind
RECURSIVE Rebuild(_, _), RebuildItems(_, _, _)
Rebuild(h, v) ==
  IF v.r = 0 THEN [h |-> h, v |-> v]
  ELSE LET ci == RebuildItems(h, h[v.r].items, <<>>) IN
       [h |-> Append(ci.h, [kind |-> h[v.r].kind, items |-> ci.items]), v |-> Ref(Len(ci.h) + 1)]
RebuildItems(h, items, acc) ==
  IF items = <<>> THEN [h |-> h, items |-> acc]
  ELSE LET c == Rebuild(h, Head(items)) IN RebuildItems(c.h, Tail(items), Append(acc, c.v))

(* ---- P on logged facts --------------------------------------------------- *)
ToSet(s) == {s[x] : x \in 1..Len(s)}
\* e: an event with  results: seq of [proj, fields: seq of [filled, moids]] (all results alive so far),
\*                   defaults: seq of [proj, moids]  (class-level defaults now),  plus event-specific fields
P_InputUnchanged(e) == e.ev = "call" => e.inBefore = e.inAfter
P_HistoryFree(e)    == e.ev = "call" => e.ok = e.freshOk /\ e.out = e.freshOut
P_NoSharedDefault(e) ==
  \A i \in 1..Len(e.results) : \A j \in 1..Len(e.results[i].fields) :
     LET fj == e.results[i].fields[j] IN
     fj.filled =>
       /\ \A d \in 1..Len(e.defaults) : ToSet(fj.moids) \cap ToSet(e.defaults[d].moids) = {}
       /\ \A i2 \in 1..Len(e.results) : \A j2 \in 1..Len(e.results[i2].fields) :
            (i2 # i \/ j2 # j) /\ e.results[i2].fields[j2].filled
               => ToSet(fj.moids) \cap ToSet(e.results[i2].fields[j2].moids) = {}
\* a mutation of one result leaves every other result and every class default as it was
P_Isolated(prev, e) ==
  e.ev = "mutate" =>
    /\ \A d \in 1..Len(e.defaults) : e.defaults[d].proj = prev.defaults[d].proj
    /\ \A i \in 1..Len(e.results) : i # e.target => e.results[i].proj = prev.results[i].proj
\* a parse leaves earlier results and the defaults as they were
P_CallKeeps(prev, e) ==
  e.ev = "call" =>
    /\ \A d \in 1..Len(prev.defaults) : e.defaults[d].proj = prev.defaults[d].proj
    /\ \A i \in 1..Len(prev.results) : e.results[i].proj = prev.results[i].proj
=============================================================================
