SPECIFICATION LSpec
CONSTANTS
  Variant = "fixed"
  UseCache = TRUE
  ChildCaches = "all"
  RegMenu <- MenuL
  MaxOps = 4
INVARIANT P_Layered
