SPECIFICATION TSpec
CONSTANTS
  Variant = "fixed"
CONSTRAINT JudgeAll
