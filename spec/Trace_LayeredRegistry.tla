----------------------- MODULE Trace_LayeredRegistry -----------------------
(* Trace validation for C16 on a layered registry (base=): every recorded history of registrations in the child and in the base and of   *)
(* lookups through the child is stepped through LayeredRegistry's own operators; the logged result of each lookup is bound to `res`,      *)
(* P_Layered is evaluated in every state (verdict) and M's prediction is compared (divergence).                                           *)
EXTENDS LayeredRegistry, Json, IOUtils
Tr == ndJsonDeserialize(IOEnv.TRACE_FILE)
VARIABLES tid, l, div
tvars == <<lvars, tid, l, div>>
ToSet(seq) == {seq[x] : x \in 1..Len(seq)}
TInit == tid \in 1..Len(Tr) /\ l = 1 /\ div = FALSE /\ LInit
Step == Tr[tid].steps[l]
Tpl == [cls |-> ToSet(Step.cls), allow |-> Step.allow, prio |-> Step.prio, attr |-> Step.attr, meta |-> Step.meta, det |-> Step.det]
TRegC == Step.op = "reg" /\ RegisterChild(Tpl) /\ div' = FALSE
TRegB == Step.op = "regb" /\ RegisterBase(Tpl) /\ div' = FALSE
TRes == /\ Step.op = "res"
        /\ res' = Step.fn /\ lastT' = Step.t
        /\ cache' = LChildCache(Step.t) /\ bcache' = LBaseCache(Step.t)
        /\ div' = (Step.fn # LResolveFn(Step.t))
        /\ nops' = nops + 1 /\ UNCHANGED <<registry, regs, bregistry, bregs>>
TNext == /\ l <= Len(Tr[tid].steps) /\ l' = l + 1 /\ UNCHANGED tid
         /\ (TRegC \/ TRegB \/ TRes)
TSpec == TInit /\ [][TNext]_tvars
JudgeP == P_Layered \/ PrintT(<<"VIOL", Tr[tid].id, "P_Layered", l - 1>>)
JudgeM == ~div \/ PrintT(<<"DIV", Tr[tid].id, "LResolveFn", l - 1>>)
=============================================================================
