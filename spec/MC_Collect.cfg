SPECIFICATION Spec
INVARIANT P_M
