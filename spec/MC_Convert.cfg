SPECIFICATION Spec
INVARIANT M_Restrict
INVARIANT M_NoLossInt
INVARIANT M_NoLossBool
INVARIANT M_NoCollapse
INVARIANT M_StrictBytes
INVARIANT M_Group
