SPECIFICATION FSpec
CONSTANTS
  Variant = "fixed"
  MaxNamed = 2
  Attrs = {"plain", "def", "privdef", "alias"}
  SpecialVals <- SV1
PROPERTY Termination
