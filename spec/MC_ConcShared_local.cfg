SPECIFICATION Spec
CONSTANTS
  Local = TRUE
  LockMode = "sharedlocal"
  ClearAll = FALSE
INVARIANT P_AsAlone
PROPERTY Termination
