SPECIFICATION LSpec
CONSTANTS
  Variant = "fixed"
  UseCache = TRUE
  ChildCaches = "own"
  RegMenu <- MenuL
  MaxOps = 4
INVARIANT P_Layered
