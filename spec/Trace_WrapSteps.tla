--------------------------- MODULE Trace_WrapSteps ---------------------------
(* Trace validation proper for FunctionParser.parse_params: the driver logs (sys.settrace, no source hooks) parsed_args, parsed_keys and the   *)
(* errors so far at every visit of the two loop heads; snapshot l must be FuncWrap after the corresponding number of Args / PosOnly steps.      *)
EXTENDS FuncWrap, Json, IOUtils
Tr == ndJsonDeserialize(IOEnv.TRACE_FILE)
VARIABLES tid, l
TInit == tid \in 1..Len(Tr) /\ l = 1 /\ fc = 0 /\ w = 0 /\ cs = 0 /\ m = 0 /\ outs = 0
TNext == l < Len(Tr[tid].steps) /\ l' = l + 1 /\ UNCHANGED <<tid, fc, w, vars>>
TSpec == TInit /\ [][TNext]_<<tid, l, fc, w, vars>>
R == Tr[tid]
C == [sig |-> R.sig, call |-> R.call]
RECURSIVE WUntil(_, _, _)
WUntil(c, ww, pc) == IF ww.pc = pc \/ ww.pc = "done" THEN ww ELSE WUntil(c, WStep(c, ww), pc)
RECURSIVE WIter(_, _, _)
WIter(c, ww, k) == IF k = 0 THEN ww ELSE WIter(c, WStep(c, ww), k - 1)
First(loop) == CHOOSE x \in 1..Len(R.steps) : R.steps[x].loop = loop /\ \A y \in 1..(x - 1) : R.steps[y].loop # loop
ModelAt == LET s == R.steps[l] IN WIter(C, WUntil(C, W0, s.loop), l - First(s.loop))
\* the code raises at the first error (fail-fast): the model goes on collecting, so it is compared up to the first error only
Same(ww, s) == ww.errs # <<>> \/ (ww.args = s.args /\ ww.keys = s.keys /\ s.errs = <<>>)
JudgeStep == Same(ModelAt, R.steps[l]) \/ PrintT(<<"DIV", R.id, R.steps[l].loop, l>>)
=============================================================================
