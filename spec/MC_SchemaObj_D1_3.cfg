SPECIFICATION Spec
CONSTANTS
  ClassName = "D1"
  MaxOps = 3
CONSTRAINT MJudge
