SPECIFICATION Spec
CONSTANTS
  Variant = "fixed"
  ClassName = "D1"
  MaxOps = 3
CONSTRAINT MJudge
