------------------------------- MODULE Convert -------------------------------
(***************************************************************************)
(* C12 (and the conversion core used by C01 / C04) --                       *)
(*   utype/utils/transform.py  TypeTransformer: _attempt_from,               *)
(*   _from_byte_like, _attempt_from_number, to_null, to_bool, to_integer,     *)
(*   to_float, to_str under the flags no_explicit_cast (ne) and               *)
(*   no_data_loss (ndl).                                                     *)
(* A source is a value record of Values.tla plus logged facts `fx`:           *)
(*   numlit  the text (str / decoded bytes) is a numeric literal Decimal()    *)
(*           accepts; its exact value is fx.n / fx.d, fx.ex its exponent       *)
(*   word    lower-cased text is a true-word / false-word / null-word / ""     *)
(*   badutf8 bytes that do not decode strictly                                *)
(* M-layer: MConv(x, fx, T, ne, ndl) = [ok, v] for T in int, float, str, bool, *)
(* none over the modelled source kinds (Modelled(x)).                          *)
(* P-layer: the promises of the two flags (P_Restrict, P_NoLoss*, P_Group).     *)
(***************************************************************************)
EXTENDS Values

TrueWords  == {"1", "true", "yes", "on", "t", "y"}
FalseWords == {"0", "false", "no", "off", "f"}
NullWords  == {"null", "none", "nil"}
FailC == [ok |-> FALSE, n |-> 0, d |-> 1, kind |-> "none"]
OkNum(kind, n, d) == [ok |-> TRUE, n |-> n, d |-> d, kind |-> kind]
Textual(x) == x.k \in {"str", "bytes"}
Falsy(x) == x.k = "none" \/ (x.k \in {"int", "bool", "float", "dec"} /\ x.n = 0) \/ (Sized(x) /\ SizeOf(x) = 0)
\* `not data` after _from_byte_like: a text is judged by its decoded form (fx.empty: the decoded text is empty; undecodable bytes
\* are dropped by decode(errors="ignore") unless no_data_loss is set)
FalsyD(x, fx) == IF x.k \in {"str", "bytes"} THEN fx.empty ELSE Falsy(x)
Modelled(x) == x.k \in {"none", "bool", "int", "float", "dec", "str", "bytes"}
               \/ (x.k \in {"list", "tuple", "set"} /\ Len(x.items) <= 2 /\ \A y \in 1..Len(x.items) : x.items[y].k \in {"none", "bool", "int", "float", "dec", "str", "bytes"})
\* truncation toward zero of n/d
Trunc(n, d) == IF n >= 0 THEN n \div d ELSE -((-n) \div d)

\* _attempt_from: a non-empty collection is replaced by its first element (rejected under ndl when it has several)
\* result: [ok, x, fx]
AttemptFrom(x, fx, ne, ndl) ==
  IF ne THEN [ok |-> TRUE, x |-> x, fx |-> fx]
  ELSE IF x.k \in {"list", "tuple", "set", "fset"} /\ Len(x.items) > 0
    THEN IF ndl /\ Len(x.items) > 1 THEN [ok |-> FALSE, x |-> x, fx |-> fx]
         ELSE [ok |-> TRUE, x |-> x.items[1], fx |-> fx.items[1]]
  ELSE [ok |-> TRUE, x |-> x, fx |-> fx]
\* _from_byte_like: strict decoding under ndl
DecodeOk(x, fx, ndl) == ~(x.k = "bytes" /\ fx.badutf8 /\ ndl)

\* to_integer
ToInt(x0, fx0, ne, ndl) ==
  IF x0.k \in {"int", "bool"} THEN OkNum("int", x0.n, 1)
  ELSE IF ne THEN
    IF x0.k \notin {"float", "dec"} THEN FailC
    ELSE IF ndl /\ (x0.n % x0.d # 0 \/ (x0.k = "dec" /\ x0.ex # 0)) THEN FailC          \* Decimal(data).as_tuple().exponent
    ELSE OkNum("int", Trunc(x0.n, x0.d), 1)
  ELSE LET a == AttemptFrom(x0, fx0, ne, ndl) IN
    IF ~a.ok \/ ~DecodeOk(a.x, a.fx, ndl) THEN FailC
    ELSE LET x == a.x  fx == a.fx IN
      IF FalsyD(x, fx) THEN OkNum("int", 0, 1)                                                 \* elif not data: return 0
      ELSE IF x.k \in {"int", "bool"} THEN OkNum("int", x.n, 1)
      ELSE IF Textual(x) /\ fx.word = "false" THEN OkNum("int", 0, 1)
      ELSE IF Textual(x) /\ fx.word = "true" THEN OkNum("int", 1, 1)
      ELSE IF x.k \in {"float", "dec"} THEN
             (IF ndl /\ (x.n % x.d # 0 \/ (x.k = "dec" /\ x.ex # 0)) THEN FailC ELSE OkNum("int", Trunc(x.n, x.d), 1))
      ELSE IF Textual(x) /\ fx.numlit THEN
             (IF ndl /\ fx.ex # 0 THEN FailC ELSE OkNum("int", Trunc(fx.n, fx.d), 1))
      ELSE FailC
\* to_float
ToFloat(x0, fx0, ne, ndl) ==
  IF x0.k = "float" THEN OkNum("float", x0.n, x0.d)
  ELSE IF ne THEN (IF x0.k \in {"int", "bool", "dec"} THEN OkNum("float", x0.n, x0.d) ELSE FailC)
  ELSE LET a == AttemptFrom(x0, fx0, ne, ndl) IN
    IF ~a.ok \/ ~DecodeOk(a.x, a.fx, ndl) THEN FailC
    ELSE LET x == a.x  fx == a.fx IN
      IF FalsyD(x, fx) THEN OkNum("float", 0, 1)
      ELSE IF Numeric(x) THEN OkNum("float", x.n, x.d)
      ELSE IF Textual(x) /\ fx.numlit THEN OkNum("float", fx.n, fx.d)
      ELSE FailC
\* to_bool
ToBool(x, fx, ne, ndl) ==
  IF x.k = "bool" THEN OkNum("bool", x.n, 1)
  ELSE IF Numeric(x) /\ x.n = x.d THEN OkNum("bool", 1, 1)                                \* data == 1
  ELSE IF Numeric(x) /\ x.n = 0 THEN OkNum("bool", 0, 1)                                  \* data == 0
  ELSE IF ne THEN FailC
  ELSE IF x.k = "bytes" /\ fx.badutf8 THEN FailC                                          \* data.decode()
  ELSE IF fx.word = "false" THEN OkNum("bool", 0, 1)
  ELSE IF fx.word = "true" THEN OkNum("bool", 1, 1)
  ELSE IF ndl THEN FailC
  ELSE OkNum("bool", IF Falsy(x) THEN 0 ELSE 1, 1)                                        \* bool(data)
\* to_null
ToNull(x, fx, ne, ndl) == IF x.k = "none" THEN OkNum("none", 0, 1)
                          ELSE IF ne THEN FailC
                          ELSE IF x.k = "str" /\ fx.word = "null" THEN OkNum("none", 0, 1) ELSE FailC
\* to_str: verdict only (the text itself is compared by the harness-side projection)
ToStrOk(x0, fx0, ne, ndl) ==
  IF x0.k = "str" THEN TRUE
  ELSE LET a == AttemptFrom(x0, fx0, ne, ndl) IN
       a.ok /\ DecodeOk(a.x, a.fx, ndl) /\ (ne => a.x.k \in {"str", "bytes"})
MConvOk(x, fx, T, ne, ndl) ==
  CASE T = "int" -> ToInt(x, fx, ne, ndl).ok [] T = "float" -> ToFloat(x, fx, ne, ndl).ok
    [] T = "bool" -> ToBool(x, fx, ne, ndl).ok [] T = "none" -> ToNull(x, fx, ne, ndl).ok
    [] T = "str" -> ToStrOk(x, fx, ne, ndl)
MConvNum(x, fx, T, ne, ndl) ==
  CASE T = "int" -> ToInt(x, fx, ne, ndl) [] T = "float" -> ToFloat(x, fx, ne, ndl)
    [] T = "bool" -> ToBool(x, fx, ne, ndl) [] OTHER -> ToNull(x, fx, ne, ndl)
MTargets == {"int", "float", "bool", "none", "str"}

(* ---- P -------------------------------------------------------------------------------------------------------------- *)
\* a cell c = [x, fx, T (target name), tgroup, out: <<none, ne, ndl, both>> each [ok, v], facts...]
FlagNe(i) == i \in {2, 4}
FlagNdl(i) == i \in {3, 4}
\* (1) the flags only restrict: what converts with them converts without them, to an equal value of the same type
P_Restrict(c) == \A i \in 2..4 : c.out[i].ok => c.out[1].ok /\ PyEq(c.out[i].v, c.out[1].v) /\ c.out[i].v.t[1] = c.out[1].v.t[1]
\* (2) promises of no_data_loss
HasExact(c) == Numeric(c.x) \/ (Textual(c.x) /\ c.fx.numlit)
ExactN(c) == IF Numeric(c.x) THEN c.x.n ELSE c.fx.n
ExactD(c) == IF Numeric(c.x) THEN c.x.d ELSE c.fx.d
P_NoLossInt(c) == \A i \in {3, 4} : (c.T = "int" /\ c.out[i].ok /\ HasExact(c) /\ c.x.k # "bool") =>
                     ExactN(c) % ExactD(c) = 0 /\ c.out[i].v.n * ExactD(c) = ExactN(c)
Unambiguous(c) == c.x.k = "bool" \/ (Numeric(c.x) /\ (c.x.n = 0 \/ c.x.n = c.x.d)) \/ (Textual(c.x) /\ c.fx.word \in {"true", "false"})
P_NoLossBool(c) == \A i \in {3, 4} : (c.T = "bool" /\ c.out[i].ok) => Unambiguous(c)
P_NoCollapse(c) == \A i \in {3, 4} : (c.tscalar /\ Container(c.x) /\ c.x.k # "dict" /\ Len(c.x.items) > 1) => ~c.out[i].ok
P_StrictBytes(c) == \A i \in {3, 4} : (c.x.k = "bytes" /\ c.fx.badutf8 /\ c.T \notin {"bytes", "bytearray", "Any"}) => ~c.out[i].ok
P_NoTimeToDate(c) == \A i \in {3, 4} : (c.T = "date" /\ c.fx.hastime) => ~c.out[i].ok
P_NoExtra(c) == \A i \in {3, 4} : c.fx.extra => ~c.out[i].ok                 \* extra tuple items / unknown keys
\* "dict([{'a': 1, 'b': 2}]) == {'a': 'b'} is consider a data loss" (to_dict): a sequence holding one mapping is never read as key-value pairs
P_NoPairLoss(c) == \A i \in {3, 4} : ("mapkeys" \in DOMAIN c.fx /\ c.fx.mapkeys > 1 /\ c.T = "dict" /\ c.out[i].ok) => Len(c.out[i].v.ks) = c.fx.mapkeys
\* (3) no_explicit_cast converts only within a primitive group, apart from the documented exceptions
Groups(x) == (IF x.k = "none" THEN {"null"} ELSE {}) \cup
             (IF x.k = "bool" \/ (Numeric(x) /\ (x.n = 0 \/ x.n = x.d)) THEN {"boolean"} ELSE {}) \cup     \* "0, 1, True, False"
             (IF Numeric(x) \/ x.k \in {"intx", "floatx", "decx", "complex"} THEN {"number"} ELSE {}) \cup
             (IF x.k \in {"str", "bytes"} THEN {"string"} ELSE {}) \cup
             (IF x.k \in {"list", "tuple", "set", "fset", "deque"} THEN {"array"} ELSE {}) \cup
             (IF x.k \in {"dict", "inst", "mapping"} THEN {"object"} ELSE {})
DocumentedException(c) == (c.T = "Decimal" /\ c.x.k \in {"str", "bytes"})
                          \/ (c.T \in {"date", "datetime", "time", "timedelta"} /\ (c.x.k \in {"str", "bytes"} \/ Numeric(c.x) \/ c.x.k \in {"date", "datetime", "time", "timedelta"}))
P_Group(c) == \A i \in {2, 4} : (c.out[i].ok /\ c.tgroup # "") => c.tgroup \in Groups(c.x) \/ DocumentedException(c)
=============================================================================
