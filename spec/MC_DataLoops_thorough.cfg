SPECIFICATION MCSpec
CONSTANTS
  Variant = "fixed"
  ShapeNames = {"req", "def", "opt", "alias", "aliasreq", "ci", "cidef", "noin", "noinreq", "noout", "moder", "modew", "defer"}
  PairShapes = {"alias", "ci", "dep"}
  MaxSettings = 2
  MaxLen = 2
  MaxLen2 = 2
INVARIANT M_Admissible_ffs
INVARIANT M_Admissible_dfs
INVARIANT M_Same_ExceptOpen
