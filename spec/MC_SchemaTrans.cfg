SPECIFICATION SSpec
CONSTANTS
  Variant = "fixed"
INVARIANT P_Sound
