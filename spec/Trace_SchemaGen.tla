---------------------------- MODULE Trace_SchemaGen ----------------------------
EXTENDS SchemaGen, Json, IOUtils
Tr == ndJsonDeserialize(IOEnv.TRACE_FILE)
VARIABLE tid
TInit == tid \in 1..Len(Tr)
TSpec == TInit /\ [][UNCHANGED tid]_tid
R == Tr[tid]
Clause == IF ~P_WellFormed(R) THEN "WellFormed" ELSE IF ~P_Properties(R) THEN "Properties" ELSE IF ~P_Required(R) THEN "Required"
          ELSE IF ~P_Additional(R) THEN "Additional" ELSE IF ~P_OutputValidates(R) THEN "OutputValidates" ELSE "none"
JudgeP == Clause = "none" \/ PrintT(<<"VIOL", R.id, Clause>>)
=============================================================================
