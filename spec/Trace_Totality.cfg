SPECIFICATION TSpec
CONSTANTS
  Variant = "fixed"
  MaxK = 0
CONSTRAINT JudgeP
