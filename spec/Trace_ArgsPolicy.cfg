SPECIFICATION TSpec
CONSTANTS
  Variant = "fixed"
CONSTRAINT JudgeP
CONSTRAINT JudgeM
CONSTRAINT JudgeL
