----------------------------- MODULE Trace_Conform -----------------------------
(* C01: one state per successful parse [T (declaration descriptor), v (projected result)]; TLC evaluates the      *)
(* type-directed predicate Values!Conforms(v, T) recursively over elements, keys, values and fields.               *)
EXTENDS Values, Json, IOUtils
Tr == ndJsonDeserialize(IOEnv.TRACE_FILE)
VARIABLE tid
TInit == tid \in 1..Len(Tr)
TSpec == TInit /\ [][UNCHANGED tid]_tid
R == Tr[tid]
JudgeP == Conforms(R.v, R.T) \/ PrintT(<<"VIOL", R.id, "Conforms">>)
=============================================================================
