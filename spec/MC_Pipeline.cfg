SPECIFICATION Spec
CONSTANTS
  MaxCons = 3
  Bounds = {0, 3}
  Steps = {2, 3}
  Vals <- ValsQ
INVARIANT M_Conforms_ExceptOpen
