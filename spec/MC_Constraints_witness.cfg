SPECIFICATION Spec
CONSTANTS
  MaxCons = 3
  Bounds = {0, 3}
  Steps = {2, 3}
  Vals <- ValsQ
INVARIANT W_StrictAccepts
INVARIANT W_StrictRejects
INVARIANT W_LaxChanges
INVARIANT W_LaxThenStrictRejects
