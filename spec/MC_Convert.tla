----------------------------- MODULE MC_Convert -----------------------------
(***************************************************************************)
(* C12 on the model: the converters as transcribed (Convert!ToInt, ToFloat,  *)
(* ToBool, ToNull, ToStrOk) keep the promises of the two flags for every      *)
(* abstract source of the universe below x every target x the four flag sets. *)
(* Sources: None, booleans, integers, floats, Decimals with their exponent,   *)
(* texts and bytes described by the facts the converters look at (numeric      *)
(* literal and its exact value / exponent, boolean / null word, undecodable),  *)
(* and collections of up to two such elements.                                *)
(***************************************************************************)
EXTENDS UniConvert
VARIABLES src, tgt, ne, ndl
Init == src \in Sources /\ tgt \in MTargets /\ ne \in BOOLEAN /\ ndl \in BOOLEAN
Next == UNCHANGED <<src, tgt, ne, ndl>>
Spec == Init /\ [][Next]_<<src, tgt, ne, ndl>>
X == src.x
FX == src.fx
Ok(a, b) == MConvOk(X, FX, tgt, a, b)
Num(a, b) == MConvNum(X, FX, tgt, a, b)
\* (1) the flags only restrict
M_Restrict == Ok(ne, ndl) => Ok(FALSE, FALSE) /\ (tgt # "str" => Num(ne, ndl).n * Num(FALSE, FALSE).d = Num(FALSE, FALSE).n * Num(ne, ndl).d)
\* (2) no_data_loss
ExactKnown == Numeric(X) \/ (Textual(X) /\ FX.numlit)
EN == IF Numeric(X) THEN X.n ELSE FX.n
ED == IF Numeric(X) THEN X.d ELSE FX.d
M_NoLossInt == (ndl /\ tgt = "int" /\ Ok(ne, ndl) /\ ExactKnown /\ X.k # "bool") => EN % ED = 0 /\ Num(ne, ndl).n * ED = EN
M_NoLossBool == (ndl /\ tgt = "bool" /\ Ok(ne, ndl)) =>
                   X.k = "bool" \/ (Numeric(X) /\ (X.n = 0 \/ X.n = X.d)) \/ (Textual(X) /\ FX.word \in {"true", "false"})
M_NoCollapse == (ndl /\ Container(X) /\ Len(X.items) > 1) => ~Ok(ne, ndl)
M_StrictBytes == (ndl /\ X.k = "bytes" /\ FX.badutf8) => ~Ok(ne, ndl)
\* (3) no_explicit_cast stays inside the primitive group of the target
TGroup == CASE tgt = "int" -> "number" [] tgt = "float" -> "number" [] tgt = "bool" -> "boolean" [] tgt = "none" -> "null" [] OTHER -> "string"
M_Group == (ne /\ Ok(ne, ndl)) => TGroup \in Groups(X)
\* vacuity witnesses: each of these must be REFUTED (the antecedent of the invariant above it is reachable)
W_Restrict == ~(Ok(ne, ndl) /\ (ne \/ ndl))
W_NoLossInt == ~(ndl /\ tgt = "int" /\ Ok(ne, ndl) /\ ExactKnown /\ X.k # "bool")
W_NoLossIntRejects == ~(ndl /\ tgt = "int" /\ ~Ok(ne, ndl) /\ Ok(ne, FALSE) /\ ExactKnown)
W_NoLossBool == ~(ndl /\ tgt = "bool" /\ Ok(ne, ndl) /\ X.k # "bool")
W_NoLossBoolRejects == ~(ndl /\ tgt = "bool" /\ ~Ok(ne, ndl) /\ Ok(ne, FALSE))
W_NoCollapse == ~(ndl /\ Container(X) /\ Len(X.items) > 1 /\ Ok(ne, FALSE))
W_StrictBytes == ~(ndl /\ X.k = "bytes" /\ FX.badutf8 /\ Ok(ne, FALSE))
W_Group == ~(ne /\ Ok(ne, ndl) /\ X.t[1] # tgt)
W_GroupRejects == ~(ne /\ ~Ok(ne, ndl) /\ Ok(FALSE, ndl))
=============================================================================
