----------------------------- MODULE MC_Convert -----------------------------
(***************************************************************************)
(* C12 on the model: the converters as transcribed (Convert!ToInt, ToFloat,  *)
(* ToBool, ToNull, ToStrOk) keep the promises of the two flags for every      *)
(* abstract source of the universe below x every target x the four flag sets. *)
(* Sources: None, booleans, integers, floats, Decimals with their exponent,   *)
(* texts and bytes described by the facts the converters look at (numeric      *)
(* literal and its exact value / exponent, boolean / null word, undecodable),  *)
(* and collections of up to two such elements.                                *)
(***************************************************************************)
EXTENDS Convert
Mk(k, t, n, d, s, ln, items, dg, ex) == [k |-> k, t |-> <<t, "object">>, n |-> n, d |-> d, s |-> s, ln |-> ln, items |-> items, ks |-> <<>>, dg |-> dg, ex |-> ex]
FX0 == [numlit |-> FALSE, n |-> 0, d |-> 1, ex |-> 0, word |-> "", badutf8 |-> FALSE, empty |-> FALSE, hastime |-> FALSE, extra |-> FALSE, items |-> <<>>]
Src(x, fx) == [x |-> x, fx |-> fx]
Scalars ==
  {Src(Mk("none", "NoneType", 0, 1, "", 4, <<>>, <<>>, 0), FX0)} \cup
  {Src(Mk("bool", "bool", b, 1, "", 4, <<>>, <<>>, 0), FX0) : b \in {0, 1}} \cup
  {Src(Mk("int", "int", n, 1, "", 1, <<>>, <<>>, 0), FX0) : n \in {-3, 0, 1, 2}} \cup
  {Src(Mk("float", "float", q[1], q[2], "", 3, <<>>, <<>>, 0), FX0) : q \in {<<0, 1>>, <<1, 1>>, <<5, 2>>, <<-1, 4>>, <<3, 1>>}} \cup
  {Src(Mk("dec", "Decimal", q[1], q[2], "", 3, <<>>, q[3], q[4]), FX0) :
      q \in {<<3, 1, <<3>>, 0>>, <<3, 1, <<3, 0>>, -1>>, <<5, 2, <<2, 5, 0>>, -2>>, <<0, 1, <<0>>, 0>>, <<100, 1, <<1>>, 2>>, <<1, 1, <<1>>, 0>>}}
\* texts: <<text, length, numlit, n, d, ex, word>>
TextRows == {<<"", 0, FALSE, 0, 1, 0, "">>, <<"0", 1, TRUE, 0, 1, 0, "false">>, <<"1", 1, TRUE, 1, 1, 0, "true">>, <<"7", 1, TRUE, 7, 1, 0, "">>,
             <<"2.5", 3, TRUE, 5, 2, -1, "">>, <<"3.0", 3, TRUE, 3, 1, -1, "">>, <<"1e2", 3, TRUE, 100, 1, 2, "">>, <<"true", 4, FALSE, 0, 1, 0, "true">>,
             <<"no", 2, FALSE, 0, 1, 0, "false">>, <<"null", 4, FALSE, 0, 1, 0, "null">>, <<"abc", 3, FALSE, 0, 1, 0, "">>}
TextFx(r, bad) == [FX0 EXCEPT !.numlit = r[3], !.n = r[4], !.d = r[5], !.ex = r[6], !.word = r[7], !.badutf8 = bad, !.empty = (r[2] = 0 \/ bad)]
Texts == {Src(Mk("str", "str", 0, 1, r[1], r[2], <<>>, <<>>, 0), TextFx(r, FALSE)) : r \in TextRows} \cup
         {Src(Mk("bytes", "bytes", 0, 1, r[1], r[2], <<>>, <<>>, 0), TextFx(r, FALSE)) : r \in TextRows} \cup
         {Src(Mk("bytes", "bytes", 0, 1, "\\xff", 1, <<>>, <<>>, 0), TextFx(<<"", 1, FALSE, 0, 1, 0, "">>, TRUE))}
Elems == {s \in Scalars \cup Texts : s.x.k \in {"none", "int", "str"} /\ s.x.s \in {"", "7", "abc"} /\ s.x.n \in {0, 1}}
Colls == {Src(Mk(k, k, 0, 1, "", 0, <<>>, <<>>, 0), [FX0 EXCEPT !.items = <<>>]) : k \in {"list", "tuple", "set"}} \cup
         {Src(Mk(k, k, 0, 1, "", 1, <<e.x>>, <<>>, 0), [FX0 EXCEPT !.items = <<e.fx>>]) : k \in {"list", "tuple", "set"}, e \in Elems} \cup
         {Src(Mk(k, k, 0, 1, "", 2, <<e.x, f.x>>, <<>>, 0), [FX0 EXCEPT !.items = <<e.fx, f.fx>>]) : k \in {"list", "tuple"}, e \in Elems, f \in Elems}
Sources == Scalars \cup Texts \cup Colls

VARIABLES src, tgt, ne, ndl
Init == src \in Sources /\ tgt \in MTargets /\ ne \in BOOLEAN /\ ndl \in BOOLEAN
Next == UNCHANGED <<src, tgt, ne, ndl>>
Spec == Init /\ [][Next]_<<src, tgt, ne, ndl>>
X == src.x
FX == src.fx
Ok(a, b) == MConvOk(X, FX, tgt, a, b)
Num(a, b) == MConvNum(X, FX, tgt, a, b)
\* (1) the flags only restrict
M_Restrict == Ok(ne, ndl) => Ok(FALSE, FALSE) /\ (tgt # "str" => Num(ne, ndl).n * Num(FALSE, FALSE).d = Num(FALSE, FALSE).n * Num(ne, ndl).d)
\* (2) no_data_loss
ExactKnown == Numeric(X) \/ (Textual(X) /\ FX.numlit)
EN == IF Numeric(X) THEN X.n ELSE FX.n
ED == IF Numeric(X) THEN X.d ELSE FX.d
M_NoLossInt == (ndl /\ tgt = "int" /\ Ok(ne, ndl) /\ ExactKnown /\ X.k # "bool") => EN % ED = 0 /\ Num(ne, ndl).n * ED = EN
M_NoLossBool == (ndl /\ tgt = "bool" /\ Ok(ne, ndl)) =>
                   X.k = "bool" \/ (Numeric(X) /\ (X.n = 0 \/ X.n = X.d)) \/ (Textual(X) /\ FX.word \in {"true", "false"})
M_NoCollapse == (ndl /\ Container(X) /\ Len(X.items) > 1) => ~Ok(ne, ndl)
M_StrictBytes == (ndl /\ X.k = "bytes" /\ FX.badutf8) => ~Ok(ne, ndl)
\* (3) no_explicit_cast stays inside the primitive group of the target
TGroup == CASE tgt = "int" -> "number" [] tgt = "float" -> "number" [] tgt = "bool" -> "boolean" [] tgt = "none" -> "null" [] OTHER -> "string"
M_Group == (ne /\ Ok(ne, ndl)) => TGroup \in Groups(X)
\* vacuity witnesses: each of these must be REFUTED (the antecedent of the invariant above it is reachable)
W_Restrict == ~(Ok(ne, ndl) /\ (ne \/ ndl))
W_NoLossInt == ~(ndl /\ tgt = "int" /\ Ok(ne, ndl) /\ ExactKnown /\ X.k # "bool")
W_NoLossIntRejects == ~(ndl /\ tgt = "int" /\ ~Ok(ne, ndl) /\ Ok(ne, FALSE) /\ ExactKnown)
W_NoLossBool == ~(ndl /\ tgt = "bool" /\ Ok(ne, ndl) /\ X.k # "bool")
W_NoLossBoolRejects == ~(ndl /\ tgt = "bool" /\ ~Ok(ne, ndl) /\ Ok(ne, FALSE))
W_NoCollapse == ~(ndl /\ Container(X) /\ Len(X.items) > 1 /\ Ok(ne, FALSE))
W_StrictBytes == ~(ndl /\ X.k = "bytes" /\ FX.badutf8 /\ Ok(ne, FALSE))
W_Group == ~(ne /\ Ok(ne, ndl) /\ X.t[1] # tgt)
W_GroupRejects == ~(ne /\ ~Ok(ne, ndl) /\ Ok(FALSE, ndl))
=============================================================================
