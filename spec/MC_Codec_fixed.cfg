SPECIFICATION Spec
CONSTANTS
  EnumLookup = "value-first"
  Variant = "fixed"
INVARIANT P_ShapeRoundTrips
