SPECIFICATION Spec
CONSTANTS
  Variant = "fixed"
INVARIANT P_ShapeRoundTrips
