SPECIFICATION TSpec
CONSTRAINT JudgeM
