SPECIFICATION ESpec
CONSTANTS
  Variant = "fixed"
