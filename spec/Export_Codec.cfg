SPECIFICATION ESpec
CONSTANTS
  EnumLookup = "value-first"
  Variant = "fixed"
