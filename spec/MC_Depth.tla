------------------------------- MODULE MC_Depth -------------------------------
(* chains of nested nodes: each link is a (class?, falsy route?) choice; M |= P_Exact for every chain and limit *)
EXTENDS Depth
VARIABLES links, d
Links == [cls : BOOLEAN, falsy : BOOLEAN]
Init == links \in UNION {[1..n -> Links] : n \in 1..4} /\ d \in 0..4
Next == UNCHANGED <<links, d>>
Spec == Init /\ [][Next]_<<links, d>>
RECURSIVE Chain(_)
Chain(i) == [cls |-> links[i].cls, cyc |-> FALSE, falsy |-> links[i].falsy,
             kids |-> IF i = Len(links) THEN <<>> ELSE <<Chain(i + 1)>>]
Tree == [Chain(1) EXCEPT !.cls = TRUE, !.falsy = FALSE]              \* the top level is a data class reached without a route
P_M == P_Exact(Tree, d, MOk(Tree, d))
=============================================================================
