SPECIFICATION Spec
CONSTANTS
  Variant = "fixed"
  ClassName = "D1"
  MaxOps = 2
CONSTRAINT MJudge
