SPECIFICATION Spec
CONSTANTS
  ClassName = "D1"
  MaxOps = 2
CONSTRAINT MJudge
