----------------------------- MODULE UniConvert -----------------------------
(* The abstract sources of the conversion models (no variables: shared by MC_Convert and MC_Pipeline). *)
EXTENDS Convert
Mk(k, t, n, d, s, ln, items, dg, ex) == [k |-> k, t |-> <<t, "object">>, n |-> n, d |-> d, s |-> s, ln |-> ln, items |-> items, ks |-> <<>>, dg |-> dg, ex |-> ex]
FX0 == [numlit |-> FALSE, n |-> 0, d |-> 1, ex |-> 0, word |-> "", badutf8 |-> FALSE, empty |-> FALSE, hastime |-> FALSE, extra |-> FALSE, items |-> <<>>]
Src(x, fx) == [x |-> x, fx |-> fx]
Scalars ==
  {Src(Mk("none", "NoneType", 0, 1, "", 4, <<>>, <<>>, 0), FX0)} \cup
  {Src(Mk("bool", "bool", b, 1, "", 4, <<>>, <<>>, 0), FX0) : b \in {0, 1}} \cup
  {Src(Mk("int", "int", n, 1, "", 1, <<>>, <<>>, 0), FX0) : n \in {-3, 0, 1, 2}} \cup
  {Src(Mk("float", "float", q[1], q[2], "", 3, <<>>, <<>>, 0), FX0) : q \in {<<0, 1>>, <<1, 1>>, <<5, 2>>, <<-1, 4>>, <<3, 1>>}} \cup
  {Src(Mk("dec", "Decimal", q[1], q[2], "", 3, <<>>, q[3], q[4]), FX0) :
      q \in {<<3, 1, <<3>>, 0>>, <<3, 1, <<3, 0>>, -1>>, <<5, 2, <<2, 5, 0>>, -2>>, <<0, 1, <<0>>, 0>>, <<100, 1, <<1>>, 2>>, <<1, 1, <<1>>, 0>>}}
\* texts: <<text, length, numlit, n, d, ex, word>>
TextRows == {<<"", 0, FALSE, 0, 1, 0, "">>, <<"0", 1, TRUE, 0, 1, 0, "false">>, <<"1", 1, TRUE, 1, 1, 0, "true">>, <<"7", 1, TRUE, 7, 1, 0, "">>,
             <<"2.5", 3, TRUE, 5, 2, -1, "">>, <<"3.0", 3, TRUE, 3, 1, -1, "">>, <<"1e2", 3, TRUE, 100, 1, 2, "">>, <<"true", 4, FALSE, 0, 1, 0, "true">>,
             <<"no", 2, FALSE, 0, 1, 0, "false">>, <<"null", 4, FALSE, 0, 1, 0, "null">>, <<"abc", 3, FALSE, 0, 1, 0, "">>}
TextFx(r, bad) == [FX0 EXCEPT !.numlit = r[3], !.n = r[4], !.d = r[5], !.ex = r[6], !.word = r[7], !.badutf8 = bad, !.empty = (r[2] = 0 \/ bad)]
Texts == {Src(Mk("str", "str", 0, 1, r[1], r[2], <<>>, <<>>, 0), TextFx(r, FALSE)) : r \in TextRows} \cup
         {Src(Mk("bytes", "bytes", 0, 1, r[1], r[2], <<>>, <<>>, 0), TextFx(r, FALSE)) : r \in TextRows} \cup
         {Src(Mk("bytes", "bytes", 0, 1, "\\xff", 1, <<>>, <<>>, 0), TextFx(<<"", 1, FALSE, 0, 1, 0, "">>, TRUE))} \cup
         \* undecodable bytes whose lenient decoding is one of the texts above ("\\xff" + text): the facts describe the decoded text
         {Src(Mk("bytes", "bytes", 0, 1, "\\xff" \o r[1], r[2] + 1, <<>>, <<>>, 0), [TextFx(r, TRUE) EXCEPT !.empty = (r[2] = 0)]) : r \in {q \in TextRows : q[2] > 0}}
Elems == {s \in Scalars \cup Texts : s.x.k \in {"none", "int", "str"} /\ s.x.s \in {"", "7", "abc"} /\ s.x.n \in {0, 1}}
Colls == {Src(Mk(k, k, 0, 1, "", 0, <<>>, <<>>, 0), [FX0 EXCEPT !.items = <<>>]) : k \in {"list", "tuple", "set"}} \cup
         {Src(Mk(k, k, 0, 1, "", 1, <<e.x>>, <<>>, 0), [FX0 EXCEPT !.items = <<e.fx>>]) : k \in {"list", "tuple", "set"}, e \in Elems} \cup
         {Src(Mk(k, k, 0, 1, "", 2, <<e.x, f.x>>, <<>>, 0), [FX0 EXCEPT !.items = <<e.fx, f.fx>>]) : k \in {"list", "tuple"}, e \in Elems, f \in Elems}
Sources == Scalars \cup Texts \cup Colls
=============================================================================
