------------------------------ MODULE Trace_Conc ------------------------------
(* Trace validation for C20.  One record per scheduled run on real threads: the labelled statements executed     *)
(* (thread, label, object), the outcome of every racing call, of the same call made alone, and of a call made     *)
(* after the race.  P (verdict): every call ended like the call made alone; the call after the race too; every    *)
(* thread finished.  M (divergence): per thread and object the label sequence is a path of the control flow of    *)
(* ConcRefs / ConcRegistry refined to source lines.                                                               *)
EXTENDS Naturals, Sequences, FiniteSets, TLC, Json, IOUtils
Tr == ndJsonDeserialize(IOEnv.TRACE_FILE)
VARIABLE tid
TInit == tid \in 1..Len(Tr)
TSpec == TInit /\ [][UNCHANGED tid]_tid

Same(a, b) == /\ a.ok = b.ok
              /\ (a.ok => (b.v = "\"ANY\"" /\ a.v \in {"\"f1\"", "\"f2\""}) \/ a.v = b.v)
              /\ (~a.ok => a.exc = b.exc)
P_AsAlone(x) == \A i \in 1..Len(x.results) : Same(x.results[i], x.alone[i])
P_PostAsAlone(x) == Same(x.post, x.postAlone)
Clause(x) == IF ~x.finished THEN "Finished" ELSE IF ~P_AsAlone(x) THEN "AsAlone"
             ELSE IF ~P_PostAsAlone(x) THEN "PostAsAlone" ELSE "none"
JudgeP == Clause(Tr[tid]) = "none" \/ PrintT(<<"VIOL", Tr[tid].id, Clause(Tr[tid])>>)

\* control flow of BaseParser.resolve_forward_refs and TypeRegistry.resolve/register at source-line granularity
Succ(a) ==
  CASE a = "Check"    -> {"Snapshot", "Check", "Acquire"}
    [] a = "Acquire"  -> {"Check", "Acquire"}                  \* the with-line is visited on entry and on exit
    [] a = "Snapshot" -> {"Lookup", "UpdField", "UpdAdd", "ClearLocal", "PopLoop", "Check", "Acquire"}
    [] a = "Lookup"   -> {"Eval", "Snapshot"}
    [] a = "Eval"     -> {"Annot", "Mark", "Pop", "Snapshot"}
    [] a = "Annot"    -> {"Annot", "Mark", "Pop", "Snapshot"}
    [] a = "Mark"     -> {"Snapshot"}
    [] a = "Pop"      -> {"Snapshot", "PopLoop"}
    [] a = "UpdField" -> {"UpdField", "UpdAdd"}
    [] a = "UpdAdd"   -> {"ClearLocal", "PopLoop", "Check", "Acquire"}
    [] a = "ClearLocal" -> {"ClearLocal", "PopLoop", "Check", "Acquire"}
    [] a = "PopLoop"  -> {"Pop", "Check", "Acquire"}
    [] a = "Convert"  -> {"Convert"}
    [] a = "Snap"     -> {"CacheChk"}
    [] a = "CacheChk" -> {"CacheRead", "Scan", "Snap", "Replace"}
    [] a = "CacheRead" -> {"Snap", "Replace"}
    [] a = "Scan"     -> {"Detect", "Snap", "Replace"}
    [] a = "Detect"   -> {"Fill", "Scan", "Snap", "Replace"}
    [] a = "Fill"     -> {"Snap", "Replace"}
    [] a = "Replace"  -> {"Replace", "Clear"}
    [] a = "Clear"    -> {"Snap", "Replace"}
    [] OTHER -> {}
Proj(x, th, obj) == SelectSeq(x.steps, LAMBDA s : s.th = th /\ s.obj = obj)
PathOk(q) == \A k \in 1..(Len(q) - 1) : q[k + 1].lab \in Succ(q[k].lab)
Explained(x) == \A k \in 1..Len(x.steps) : PathOk(Proj(x, x.steps[k].th, x.steps[k].obj))
JudgeM == Explained(Tr[tid]) \/ PrintT(<<"DIV", Tr[tid].id, "path">>)
=============================================================================
