--------------------------- MODULE Trace_SchemaParse ---------------------------
(* C15: building a type from a schema succeeds (P_Builds) and every value the built type returns under strict options      *)
(* validates against the source schema (P_Sound, JsonSchema!Val).                                                         *)
EXTENDS JsonSchema, Json, IOUtils
Tr == ndJsonDeserialize(IOEnv.TRACE_FILE)
VARIABLE tid
TInit == tid \in 1..Len(Tr)
TSpec == TInit /\ [][UNCHANGED tid]_tid
R == Tr[tid]
P_Builds(r) == r.kind = "build" => r.built
P_Sound(r) == r.kind = "value" => Val(r.v, r.schema, r.pm)
Clause == IF ~P_Builds(R) THEN "Builds" ELSE IF ~P_Sound(R) THEN "Sound" ELSE "none"
JudgeP == Clause = "none" \/ PrintT(<<"VIOL", R.id, Clause>>)
=============================================================================
