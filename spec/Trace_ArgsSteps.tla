---------------------------- MODULE Trace_ArgsSteps ----------------------------
(* Trace validation proper for the element loops of rule.py: the driver logs (sys.settrace) the result list / mapping built so far at every    *)
(* visit of the loop head of _parse_seq_args / _parse_map_args; snapshot l must be ArgsLoops after l - 1 element steps (SeqStep / MapStep).   *)
EXTENDS ArgsLoops, Json, IOUtils
Tr == ndJsonDeserialize(IOEnv.TRACE_FILE)
VARIABLES tid, l
TInit == tid \in 1..Len(Tr) /\ l = 1 /\ ac = 0 /\ lp = 0
TNext == l < Len(Tr[tid].steps) /\ l' = l + 1 /\ UNCHANGED <<tid, ac, lp>>
TSpec == TInit /\ [][TNext]_<<tid, l, ac, lp>>
R == Tr[tid]
RECURSIVE LIter(_, _, _)
LIter(c, st, k) == IF k = 0 THEN st ELSE LIter(c, StepL(c, st), k - 1)
ModelAt == LIter(R.c, L0, l - 1)
\* the code raises at the first offending element under 'throw': compared up to there
Same(st, s) == st.failed \/ (SameSeq(st.vals, s.vals) /\ (R.c.shape = "map" => SameSeq(st.keys, s.keys)))
JudgeStep == Same(ModelAt, R.steps[l]) \/ PrintT(<<"DIV", R.id, l>>)
=============================================================================
