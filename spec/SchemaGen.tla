------------------------------ MODULE SchemaGen ------------------------------
(***************************************************************************)
(* C13 -- the generated JSON Schema is valid and describes what the parser   *)
(* does.  P-layer over a generated document and the probed behaviour of the  *)
(* parser (utype/specs/json_schema/generator.py against base.py / field.py). *)
(***************************************************************************)
EXTENDS JsonSchema
ToSet(s) == {s[x] : x \in 1..Len(s)}
Keys(o) == IF o.j = "obj" THEN ToSet(o.ks) ELSE {}
Props(doc) == IF Has(doc, "properties") THEN Keys(Get(doc, "properties")) ELSE {}
Req(doc) == IF Has(doc, "required") THEN {Get(doc, "required").a[x].s : x \in 1..Len(Get(doc, "required").a)} ELSE {}
\* record r = [kind, view, doc, accepted, required, fate, probed (every probe of the parser concluded), v, pm]
P_WellFormed(r) == IsJson(r.doc) /\ WF(r.doc)
\* the listed properties are exactly the names accepted as input
P_Properties(r) == (r.kind = "doc" /\ r.view = "input" /\ r.probed) => Props(r.doc) = ToSet(r.accepted)
\* required lists exactly the fields whose absence is an error
P_Required(r) == (r.kind = "doc" /\ r.view = "input") => Req(r.doc) = ToSet(r.required)
\* additionalProperties reflects whether unknown keys are rejected, kept or converted
P_Additional(r) ==
  (r.kind = "doc" /\ r.view = "input" /\ r.fate # "unknown") =>
    CASE r.fate = "rejected"  -> Has(r.doc, "additionalProperties") /\ Get(r.doc, "additionalProperties").j = "bool" /\ ~Get(r.doc, "additionalProperties").b
      [] r.fate = "converted" -> Has(r.doc, "additionalProperties") /\ Get(r.doc, "additionalProperties").j = "obj"
      [] OTHER -> ~Has(r.doc, "additionalProperties") \/ (Get(r.doc, "additionalProperties").j = "bool" /\ Get(r.doc, "additionalProperties").b)
\* every value the parser produces validates against the output schema after JSON encoding
P_OutputValidates(r) == r.kind = "out" => Val(r.v, r.doc, r.pm)
=============================================================================
