SPECIFICATION TSpec
CONSTRAINT JudgeP
CONSTRAINT JudgeMC
CONSTRAINT JudgeM
CONSTRAINT JudgeU
