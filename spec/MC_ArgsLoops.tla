---------------------------- MODULE MC_ArgsLoops ----------------------------
(* every sequence / set / mapping of up to three elements, each valid or offending in its key and / or value, under every combination of the
   key and value policies; the values stand for what conversion alone makes of them *)
EXTENDS ArgsLoops
Raw(n) == [k |-> "str", t |-> <<"str", "object">>, n |-> 0, d |-> 1, s |-> "x", ln |-> n, items |-> <<>>, ks |-> <<>>, dg |-> <<>>, ex |-> 0]
Cv(n) == [k |-> "int", t |-> <<"int", "object">>, n |-> n, d |-> 1, s |-> "", ln |-> 1, items |-> <<>>, ks |-> <<>>, dg |-> <<n>>, ex |-> 0]
Pol == {"throw", "exclude", "preserve"}
Ent(i, koff, voff, kp, vp) == [rawk |-> Raw(i), rawv |-> Raw(10 + i), ck |-> Cv(i), cv |-> Cv(20 + i), koff |-> koff, voff |-> voff, kpol |-> kp, pol |-> vp, req |-> FALSE]
Cases == UNION {{[shape |-> sh, indexable |-> TRUE, anyexclude |-> FALSE,
                  entries |-> [i \in 1..n |-> Ent(i, sh = "map" /\ ko[i], vo[i], kp, vp)]] :
                 ko \in [1..n -> BOOLEAN], vo \in [1..n -> BOOLEAN], kp \in Pol, vp \in Pol, sh \in {"seq", "set", "map"}} : n \in 0..3}
Init == ac \in Cases /\ lp = L0
Spec == Init /\ [][LNext]_<<ac, lp>> /\ WF_<<ac, lp>>(LNext)
Termination == <>lp.done
W_Excluded == ~(lp.done /\ ~lp.failed /\ Len(lp.vals) < Len(ac.entries))
W_Preserved == ~(lp.done /\ ~lp.failed /\ \E x \in 1..Len(lp.vals) : lp.vals[x].k = "str")
W_Raised == ~(lp.done /\ lp.failed)
=============================================================================
