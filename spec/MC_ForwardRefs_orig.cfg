SPECIFICATION MCSpec
CONSTANTS
  FixReturn = TRUE
  FixOrigin = TRUE
  Inherit = TRUE
  Variant = "orig"
CONSTRAINT MRefute
