SPECIFICATION MCSpec
CONSTANTS
  Variant = "orig"
INVARIANT P_Model
