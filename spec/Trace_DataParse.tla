---------------------------- MODULE Trace_DataParse ----------------------------
(* One state per (declaration, options, input) with the outcome under both strategies.                     *)
(*   C05: each outcome is Admissible (documented field contract)   C06: the two outcomes are the same       *)
EXTENDS DataParse, Json, IOUtils
Tr == ndJsonDeserialize(IOEnv.TRACE_FILE)
VARIABLE tid
TInit == tid \in 1..Len(Tr)
TSpec == TInit /\ [][UNCHANGED tid]_tid
R == Tr[tid]
JudgeC05 == /\ (Admissible(R.d, R.o, R.x, R.ffs) \/ PrintT(<<"VIOL", R.id, WhyNot(R.d, R.o, R.x, R.ffs), "field-first">>))
            /\ (Admissible(R.d, R.o, R.x, R.dfs) \/ PrintT(<<"VIOL", R.id, WhyNot(R.d, R.o, R.x, R.dfs), "data-first">>))
JudgeC06 == SameOutcome(R.ffs, R.dfs) \/ PrintT(<<"VIOL", R.id, IF R.ffs.ok # R.dfs.ok THEN "verdict-differs" ELSE IF R.ffs.ok THEN "data-differs" ELSE "error-kind-differs">>)
=============================================================================
