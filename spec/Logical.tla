------------------------------- MODULE Logical -------------------------------
(***************************************************************************)
(* C09 -- utype/parser/rule.py  LogicalType.logical_parse (|, ^, ~, &),      *)
(* LogicalType.combine / combine_by / __invert__ (construction algebra).    *)
(*                                                                         *)
(* A case records, for combinator arguments 1..n and input x, independent   *)
(* observations of every argument alone:                                    *)
(*   exact[i]            type(x) == args[i]                                  *)
(*   strict/noloss[i]    result of args[i] on x under the two stricter        *)
(*                       option sets the union stages use                     *)
(*   tab[i][1]           result of args[i] on x (default options)            *)
(*   tab[i][j+1]         result of args[i] on the value args[j] made of x    *)
(* results are [ok, v].  M-layer: the four branches as coded, evaluated on    *)
(* those tables.  P-layer: what the combinators mean.                        *)
(***************************************************************************)
EXTENDS Values
Fail(x) == [ok |-> FALSE, v |-> x]
Okv(v) == [ok |-> TRUE, v |-> v]
FirstOf(S) == CHOOSE i \in S : \A j \in S : i <= j
N(c) == Len(c.tab)

(* ---- M: logical_parse as coded ------------------------------------------ *)
UnionM(c) ==
  LET ex == {i \in 1..N(c) : c.exact[i]}
      s2 == {i \in 1..N(c) : c.strict[i].ok}
      s3 == {i \in 1..N(c) : c.noloss[i].ok}
      s4 == {i \in 1..N(c) : c.tab[i][1].ok} IN
  IF ex # {} THEN Okv(c.x)                                   \* 1. exact identical type
  ELSE IF s2 # {} THEN c.strict[FirstOf(s2)]                 \* 2. strict mode, first argument that converts
  ELSE IF s3 # {} THEN c.noloss[FirstOf(s3)]                 \* 3. no data loss
  ELSE IF s4 # {} THEN c.tab[FirstOf(s4)][1]                 \* 4. common mode
  ELSE Fail(c.x)
\* ^ : the running value is threaded into the following arguments; a second success is an error
RECURSIVE XorLoop(_, _, _, _)
XorLoop(c, i, k, hit) ==          \* k: index of the running candidate (1 = x, j+1 = what args[j] made of x)
  IF i > N(c) THEN (IF hit = 0 THEN Fail(c.x) ELSE c.tab[hit][1])
  ELSE LET r == c.tab[i][k] IN
       IF ~r.ok THEN XorLoop(c, i + 1, k, hit)
       ELSE IF hit = 0 THEN XorLoop(c, i + 1, i + 1, i)
       ELSE Fail(c.x)
XorM(c) == IF \E i \in 1..N(c) : c.exact[i] THEN Okv(c.x) ELSE XorLoop(c, 1, 1, 0)
NotM(c) == IF c.tab[1][1].ok THEN Fail(c.x) ELSE Okv(c.x)
AndM(c) == c.chain                                       \* each conversion is handed on to the next argument
Model(c) == CASE c.op = "union" -> UnionM(c) [] c.op = "xor" -> XorM(c) [] c.op = "not" -> NotM(c) [] OTHER -> AndM(c)

(* ---- P: what the combinators mean ------------------------------------------ *)
Acc(c) == {i \in 1..N(c) : c.tab[i][1].ok}
\* Conf(v, i): v conforms to argument i
P_Union(c, r, Conf(_, _)) ==
  LET ex == {i \in 1..N(c) : c.exact[i]} IN
  /\ (Cardinality(ex) = 1 => r.ok /\ SameValue(r.v, c.x))                \* a value of exactly one argument type: unchanged
  /\ (ex = {} => (r.ok <=> Acc(c) # {}) /\ (r.ok => \E i \in Acc(c) : Conf(r.v, i)))
P_Xor(c, r) == r.ok <=> Cardinality(Acc(c)) = 1
P_XorOrder(c, r) == \A p \in 1..Len(c.perms) : c.perms[p] = r.ok         \* every argument order gives the same verdict
P_Not(c, r) == (r.ok <=> ~c.tab[1][1].ok) /\ (r.ok => SameValue(r.v, c.x))
P_And(c, r) == r.ok = c.chain.ok /\ (r.ok => PyEq(r.v, c.chain.v))
=============================================================================
