SPECIFICATION SSpec
CONSTANTS
  Variant = "fixed"
INVARIANT W_Accepts
INVARIANT W_RejectsRequired
INVARIANT W_RejectsExtra
INVARIANT W_RejectsDependent
