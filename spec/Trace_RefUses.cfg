SPECIFICATION TSpec
CONSTRAINT JudgeP
