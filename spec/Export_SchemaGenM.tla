-------------------------- MODULE Export_SchemaGenM --------------------------
EXTENDS MC_SchemaGenM
ASSUME Export
ESpec == nm = 0 /\ cs = 0 /\ m = 0 /\ outs = 0 /\ [][UNCHANGED <<nm, vars>>]_<<nm, vars>>
=============================================================================
