SPECIFICATION Spec
CONSTANTS
  Variant = "orig"
  ClassName = "S1"
  MaxOps = 2
CONSTRAINT MJudge
