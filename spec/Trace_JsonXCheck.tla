--------------------------- MODULE Trace_JsonXCheck ---------------------------
(* cross-check of the TLA+ validator: prints its verdict for every (schema, instance) pair of the file *)
EXTENDS JsonSchema, Json, IOUtils
Tr == ndJsonDeserialize(IOEnv.TRACE_FILE)
VARIABLE tid
TInit == tid \in 1..Len(Tr)
TSpec == TInit /\ [][UNCHANGED tid]_tid
R == Tr[tid]
Report == PrintT(<<"VAL", R.id, Val(R.v, R.s, R.pm), WF(R.s)>>)
=============================================================================
