SPECIFICATION Spec
INVARIANT M_OverrideWins
INVARIANT M_OwnOptionsOtherwise
