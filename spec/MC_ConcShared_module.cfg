SPECIFICATION Spec
CONSTANTS
  Local = FALSE
  LockMode = "sharedlocal"
  ClearAll = FALSE
INVARIANT P_AsAlone
PROPERTY Termination
