SPECIFICATION Spec
CONSTANTS
  Threads = {1, 2}
  Names = {"b", "n"}
  Cons = {"n"}
  Local = TRUE
  Variant = "locked"
INVARIANT P_AsAlone
INVARIANT P_LockFree
