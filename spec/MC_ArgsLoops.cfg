SPECIFICATION Spec
CONSTANTS
  Variant = "fixed"
INVARIANT M_Elementwise
PROPERTY Termination
