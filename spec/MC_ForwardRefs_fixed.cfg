SPECIFICATION MCSpec
CONSTANTS
  Variant = "fixed"
INVARIANT P_Model
