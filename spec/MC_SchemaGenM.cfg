SPECIFICATION GSpec
CONSTANTS
  Variant = "fixed"
  ShapeNames = {"req", "def", "opt", "alias", "aliasreq", "ci", "cidef", "noin", "noinreq", "noout", "moder", "modew", "defer"}
  PairShapes = {"alias", "dep", "noin", "moder"}
  MaxSettings = 2
  MaxLen = 2
  MaxLen2 = 1
INVARIANT P_Properties
INVARIANT P_Required
INVARIANT P_Additional
