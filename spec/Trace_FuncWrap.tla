--------------------------- MODULE Trace_FuncWrap ---------------------------
(* Recorded calls of decorated functions (the universe exported by Export_FuncWrap, replayed into the code):                   *)
(*   VIOL   the recorded call violates FuncBind!P_Bind (Python's own binding of the undecorated twin is the reference)          *)
(*   DIV    the outcome FuncWrap!WRun computes for the case differs from what the decorated function did (binding of M)         *)
(*   MVIOL  the TLA+ reference PyBind differs from what Python itself bound                                                    *)
EXTENDS FuncWrap, Json, IOUtils
Tr == ndJsonDeserialize(IOEnv.TRACE_FILE)
VARIABLE tid
TInit == tid \in 1..Len(Tr) /\ fc = 0 /\ w = 0 /\ cs = 0 /\ m = 0 /\ outs = 0
TSpec == TInit /\ [][UNCHANGED <<tid, fc, w, vars>>]_<<tid, fc, w, vars>>
R == Tr[tid]
C == [sig |-> R.sig, call |-> R.call]
SameAsModel(out, r) == out.ok = r.ok /\ out.body = r.body /\ out.parseerror = r.parseerror /\ (out.ok => FB!AsMap(out.got) = FB!AsMap(r.got))
RefAgrees == LET p == PyOf(C) IN
             p.bindable = R.r.py.bindable /\
             (R.r.py.bindable => FB!AsMap(FB!KV(p.binding)) = FB!AsMap(FB!KV(R.r.py.binding)) /\
                                 {<<p.binding[x].k, p.isdefault[x]>> : x \in 1..Len(p.binding)}
                                   = {<<R.r.py.binding[x].k, R.r.py.isdefault[x]>> : x \in 1..Len(R.r.py.binding)})
JudgeAll == /\ (FB!P_Bind(R.sig, R.r) \/ PrintT(<<"VIOL", R.id, FB!WhyNot(R.sig, R.r)>>))
            /\ (~R.r.py.bindable \/ SameAsModel(WRun(C), R.r) \/ PrintT(<<"DIV", R.id>>))
            /\ (RefAgrees \/ PrintT(<<"MVIOL", R.id>>))
=============================================================================
