SPECIFICATION GSpec
CONSTANTS
  Variant = "fixed"
  ShapeNames = {"req", "def", "opt", "alias", "aliasreq", "ci", "cidef", "noin", "noinreq", "noout", "moder", "modew", "defer"}
  PairShapes = {"alias", "dep", "noin", "moder"}
  MaxSettings = 2
  MaxLen = 2
  MaxLen2 = 1
INVARIANT W_NoInputField
INVARIANT W_RequiredField
INVARIANT W_Rejected
INVARIANT W_Converted
