------------------------------ MODULE DataLoops ------------------------------
(***************************************************************************)
(* C05 / C06, M-layer -- the two lookup loops of utype/parser/base.py as     *)
(* coded, one action per loop iteration:                                     *)
(*   Start      parse_data: min_params / max_params                          *)
(*   Fold       field_first_parse: the case-folding pass over the input      *)
(*   FLoop      field_first_parse: one field                                 *)
(*   DLoop      data_first_parse: one input entry                            *)
(*   DPost      data_first_parse: second loop, one field (absence/default)   *)
(*   Deps       the dependency check of either loop                          *)
(*   FAdd       field_first_parse: one entry of the addition pass            *)
(*   Finish     result.update(addition); Schema.__init__: no_output fields   *)
(*              dropped from the mapping, attributes, deferred defaults      *)
(* Errors are collected (collect_errors=True): errs[1] is what a fail-fast    *)
(* run raises, Range(errs) what a collecting run reports.                    *)
(* Variant "orig" is the pinned commit: data-first forgets that a field was   *)
(* provided (31545da), skips defaults under ignore_required (4391986),        *)
(* compares a parsed value with a raw one for alias conflicts (32e38b1);      *)
(* field-first folds letter cases silently and reports alias conflicts       *)
(* inside the alias loop (514fbcc, a54ceb3).                                 *)
(***************************************************************************)
EXTENDS DataParse, SequencesExt
CONSTANT Variant
VARIABLES cs,      \* the case [d, o, x]: declaration, options, input -- constant along a behaviour
          m,       \* the running loop (record below)
          outs     \* outcomes of the strategies finished so far: [ffs, dfs]

Dom(a) == {a[y].k : y \in 1..Len(a)}
OutKey(f) == f.keys[CHOOSE y \in 1..Len(f.keys) : f.keys[y].s = f.out]
\* field.all_aliases: [name, attname, alias_from ...], lower-cased for a case-insensitive field (order matters)
Aliases(f, o) == LET ks == <<OutKey(f)>> \o SelectSeq(f.keys, LAMBDA k : k.s # f.out)
                 IN  [y \in 1..Len(ks) |-> IF CI(f, o) THEN ks[y].low ELSE ks[y].s]
CINames(d, o) == UNION {Range(Aliases(d.fields[j], o)) : j \in {j \in 1..Len(d.fields) : CI(d.fields[j], o)}}
\* BaseParser._get_field_from: exact name / alias, else the lower-cased key if that is a case-insensitive name; 0 = no field
FieldIdx(d, o, key) ==
  LET direct == {j \in 1..Len(d.fields) : key.s \in Range(Aliases(d.fields[j], o))}
      folded == {j \in 1..Len(d.fields) : key.low \in Range(Aliases(d.fields[j], o))}
  IN  IF direct # {} THEN CHOOSE j \in direct : TRUE
      ELSE IF key.s # key.low /\ key.low \in CINames(d, o) /\ folded # {} THEN CHOOSE j \in folded : TRUE ELSE 0
DepNames(d, f) == {d.fields[DepField(d, g)].out : g \in Range(f.deps)}
\* ParserField.parse_value for an int field
ParseValue(f, o, v) == IF "anyty" \in DOMAIN f /\ f.anyty THEN [val |-> v, err |-> FALSE]        \* no annotation: the value as it is
                       ELSE IF ~Fails(v) THEN [val |-> Conv(v), err |-> FALSE]
                       ELSE IF o.exclude THEN [val |-> DefaultOf(f, o), err |-> Required(f, o)]     \* a required field cannot be excluded
                       ELSE [val |-> Unprov, err |-> TRUE]
\* BaseParser.parse_addition (exclude_vars are not modelled)
ParseAddition(o, v) ==
  CASE o.addition = "forbid" -> [keep |-> FALSE, val |-> v, err |-> "exceed"]
    [] o.addition = "none"   -> [keep |-> FALSE, val |-> v, err |-> ""]
    [] o.addition = "any"    -> [keep |-> TRUE, val |-> v, err |-> ""]
    [] OTHER -> IF ~Fails(v) THEN [keep |-> TRUE, val |-> Conv(v), err |-> ""]
                ELSE IF o.exclude THEN [keep |-> FALSE, val |-> v, err |-> ""]
                ELSE [keep |-> TRUE, val |-> v, err |-> "parse"]                                     \* handle_error, then `return value`
Err(mm, kind) == IF kind = "" THEN mm.errs ELSE Append(mm.errs, kind)

M0(strat) == [pc |-> "start", strat |-> strat, i |-> 1, res |-> <<>>, prov |-> {}, pvals |-> <<>>, deps |-> {}, unprov |-> {},
              errs |-> <<>>, add |-> <<>>, fdata |-> <<>>, cconf |-> <<>>, used |-> {}]
NoOut == [ok |-> TRUE, kind |-> "pending", errs |-> <<>>, data |-> {}, attrs |-> {}]
Init(Cases) == cs \in Cases /\ m = M0("ffs") /\ outs = [ffs |-> NoOut, dfs |-> NoOut]

FieldOf(c, j) == c.d.fields[j]
\* as_attname / excluded_keys of parse_data (used by function parsers: FuncWrap); absent in a case = False / none
AsAtt(c) == "asatt" \in DOMAIN c /\ c.asatt
Excl(c) == IF "excl" \in DOMAIN c THEN c.excl ELSE {}
NameOf(c, f) == IF AsAtt(c) THEN f.att ELSE f.out
DepNamesOf(c, f) == IF AsAtt(c) THEN Range(f.deps) ELSE DepNames(c.d, f)
\* every loop iteration is a function of the case c = [d, o, x] and the loop state mm; the actions below apply them to <<cs, m>>

(* ---- parse_data ---------------------------------------------------------------------------------------------------------- *)
StartF(c, mm) ==
  LET e1 == IF c.o.maxp # 0 /\ Len(c.x) > c.o.maxp THEN <<"params">> ELSE <<>>
         e2 == IF c.o.minp # 0 /\ Len(c.x) < c.o.minp THEN <<"params">> ELSE <<>>
     IN [mm EXCEPT !.pc = IF mm.strat = "ffs" THEN "fold" ELSE "dloop", !.errs = e1 \o e2, !.i = 1]
Start == m.pc = "start" /\ m' = StartF(cs, m) /\ UNCHANGED <<cs, outs>>

(* ---- field_first_parse --------------------------------------------------------------------------------------------------- *)
FoldF(c, mm) ==
  IF mm.i > Len(c.x) THEN [mm EXCEPT !.pc = "floop", !.i = 1]
     ELSE LET e == c.x[mm.i]
              lower == e.k.low \in CINames(c.d, c.o)
              k == IF lower THEN e.k.low ELSE e.k.s
          IN IF lower /\ Has(mm.fdata, k) /\ ~c.o.ignore_conflicts /\ Variant = "fixed"
               THEN [mm EXCEPT !.i = @ + 1,                                  \* the same name in two letter cases: first value kept
                                   !.cconf = IF RawNeq(Get(mm.fdata, k), e.v) /\ ~Has(mm.cconf, k) THEN Put(@, k, e.v) ELSE @]
               ELSE [mm EXCEPT !.i = @ + 1, !.fdata = Put(@, k, e.v)]
Fold == m.pc = "fold" /\ m' = FoldF(cs, m) /\ UNCHANGED <<cs, outs>>

\* the alias scan of one field: [value, conflict] (Unprov = none)
RECURSIVE Scan(_, _, _, _, _)
Scan(al, y, fdata, cconf, acc) ==
  IF y > Len(al) THEN acc
  ELSE LET c1 == IF Variant = "fixed" /\ Has(cconf, al[y]) THEN Get(cconf, al[y]) ELSE acc.conflict
       IN IF ~Has(fdata, al[y]) THEN Scan(al, y + 1, fdata, cconf, [acc EXCEPT !.conflict = c1])
          ELSE IF acc.value = Unprov THEN Scan(al, y + 1, fdata, cconf, [value |-> Get(fdata, al[y]), conflict |-> c1])
          ELSE IF RawNeq(Get(fdata, al[y]), acc.value) THEN [acc EXCEPT !.conflict = Get(fdata, al[y])]            \* break
          ELSE Scan(al, y + 1, fdata, cconf, [acc EXCEPT !.conflict = c1])
FirstPresent(al, fdata) == IF \E y \in 1..Len(al) : Has(fdata, al[y])
                             THEN Get(fdata, al[CHOOSE y \in 1..Len(al) : Has(fdata, al[y]) /\ \A z \in 1..(y - 1) : ~Has(fdata, al[z])])
                             ELSE Unprov
FLoopF(c, mm) ==
  IF mm.i > Len(c.d.fields) THEN [mm EXCEPT !.pc = "deps"]
     ELSE LET f == FieldOf(c, mm.i)
              al == Aliases(f, c.o)
              sc == IF c.o.ignore_conflicts THEN [value |-> FirstPresent(al, mm.fdata), conflict |-> Unprov]
                    ELSE Scan(al, 1, mm.fdata, mm.cconf, [value |-> Unprov, conflict |-> Unprov])
              \* pinned commit: the conflict is reported inside the alias loop, whatever the field does with its input
              early == IF Variant = "orig" /\ sc.conflict # Unprov THEN "alias" ELSE ""
              nx == [mm EXCEPT !.i = @ + 1, !.errs = Err(mm, early)]
          IN IF NameOf(c, f) \in Excl(c) THEN [mm EXCEPT !.i = @ + 1]                                  \* excluded_keys: the field is skipped altogether
             ELSE IF sc.value = Unprov
               THEN IF Required(f, c.o) THEN [nx EXCEPT !.unprov = @ \cup {NameOf(c, f)}, !.errs = Append(@, "absence")]
                    ELSE [nx EXCEPT !.unprov = @ \cup {NameOf(c, f)},
                                         !.res = IF DefaultOf(f, c.o) # Unprov THEN Put(@, NameOf(c, f), DefaultOf(f, c.o)) ELSE @]
             ELSE IF NoInput(f, c.o)
               THEN [nx EXCEPT !.used = @ \cup Range(al),
                                    !.res = IF DefaultOf(f, c.o) # Unprov THEN Put(@, NameOf(c, f), DefaultOf(f, c.o)) ELSE @]
             ELSE LET pv == ParseValue(f, c.o, sc.value)
                      late == IF Variant = "fixed" /\ sc.conflict # Unprov THEN <<"alias">> ELSE <<>>
                  IN [nx EXCEPT !.used = @ \cup Range(al),
                                     !.errs = @ \o late \o (IF pv.err THEN <<"parse">> ELSE <<>>),
                                     !.res = IF pv.val # Unprov THEN Put(@, NameOf(c, f), pv.val) ELSE @,
                                     !.deps = IF pv.val # Unprov THEN @ \cup DepNamesOf(c, f) ELSE @]
FLoop == m.pc = "floop" /\ m' = FLoopF(cs, m) /\ UNCHANGED <<cs, outs>>

FAddF(c, mm) ==
  IF mm.i > Len(mm.fdata) \/ c.o.addition = "none" THEN [mm EXCEPT !.pc = "finish"]
     ELSE LET e == mm.fdata[mm.i] IN
          IF e.k \in mm.used THEN [mm EXCEPT !.i = @ + 1]
          ELSE LET pa == ParseAddition(c.o, e.v)
               IN [mm EXCEPT !.i = @ + 1, !.errs = Err(mm, pa.err), !.add = IF pa.keep THEN Put(@, e.k, pa.val) ELSE @]
FAdd == m.pc = "fadd" /\ m' = FAddF(cs, m) /\ UNCHANGED <<cs, outs>>

(* ---- data_first_parse ---------------------------------------------------------------------------------------------------- *)
DLoopF(c, mm) ==
  IF mm.i > Len(c.x) THEN [mm EXCEPT !.pc = "dpost", !.i = 1]
     ELSE LET e == c.x[mm.i]
              j == FieldIdx(c.d, c.o, e.k)
              nx == [mm EXCEPT !.i = @ + 1]
          IN IF j = 0
               THEN LET pa == ParseAddition(c.o, e.v)
                    IN [nx EXCEPT !.errs = Err(mm, pa.err), !.add = IF pa.keep THEN Put(@, e.k.s, pa.val) ELSE @]
             ELSE LET f == FieldOf(c, j)
                      m1 == [nx EXCEPT !.prov = @ \cup {NameOf(c, f)}]
                  IN IF NoInput(f, c.o)
                       THEN [m1 EXCEPT !.res = IF DefaultOf(f, c.o) # Unprov THEN Put(@, NameOf(c, f), DefaultOf(f, c.o)) ELSE @]
                     ELSE LET seen == IF Variant = "fixed" THEN Has(mm.pvals, NameOf(c, f)) ELSE Has(mm.res, NameOf(c, f))
                              prev == IF Variant = "fixed" THEN Get(mm.pvals, NameOf(c, f)) ELSE Get(mm.res, NameOf(c, f))
                          IN IF ~c.o.ignore_conflicts /\ seen
                               THEN [m1 EXCEPT !.errs = IF RawNeq(prev, e.v) THEN Append(@, "alias") ELSE @]       \* continue
                             ELSE IF NameOf(c, f) \in Excl(c)
                               THEN [m1 EXCEPT !.pvals = IF c.o.ignore_conflicts THEN @ ELSE Put(@, NameOf(c, f), e.v)]
                             ELSE LET pv == ParseValue(f, c.o, e.v)
                                  IN [m1 EXCEPT !.pvals = IF c.o.ignore_conflicts THEN @ ELSE Put(@, NameOf(c, f), e.v),
                                                     !.errs = IF pv.err THEN Append(@, "parse") ELSE @,
                                                     !.res = IF pv.val # Unprov THEN Put(@, NameOf(c, f), pv.val) ELSE @,
                                                     !.deps = IF pv.val # Unprov THEN @ \cup DepNamesOf(c, f) ELSE @]
DLoop == m.pc = "dloop" /\ m' = DLoopF(cs, m) /\ UNCHANGED <<cs, outs>>

DPostF(c, mm) ==
  IF mm.i > Len(c.d.fields) \/ (Variant = "orig" /\ c.o.ignore_required) THEN [mm EXCEPT !.pc = "deps"]
     ELSE LET f == FieldOf(c, mm.i)
              nx == [mm EXCEPT !.i = @ + 1]
          IN IF Has(mm.res, NameOf(c, f)) \/ (Variant = "fixed" /\ NameOf(c, f) \in mm.prov) \/ NameOf(c, f) \in Excl(c) THEN nx
             ELSE IF Required(f, c.o) THEN [nx EXCEPT !.unprov = @ \cup {NameOf(c, f)}, !.errs = Append(@, "absence")]
             ELSE [nx EXCEPT !.unprov = @ \cup {NameOf(c, f)},
                                  !.res = IF DefaultOf(f, c.o) # Unprov THEN Put(@, NameOf(c, f), DefaultOf(f, c.o)) ELSE @]
DPost == m.pc = "dpost" /\ m' = DPostF(cs, m) /\ UNCHANGED <<cs, outs>>

(* ---- both ---------------------------------------------------------------------------------------------------------------- *)
DepsF(c, mm) ==
  LET lack == (mm.deps \ (Dom(mm.res) \cup Excl(c))) \cup (mm.deps \cap mm.unprov)
     IN [mm EXCEPT !.pc = IF mm.strat = "ffs" THEN "fadd" ELSE "finish", !.i = 1,
                       !.errs = IF mm.deps # {} /\ lack # {} THEN Append(@, "deps") ELSE @]
Deps == m.pc = "deps" /\ m' = DepsF(cs, m) /\ UNCHANGED <<cs, outs>>

\* what Schema.__init__ makes of the parsed mapping: no_output fields leave the mapping, attributes, deferred defaults
Outcome(c, mm) ==
  IF mm.errs # <<>> THEN [ok |-> FALSE, kind |-> mm.errs[1], errs |-> mm.errs, data |-> {}, attrs |-> {}]
  ELSE [ok |-> TRUE, kind |-> "none", errs |-> <<>>,
        data |-> {<<FieldOf(c, j).out, Get(mm.res, FieldOf(c, j).out)>> :
                     j \in {j \in 1..Len(c.d.fields) : Has(mm.res, FieldOf(c, j).out) /\ ~NoOutput(FieldOf(c, j), c.o)}}
                 \cup {<<mm.add[y].k, mm.add[y].v>> : y \in 1..Len(mm.add)},
        attrs |-> {<<FieldOf(c, j).att, IF Has(mm.res, FieldOf(c, j).out) THEN Get(mm.res, FieldOf(c, j).out) ELSE DeferredOf(FieldOf(c, j), c.o)>> :
                     j \in 1..Len(c.d.fields)}]
Finish ==
  /\ m.pc = "finish"
  /\ outs' = [outs EXCEPT ![m.strat] = Outcome(cs, m)]
  /\ m' = IF m.strat = "ffs" THEN M0("dfs") ELSE [m EXCEPT !.pc = "done"]
  /\ UNCHANGED cs
Next == Start \/ Fold \/ FLoop \/ FAdd \/ DLoop \/ DPost \/ Deps \/ Finish
vars == <<cs, m, outs>>
Done == m.pc = "done"
\* the same machine as one function (used to judge recorded executions: one evaluation per record)
StepF(c, mm) == CASE mm.pc = "start" -> StartF(c, mm) [] mm.pc = "fold" -> FoldF(c, mm) [] mm.pc = "floop" -> FLoopF(c, mm)
                  [] mm.pc = "fadd" -> FAddF(c, mm) [] mm.pc = "dloop" -> DLoopF(c, mm) [] mm.pc = "dpost" -> DPostF(c, mm)
                  [] mm.pc = "deps" -> DepsF(c, mm)
RECURSIVE RunFrom(_, _)
RunFrom(c, mm) == IF mm.pc = "finish" THEN Outcome(c, mm) ELSE RunFrom(c, StepF(c, mm))
Run(c, strat) == RunFrom(c, M0(strat))
\* the loop state at the end (what parse_data returns: res updated with add), for callers other than Schema.__init__
RECURSIVE RunRawFrom(_, _)
RunRawFrom(c, mm) == IF mm.pc = "finish" THEN mm ELSE RunRawFrom(c, StepF(c, mm))
RunRaw(c, strat) == RunRawFrom(c, M0(strat))

(* ---- the properties on the model ------------------------------------------------------------------------------------------ *)
\* outcome in the shape Admissible / SameOutcome expect (assoc sequences)
Assoc(S) == LET q == SetToSeq(S) IN [y \in 1..Len(q) |-> [k |-> q[y][1], v |-> q[y][2]]]
AsRec(out) == [ok |-> out.ok, kind |-> out.kind, allkinds |-> out.errs, data |-> Assoc(out.data), attrs |-> Assoc(out.attrs)]
M_Admissible_ffs == Done => Admissible(cs.d, cs.o, cs.x, AsRec(outs.ffs))
M_Admissible_dfs == Done => Admissible(cs.d, cs.o, cs.x, AsRec(outs.dfs))
M_Same == Done => SameOutcome(AsRec(outs.ffs), AsRec(outs.dfs))
=============================================================================
