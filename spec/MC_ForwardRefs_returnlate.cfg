SPECIFICATION MCSpecFunc
CONSTANTS
  FixReturn = FALSE
  FixOrigin = TRUE
  Inherit = TRUE
  Variant = "fixed"
CONSTRAINT MRefute
