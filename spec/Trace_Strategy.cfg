SPECIFICATION TSpec
CONSTRAINT JudgeC06
