--------------------------- MODULE Trace_SchemaTrans ---------------------------
(* The object schemas of MC_SchemaTrans built for real by JsonSchemaParser and run on every instance of the universe under strict options.   *)
(*   VIOL  a returned value does not validate against its schema (C15: JsonSchema!Val, the same predicate as Trace_SchemaParse)             *)
(*   DIV   translator + lookup loop as transcribed (SchemaTrans!TRun) accept / return something else than the real built type               *)
EXTENDS SchemaTrans, Json, IOUtils
Tr == ndJsonDeserialize(IOEnv.TRACE_FILE)
VARIABLE tid
TInit == tid \in 1..Len(Tr) /\ cs = 0 /\ m = 0 /\ outs = 0
TSpec == TInit /\ [][UNCHANGED <<tid, vars>>]_<<tid, vars>>
R == Tr[tid]
JudgeP == (R.ok => JS!Val(R.v, JSchema(R.s), <<>>)) \/ PrintT(<<"VIOL", R.id, "Sound">>)
JudgeM == LET out == TRun(R.s, R.inst) IN (out.ok = R.ok /\ (R.ok => JS!JEq(JResult(out), R.v))) \/ PrintT(<<"DIV", R.id>>)
=============================================================================
