SPECIFICATION TSpec
CONSTRAINT JudgeP
CONSTRAINT JudgeM
