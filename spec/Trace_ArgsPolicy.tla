-------------------------- MODULE Trace_ArgsPolicy --------------------------
EXTENDS ArgsLoops, Json, IOUtils
Tr == ndJsonDeserialize(IOEnv.TRACE_FILE)
VARIABLE tid
TInit == tid \in 1..Len(Tr) /\ ac = 0 /\ lp = 0
TSpec == TInit /\ [][UNCHANGED <<tid, ac, lp>>]_<<tid, ac, lp>>
R == Tr[tid]
Clause == IF ~P_Elementwise(R.c, R.r) THEN (IF R.r.ok # ExpOk(R.c) THEN (IF R.r.ok THEN "accepts" ELSE "rejects") ELSE "elements")
          ELSE IF ~P_Filtered(R.c, R.r) THEN "filtered" ELSE "none"
JudgeP == Clause = "none" \/ PrintT(<<"VIOL", R.id, Clause>>)
ClauseF == IF P_Fields(R.c, R.r) THEN "none" ELSE IF R.r.ok # ExpOk(R.c) THEN (IF R.r.ok THEN "accepts" ELSE "rejects") ELSE "fields"
JudgeF == ClauseF = "none" \/ PrintT(<<"VIOL", R.id, ClauseF>>)
JudgeM == MOk(R.c) = R.r.ok \/ PrintT(<<"DIV", R.id>>)
\* the element loops as transcribed (ArgsLoops!LRun) against what the real container type returned
JudgeL == LET m == LRun(R.c) IN
          (m.ok = R.r.ok /\ (m.ok => CASE R.c.shape = "seq" -> SameSeq(m.vals, R.r.vals) [] R.c.shape = "set" -> SameBag(m.vals, R.r.vals)
                                        [] OTHER -> SameMap(m.keys, m.vals, R.r.keys, R.r.vals)))
          \/ PrintT(<<"DIV", R.id, "loops">>)
=============================================================================
