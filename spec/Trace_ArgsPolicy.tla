-------------------------- MODULE Trace_ArgsPolicy --------------------------
EXTENDS ArgsPolicy, Json, IOUtils
Tr == ndJsonDeserialize(IOEnv.TRACE_FILE)
VARIABLE tid
TInit == tid \in 1..Len(Tr)
TSpec == TInit /\ [][UNCHANGED tid]_tid
R == Tr[tid]
Clause == IF ~P_Elementwise(R.c, R.r) THEN (IF R.r.ok # ExpOk(R.c) THEN (IF R.r.ok THEN "accepts" ELSE "rejects") ELSE "elements")
          ELSE IF ~P_Filtered(R.c, R.r) THEN "filtered" ELSE "none"
JudgeP == Clause = "none" \/ PrintT(<<"VIOL", R.id, Clause>>)
ClauseF == IF P_Fields(R.c, R.r) THEN "none" ELSE IF R.r.ok # ExpOk(R.c) THEN (IF R.r.ok THEN "accepts" ELSE "rejects") ELSE "fields"
JudgeF == ClauseF = "none" \/ PrintT(<<"VIOL", R.id, ClauseF>>)
JudgeM == MOk(R.c) = R.r.ok \/ PrintT(<<"DIV", R.id>>)
=============================================================================
