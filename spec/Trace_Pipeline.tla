---------------------------- MODULE Trace_Pipeline ----------------------------
(* The universe of MC_Pipeline replayed into real constrained int types: one record per (source, rule) with what the type did.    *)
(*   VIOL  an accepted result does not conform to the declaration (C01: Values!Conforms)                                        *)
(*   DIV   "convert, then validate" as transcribed (Convert!ToInt, Constraints!RunRule) predicts another outcome                *)
EXTENDS UniConvert, UniConstraints, Json, IOUtils
Tr == ndJsonDeserialize(IOEnv.TRACE_FILE)
VARIABLE tid
TInit == tid \in 1..Len(Tr)
TSpec == TInit /\ [][UNCHANGED tid]_tid
R == Tr[tid]
PipeOf(src, cons) == LET c == ToInt(src.x, src.fx, FALSE, FALSE) IN IF ~c.ok THEN FailV(src.x) ELSE RunRule(IntV(c.n), cons, 1)
JudgeP == (R.ok => Conforms(R.v, R.T)) \/ PrintT(<<"VIOL", R.id, "Conforms">>)
JudgeM == LET m == PipeOf(R.src, R.T.cons) IN (m.ok = R.ok /\ (R.ok => PyEq(m.v, R.v))) \/ PrintT(<<"DIV", R.id>>)
=============================================================================
