SPECIFICATION Spec
CONSTANTS
  ClassName = "S2"
  MaxOps = 2
CONSTRAINT MJudge
