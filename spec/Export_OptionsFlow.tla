-------------------------- MODULE Export_OptionsFlow --------------------------
EXTENDS MC_OptionsFlow
ASSUME Export
ESpec == cls = 0 /\ runtime = 0 /\ [][Next]_<<cls, runtime>>
=============================================================================
