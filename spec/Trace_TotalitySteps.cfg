SPECIFICATION TSpec
CONSTANTS
  Variant = "fixed"
  MaxK = 9
CONSTRAINT JudgeStep
