---------------------------- MODULE Trace_Strategy ----------------------------
(* C06 on declarations whose treatment of a field depends on the value given (a callable no_input, excluded      *)
(* invalid values, ...), for data classes and decorated functions: one state per (declaration, options, input)   *)
(* with the outcome under both lookup strategies; DataParse!SameOutcome is the whole verdict (these declarations  *)
(* are outside the field contract transcribed in DataParse, so there is no M-layer here).                         *)
EXTENDS DataParse, Json, IOUtils
Tr == ndJsonDeserialize(IOEnv.TRACE_FILE)
VARIABLE tid
TInit == tid \in 1..Len(Tr)
TSpec == TInit /\ [][UNCHANGED tid]_tid
R == Tr[tid]
JudgeC06 == SameOutcome(R.ffs, R.dfs) \/ PrintT(<<"VIOL", R.id, IF R.ffs.ok # R.dfs.ok THEN "verdict-differs" ELSE IF R.ffs.ok THEN "data-differs" ELSE "error-kind-differs">>)
=============================================================================
