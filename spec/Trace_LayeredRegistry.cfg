SPECIFICATION TSpec
CONSTANTS
  Variant = "fixed"
  UseCache = TRUE
  ChildCaches = "own"
  RegMenu = {}
  MaxOps = 0
CONSTRAINT JudgeP
CONSTRAINT JudgeM
