SPECIFICATION Spec
CONSTANTS
  Resolvers = {1, 2}
  Registrars = {3, 4}
  CacheMode = "snapshot"
INVARIANT P_PostAsAlone
INVARIANT P_ResolvedExisting
