SPECIFICATION TSpec
CONSTRAINT JudgeP
