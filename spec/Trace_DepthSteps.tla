---------------------------- MODULE Trace_DepthSteps ----------------------------
(* Trace validation proper for the depth accounting: the driver logs (sys.settrace on RuntimeContext.__init__) every context created      *)
(* during a parse: its parent (position in the log, 0 = none), whether it has a route, whether that route is falsy (0 or ''), and the       *)
(* depth it ended up with.  Every creation must be one Depth!CtxDepth step from its parent's depth.                                         *)
EXTENDS Depth, Json, IOUtils
Tr == ndJsonDeserialize(IOEnv.TRACE_FILE)
VARIABLES tid, l
TInit == tid \in 1..Len(Tr) /\ l = 1
TNext == l < Len(Tr[tid].ctx) /\ l' = l + 1 /\ UNCHANGED tid
TSpec == TInit /\ [][TNext]_<<tid, l>>
R == Tr[tid]
E == R.ctx[l]
JudgeStep == E.depth = CtxDepth(IF E.parent = 0 THEN 0 ELSE R.ctx[E.parent].depth, E.routeNone, E.falsy) \/ PrintT(<<"DIV", R.id, l>>)
=============================================================================
