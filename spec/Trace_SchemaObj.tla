-------------------------- MODULE Trace_SchemaObj --------------------------
(* Trace validation for C07.  Every recorded history (construction followed by public mutating operations on a *)
(* real Schema / DataClass instance and on its copy) is walked step by step.  The state after each step is the *)
(* logged projection (mapping in order, getattr per field, __dict__), so                                      *)
(*   - the P-layer (Valid, StepOk, CopyOk of SchemaObj) is evaluated by TLC on what the real code did: VIOL    *)
(*   - the M-layer (Apply on the logged state before the step) must reproduce the logged state after it: DIV   *)
EXTENDS SchemaObj, Json, IOUtils
Tr == ndJsonDeserialize(IOEnv.TRACE_FILE)
VARIABLES tid, l
tvars == <<tid, l>>

DeclOf(t) == Tr[t].decl
StepAt(t, x) == Tr[t].steps[x]
\* logged state of object o after step x: view = [data, attrs], st = [data, ad]
ViewAt(t, x, o) == [data |-> StepAt(t, x).views[o].data, attrs |-> StepAt(t, x).views[o].attrs]
StAt(t, x, o) == [data |-> StepAt(t, x).views[o].data, ad |-> StepAt(t, x).views[o].ad]
Live(t, x, o) == StepAt(t, x).live[o]

TInit == tid \in 1..Len(Tr) /\ l = 1
TNext == l < Len(Tr[tid].steps) /\ l' = l + 1 /\ UNCHANGED tid
TSpec == TInit /\ [][TNext]_tvars

\* an object is judged at the step where it becomes invalid (a state that stays invalid is reported once)
Bad(t, x, o) == Live(t, x, o) /\ ~Valid(DeclOf(t), ViewAt(t, x, o), Tr[t].inits[o])
NewlyBad(t, x, o) == /\ Bad(t, x, o)
                     /\ (x = 1 \/ (IF Live(t, x - 1, o) THEN ~Bad(t, x - 1, o) ELSE ~Bad(t, x, 1)))   \* a copy of a bad instance is not news
Clause(t, x) ==
  LET c == DeclOf(t)  s == StepAt(t, x) IN
  IF \E o \in 1..2 : NewlyBad(t, x, o)
    THEN LET o == CHOOSE o \in 1..2 : NewlyBad(t, x, o) IN FailingClause(c, ViewAt(t, x, o), Tr[t].inits[o])
  ELSE IF x > 1 /\ s.o.op # "copy" /\ ~StepOk(s.o, s.raised, ViewAt(t, x - 1, s.tgt), ViewAt(t, x, s.tgt)) THEN "StepOk"
  ELSE IF x > 1 /\ s.o.op # "copy" /\ Live(t, x, 3 - s.tgt) /\ ViewAt(t, x, 3 - s.tgt) # ViewAt(t, x - 1, 3 - s.tgt) THEN "CopyOk"
  ELSE IF x > 1 /\ s.o.op = "copy" /\ (ViewAt(t, x, 1) # ViewAt(t, x - 1, 1) \/ ViewAt(t, x, 2).data # ViewAt(t, x, 1).data) THEN "CopyEq"
  ELSE "none"
JudgeP == Clause(tid, l) = "none" \/ PrintT(<<"VIOL", Tr[tid].id, Clause(tid, l), l>>)

\* M's value universe: steps whose arguments lie outside it are judged by P only
Modelled(v) == v.k \in {"int", "str", "bytes", "none"}
InUniverse(o) == Modelled(o.v) /\ \A y \in 1..Len(o.kvs) : Modelled(o.kvs[y].v)
Explained(t, x) ==
  LET c == DeclOf(t)  s == StepAt(t, x) IN
  IF ~InUniverse(s.o) THEN TRUE
  ELSE IF x = 1 THEN ViewOf(c, New(c, s.o.kvs)) = ViewAt(t, 1, 1) \/ s.raised
  ELSE IF s.o.op = "copy" THEN ViewAt(t, x, 2) = ViewAt(t, x, 1)
  ELSE LET r == Apply(c, StAt(t, x - 1, s.tgt), s.o) IN
       r.raised = s.raised /\ ViewOf(c, r.st) = ViewAt(t, x, s.tgt)
JudgeM == Explained(tid, l) \/ PrintT(<<"DIV", Tr[tid].id, StepAt(tid, l).o.op, l>>)
=============================================================================
