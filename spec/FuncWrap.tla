------------------------------ MODULE FuncWrap ------------------------------
(***************************************************************************)
(* C08, M-layer -- what a decorated function does with a call before the    *)
(* body runs (utype/parser/func.py parse_params, parse_pos_type, sync_call): *)
(*   Args     one step per positional argument: *args element, positional    *)
(*            field (converted), underscore-prefixed parameter (passed as    *)
(*            is), excess argument (dropped)                                 *)
(*   PosOnly  one step per positional-only field not given: AbsenceError or   *)
(*            its default appended to the positional arguments               *)
(*   Kwargs   parse_data(kwargs, excluded_keys = names given positionally,    *)
(*            as_attname = True): the field-first loop of DataLoops           *)
(*   Call     the function is called with the parsed arguments: Python's     *)
(*            own binding (FuncBind!PyBind) of *parsed_args, **parsed_kwargs  *)
(* The property on the model: for every call Python itself would bind, the    *)
(* body sees Python's binding with the annotated, non-private, non-default    *)
(* values converted, or is not entered when one of them does not convert      *)
(* (FuncBind!P_Bind).                                                        *)
(* sig: seq of [name, kind, ann, hasdef, def, keys, priv]  (FuncBind)          *)
(* call: [pos: seq of values, kw: seq of [k (the key as written), v]]         *)
(***************************************************************************)
EXTENDS DataLoops
FB == INSTANCE FuncBind

IsField(p) == p.kind \in {"po", "pk", "ko"} /\ ~p.priv
\* the parser's view of the signature: one int (or untyped) field per named, non-private parameter
FieldOfParam(p) == [att |-> p.name, out |-> p.name,
                    keys |-> [y \in 1..Len(p.keys) |-> [s |-> p.keys[y], low |-> p.keys[y]]],
                    ci |-> FALSE, req |-> ~p.hasdef, hasdef |-> p.hasdef, def |-> IF p.hasdef THEN p.def ELSE Unprov, defer |-> FALSE,
                    noin |-> FALSE, noout |-> FALSE, fmode |-> <<>>, deps |-> <<>>, anyty |-> ~p.ann]
ParamIdx(sig) == SelectSeq([i \in 1..Len(sig) |-> i], LAMBDA i : IsField(sig[i]))
DeclOf(sig) == [fields |-> [j \in 1..Len(ParamIdx(sig)) |-> FieldOfParam(sig[ParamIdx(sig)[j]])]]
HasVa(sig) == \E i \in 1..Len(sig) : sig[i].kind = "va"
HasVk(sig) == \E i \in 1..Len(sig) : sig[i].kind = "vk"
VaAnn(sig) == \E i \in 1..Len(sig) : sig[i].kind = "va" /\ sig[i].ann
VkAnn(sig) == \E i \in 1..Len(sig) : sig[i].kind = "vk" /\ sig[i].ann
\* options of a function parser: **kwargs turns addition on (its annotation is the addition type)
FunOpts(sig) == [mode |-> "", addition |-> IF ~HasVk(sig) THEN "none" ELSE IF VkAnn(sig) THEN "int" ELSE "any", ignore_required |-> FALSE,
                 no_default |-> FALSE, hasforce |-> FALSE, force |-> Unprov, defer_default |-> FALSE, ignore_conflicts |-> FALSE, ci |-> FALSE,
                 minp |-> 0, maxp |-> 0, exclude |-> FALSE]
\* index (1-based) of the *args parameter among the parameters, 0 = none; positional parameters precede it
VaIndex(sig) == IF HasVa(sig) THEN CHOOSE i \in 1..Len(sig) : sig[i].kind = "va" ELSE 0
PosParams(sig) == SelectSeq([i \in 1..Len(sig) |-> i], LAMBDA i : sig[i].kind \in {"po", "pk"})

(* ---- the machine ----------------------------------------------------------------------------------------------------------- *)
VARIABLES fc,      \* the case [sig, call]
          w        \* [pc, i, args (parsed positional arguments), keys (names given positionally), errs, kwargs (assoc), out]
W0 == [pc |-> "args", i |-> 1, args |-> <<>>, keys |-> <<>>, errs |-> <<>>, kwargs |-> <<>>,
       out |-> [ok |-> FALSE, body |-> FALSE, parseerror |-> FALSE, got |-> <<>>]]
ConvArg(ann, v) == IF ~ann THEN [val |-> v, err |-> FALSE] ELSE IF Fails(v) THEN [val |-> v, err |-> TRUE] ELSE [val |-> Conv(v), err |-> FALSE]

\* parse_params, step 1: positional argument number ww.i
ArgsF(c, ww) ==
  IF ww.i > Len(c.call.pos) THEN [ww EXCEPT !.pc = "posonly", !.i = 1]
  ELSE LET v == c.call.pos[ww.i]
           nx == [ww EXCEPT !.i = @ + 1]
       IN IF VaIndex(c.sig) # 0 /\ ww.i >= VaIndex(c.sig)                         \* i >= pos_var_index (0-based i against 0-based index)
            THEN LET cv == ConvArg(VaAnn(c.sig), v)
                 IN [nx EXCEPT !.args = Append(@, cv.val), !.errs = IF cv.err THEN Append(@, "parse") ELSE @]
          ELSE IF ww.i <= Len(PosParams(c.sig))
            THEN LET p == c.sig[PosParams(c.sig)[ww.i]]
                 IN IF p.priv THEN [nx EXCEPT !.args = Append(@, v)]              \* exclude_indexes: passed as it is
                    ELSE LET cv == ConvArg(p.ann, v)
                         IN [nx EXCEPT !.keys = Append(@, p.name),
                                       !.args = IF cv.err THEN @ ELSE Append(@, cv.val),  \* parse_value returned unprovided: continue
                                       !.errs = IF cv.err THEN Append(@, "parse") ELSE @]
          ELSE nx                                                                 \* excess argument: ignored
\* parse_params, step 2: positional-only field number ww.i (in declaration order, private ones are no fields)
PoFields(sig) == SelectSeq([i \in 1..Len(sig) |-> i], LAMBDA i : sig[i].kind = "po" /\ ~sig[i].priv)
PosOnlyF(c, ww) ==
  IF ww.i > Len(PoFields(c.sig)) THEN [ww EXCEPT !.pc = "kwargs"]
  ELSE LET p == c.sig[PoFields(c.sig)[ww.i]]
           nx == [ww EXCEPT !.i = @ + 1]
       IN IF p.name \in Range(ww.keys) THEN nx
          ELSE IF ~p.hasdef THEN [nx EXCEPT !.errs = Append(@, "absence")]
          ELSE [nx EXCEPT !.args = Append(@, p.def), !.keys = Append(@, p.name)]   \* "this position is definitely after parsed_args"
\* parse_data(kwargs, excluded_keys = parsed_keys, as_attname = True): the field-first loop (function parsers use the default strategy)
KwCase(c, ww) == [d |-> DeclOf(c.sig), o |-> FunOpts(c.sig), excl |-> Range(ww.keys), asatt |-> TRUE,
                  x |-> [y \in 1..Len(c.call.kw) |-> [k |-> [s |-> c.call.kw[y].k, low |-> c.call.kw[y].k], v |-> c.call.kw[y].v]]]
KwargsF(c, ww) ==
  LET fin == RunRaw(KwCase(c, ww), "ffs")
  IN [ww EXCEPT !.pc = "call", !.errs = @ \o fin.errs, !.kwargs = fin.res \o fin.add]
\* context.raise_error(); then func(*args, **kwargs): Python binds the parsed arguments
CallF(c, ww) ==
  IF ww.errs # <<>> THEN [ww EXCEPT !.pc = "done", !.out = [ok |-> FALSE, body |-> FALSE, parseerror |-> TRUE, got |-> <<>>]]
  ELSE LET b == FB!PyBind(c.sig, [pos |-> ww.args, kw |-> ww.kwargs])
       IN IF ~b.bindable THEN [ww EXCEPT !.pc = "done", !.out = [ok |-> FALSE, body |-> FALSE, parseerror |-> FALSE, got |-> <<>>]]   \* TypeError from Python
          ELSE [ww EXCEPT !.pc = "done", !.out = [ok |-> TRUE, body |-> TRUE, parseerror |-> FALSE, got |-> FB!KV(b.binding)]]
Args    == w.pc = "args" /\ w' = ArgsF(fc, w) /\ UNCHANGED fc
PosOnly == w.pc = "posonly" /\ w' = PosOnlyF(fc, w) /\ UNCHANGED fc
Kwargs  == w.pc = "kwargs" /\ w' = KwargsF(fc, w) /\ UNCHANGED fc
Call    == w.pc = "call" /\ w' = CallF(fc, w) /\ UNCHANGED fc
WNext == Args \/ PosOnly \/ Kwargs \/ Call
WDone == w.pc = "done"
WStep(c, ww) == CASE ww.pc = "args" -> ArgsF(c, ww) [] ww.pc = "posonly" -> PosOnlyF(c, ww) [] ww.pc = "kwargs" -> KwargsF(c, ww) [] ww.pc = "call" -> CallF(c, ww)
RECURSIVE WRunFrom(_, _)
WRunFrom(c, ww) == IF ww.pc = "done" THEN ww.out ELSE WRunFrom(c, WStep(c, ww))
WRun(c) == WRunFrom(c, W0)

(* ---- the property on the model ------------------------------------------------------------------------------------------------ *)
\* the call as Python sees it: keywords written as aliases name their parameter
OwnName(sig, key) == IF \E i \in 1..Len(sig) : IsField(sig[i]) /\ key \in Range(sig[i].keys)
                       THEN sig[CHOOSE i \in 1..Len(sig) : IsField(sig[i]) /\ key \in Range(sig[i].keys)].name ELSE key
PyCall(c) == [pos |-> c.call.pos, kw |-> [y \in 1..Len(c.call.kw) |-> [k |-> OwnName(c.sig, c.call.kw[y].k), v |-> c.call.kw[y].v]]]
PyOf(c) == LET b == FB!PyBind(c.sig, PyCall(c))
               np == Len(c.call.pos)
               posn == PosParams(c.sig)
               given(name) == (\E j \in 1..Len(posn) : j <= np /\ c.sig[posn[j]].name = name) \/ (\E y \in 1..Len(c.call.kw) : OwnName(c.sig, c.call.kw[y].k) = name)
           IN [bindable |-> b.bindable, binding |-> b.binding,
               isdefault |-> [x \in 1..Len(b.binding) |-> b.binding[x].cat = "named" /\ ~given(b.binding[x].k)]]
RecOf(c, out) == [py |-> PyOf(c), ok |-> out.ok, body |-> out.body, parseerror |-> out.parseerror, got |-> out.got]
M_Bind == WDone => FB!P_Bind(fc.sig, RecOf(fc, w.out))
\* the recorded finding (findings/known_findings.json, C08): an omitted underscore-prefixed positional-only parameter with a default,
\* followed by a positional-only field filled from its default
OpenPoint(c) == LET po == SelectSeq([i \in 1..Len(c.sig) |-> i], LAMBDA i : c.sig[i].kind = "po")
                IN \E a, b \in 1..Len(po) : a < b /\ c.sig[po[a]].priv /\ c.sig[po[a]].hasdef /\ a > Len(c.call.pos)
                                             /\ ~c.sig[po[b]].priv /\ c.sig[po[b]].hasdef
M_Bind_ExceptOpen == WDone /\ ~OpenPoint(fc) => FB!P_Bind(fc.sig, RecOf(fc, w.out))
=============================================================================
