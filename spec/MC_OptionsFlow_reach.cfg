SPECIFICATION Spec
INVARIANT M_FlagsReach
