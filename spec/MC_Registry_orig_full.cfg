SPECIFICATION Spec
CONSTANTS
  Variant = "orig"
  UseCache = TRUE
  RegMenu <- MenuFull
  MaxOps = 5
INVARIANT P_C16
INVARIANT CacheCoherent
INVARIANT SortedByPrio
