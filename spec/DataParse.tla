------------------------------ MODULE DataParse ------------------------------
(***************************************************************************)
(* C05 / C06 -- data-class parsing implements the declared field contract,  *)
(* whatever the lookup strategy.                                            *)
(*   utype/parser/base.py   parse_data, data_first_parse, field_first_parse, *)
(*                          parse_addition, alias maps                        *)
(*   utype/parser/field.py  is_required / is_no_input / is_no_output /        *)
(*                          get_default                                       *)
(* Declarations, options and inputs are data:                                *)
(*   field [att, out, keys (seq of [s, low]), ci, req, hasdef, def, defer,    *)
(*          noin, noout, fmode, deps (seq of att)]      (type of every field: int) *)
(*   opts  [mode, addition, ignore_required, no_default, hasforce, force,     *)
(*          defer_default, ignore_conflicts, ci, minp, maxp, exclude]         *)
(*   input seq of [k |-> [s, low], v |-> value]                                *)
(* P-layer: Admissible(d, o, x, outcome) -- the documented field rules        *)
(* (references/field.md, options.md), field by field, with every choice the   *)
(* documentation leaves open admitted.                                       *)
(* M-layer: DataFirst / FieldFirst -- the two loops of base.py as coded.      *)
(***************************************************************************)
EXTENDS Integers, Sequences, FiniteSets, TLC

Range(s) == {s[x] : x \in 1..Len(s)}
VInt(n)  == [k |-> "int", n |-> n, s |-> ""]
VStr(s, n, lit) == [k |-> IF lit THEN "lit" ELSE "str", n |-> n, s |-> s]     \* "lit": a decimal literal of n
VNone == [k |-> "none", n |-> 0, s |-> ""]
Unprov == [k |-> "UNPROVIDED", n |-> 0, s |-> ""]
\* conversion of a raw input value to the int type every field has
Conv(v) == IF v.k = "int" THEN v ELSE IF v.k = "lit" THEN VInt(v.n) ELSE IF v.k = "none" THEN VInt(0) ELSE Unprov
Fails(v) == Conv(v) = Unprov
\* raw values of one field differ under Python's != (a literal '1' and the int 1 differ)
RawNeq(a, b) == a # b

Has(a, key) == \E x \in 1..Len(a) : a[x].k = key
Get(a, key) == a[CHOOSE x \in 1..Len(a) : a[x].k = key].v
Put(a, key, val) == IF Has(a, key) THEN [x \in 1..Len(a) |-> IF a[x].k = key THEN [k |-> key, v |-> val] ELSE a[x]]
                    ELSE Append(a, [k |-> key, v |-> val])
AsMap(a) == {<<a[x].k, a[x].v>> : x \in 1..Len(a)}

(* ---- static view of a field under the options ----------------------------- *)
CI(f, o) == f.ci \/ o.ci
InMode(f, o) == o.mode = "" \/ f.fmode = <<>> \/ \E x \in 1..Len(f.fmode) : f.fmode[x] = o.mode      \* fmode: sequence of mode letters
NoInput(f, o)  == f.noin \/ ~InMode(f, o)
NoOutput(f, o) == f.noout \/ ~InMode(f, o)
\* force_default implies ignore_required (Options.__init__)
Required(f, o) == f.req /\ ~o.ignore_required /\ ~o.hasforce /\ ~NoInput(f, o)
\* the default put into a new instance (deferred defaults only show through the attribute)
DefaultOf(f, o) == IF o.no_default \/ f.defer \/ o.defer_default THEN Unprov
                   ELSE IF o.hasforce THEN o.force ELSE IF f.hasdef THEN f.def ELSE Unprov
DeferredOf(f, o) == IF o.no_default \/ ~(f.defer \/ o.defer_default) THEN Unprov
                    ELSE IF o.hasforce THEN o.force ELSE IF f.hasdef THEN f.def ELSE Unprov
Matches(f, o, key) == IF CI(f, o) THEN \E y \in 1..Len(f.keys) : f.keys[y].low = key.low
                      ELSE \E y \in 1..Len(f.keys) : f.keys[y].s = key.s
FieldsOf(d, o, key) == {x \in 1..Len(d.fields) : Matches(d.fields[x], o, key)}
ProvidedIdx(d, o, x, i) == {y \in 1..Len(x) : Matches(d.fields[i], o, x[y].k)}
Unknown(d, o, x) == {y \in 1..Len(x) : FieldsOf(d, o, x[y].k) = {}}

(* ---- P: the set of error kinds the documented rules allow, and the expected content ------------------------------- *)
Conflict(d, o, x, i) == ~o.ignore_conflicts /\ \E a, b \in ProvidedIdx(d, o, x, i) : RawNeq(x[a].v, x[b].v)
TakesInput(d, o, x, i) == ~NoInput(d.fields[i], o) /\ ProvidedIdx(d, o, x, i) # {}
\* a dependency is satisfied by a dependency field that the input provides and that ends up with a value taken from
\* the input; it is certainly missing when the input has no key for it.  In between (the dependency is provided but is
\* not taken as input, or its value is rejected) the documentation is silent: both verdicts are admitted.
DepField(d, g) == CHOOSE j \in 1..Len(d.fields) : d.fields[j].att = g
DepMissing(d, o, x, i) == \E g \in Range(d.fields[i].deps) : ProvidedIdx(d, o, x, DepField(d, g)) = {}
DepDoubtful(d, o, x, i) == \E g \in Range(d.fields[i].deps) : LET j == DepField(d, g) IN
                             ProvidedIdx(d, o, x, j) # {} /\ (NoInput(d.fields[j], o) \/ \E y \in ProvidedIdx(d, o, x, j) : Fails(x[y].v))
MustKinds(d, o, x) ==
  (IF o.maxp # 0 /\ Len(x) > o.maxp THEN {"params"} ELSE {}) \cup
  (IF o.minp # 0 /\ Len(x) < o.minp THEN {"params"} ELSE {}) \cup
  UNION {  (IF TakesInput(d, o, x, i) /\ Conflict(d, o, x, i) THEN {"alias"} ELSE {})
      \* invalid_values='exclude': an invalid value of a field that is not required is dropped (the field takes its default)
      \cup (IF TakesInput(d, o, x, i) /\ (~o.exclude \/ Required(d.fields[i], o)) /\
                (IF o.ignore_conflicts THEN \A y \in ProvidedIdx(d, o, x, i) : Fails(x[y].v)
                                       ELSE \E y \in ProvidedIdx(d, o, x, i) : Fails(x[y].v)) THEN {"parse"} ELSE {})
      \cup (IF ~NoInput(d.fields[i], o) /\ ProvidedIdx(d, o, x, i) = {} /\ Required(d.fields[i], o) THEN {"absence"} ELSE {})
      \cup (IF TakesInput(d, o, x, i) /\ DepMissing(d, o, x, i) /\ (\A y \in ProvidedIdx(d, o, x, i) : ~Fails(x[y].v)) THEN {"deps"} ELSE {})
      : i \in 1..Len(d.fields) } \cup
  (IF o.addition = "forbid" /\ Unknown(d, o, x) # {} THEN {"exceed"} ELSE {}) \cup
  (IF o.addition = "int" /\ ~o.exclude /\ \E y \in Unknown(d, o, x) : Fails(x[y].v) THEN {"parse"} ELSE {})
MayKinds(d, o, x) ==
  UNION {  (IF TakesInput(d, o, x, i) /\ DepDoubtful(d, o, x, i) THEN {"deps"} ELSE {})
      \* some but not all values given for the field are invalid: whether its dependencies count depends on which one is taken
      \cup (IF TakesInput(d, o, x, i) /\ DepMissing(d, o, x, i) /\ (\E y \in ProvidedIdx(d, o, x, i) : ~Fails(x[y].v)) THEN {"deps"} ELSE {})
      \* an invalid value that invalid_values='exclude' replaced by a default: whether the field then counts as given (and its
      \* dependencies are required) is not documented (found by MC_DataLoops: exclude + force_default, {b: 'x'} with b depending on a)
      \cup (IF TakesInput(d, o, x, i) /\ (DepMissing(d, o, x, i) \/ DepDoubtful(d, o, x, i)) /\ o.exclude /\ DefaultOf(d.fields[i], o) # Unprov
                /\ (\E y \in ProvidedIdx(d, o, x, i) : Fails(x[y].v)) THEN {"deps"} ELSE {})
      \* a field that does not take input ignores what is provided for it; a conflict among the ignored values may
      \* or may not be reported
      \cup (IF ~TakesInput(d, o, x, i) /\ Conflict(d, o, x, i) THEN {"alias"} ELSE {})
      \* conflicts ignored: whichever provided value is taken may be the one that does not convert
      \cup (IF TakesInput(d, o, x, i) /\ o.ignore_conflicts /\ \E y \in ProvidedIdx(d, o, x, i) : Fails(x[y].v) THEN {"parse"} ELSE {})
      : i \in 1..Len(d.fields) }
ErrKinds(d, o, x) == MustKinds(d, o, x) \cup MayKinds(d, o, x)
\* a provided field that takes input may hold the conversion of any of its provided values (they are equal unless
\* conflicts are ignored, in which case the documentation does not say which one wins)
FieldValues(d, o, x, i) ==
  LET f == d.fields[i] IN
  IF TakesInput(d, o, x, i) THEN ({Conv(x[y].v) : y \in ProvidedIdx(d, o, x, i)} \ {Unprov})
                                 \cup (IF o.exclude /\ \E y \in ProvidedIdx(d, o, x, i) : Fails(x[y].v) THEN {DefaultOf(f, o)} ELSE {})
  ELSE {DefaultOf(f, o)}
\* "dependencies of provided fields must be present": an accepted instance never holds a field that the input provided (with a valid
\* value) while a field it depends on has no value at all (whatever kept the dependency out: not given, not taken as input, dropped)
DepsPresent(d, o, x, r) ==
  \A i \in 1..Len(d.fields) :
    (TakesInput(d, o, x, i) /\ (\E y \in ProvidedIdx(d, o, x, i) : ~Fails(x[y].v)) /\ Get(r.attrs, d.fields[i].att) # Unprov)
      => \A g \in Range(d.fields[i].deps) : Get(r.attrs, g) # Unprov
\* outcome: [ok, kind, data (assoc out/extra key -> value), attrs (assoc att -> value or Unprov)]
Admissible(d, o, x, r) ==
  IF ~r.ok THEN r.kind \in ErrKinds(d, o, x)
  ELSE /\ MustKinds(d, o, x) = {}
       /\ DepsPresent(d, o, x, r)
       /\ \A i \in 1..Len(d.fields) : LET f == d.fields[i] IN
            \E v \in FieldValues(d, o, x, i) :
              /\ (IF v = Unprov \/ NoOutput(f, o) THEN ~Has(r.data, f.out) ELSE Has(r.data, f.out) /\ Get(r.data, f.out) = v)
              /\ Get(r.attrs, f.att) = (IF v # Unprov THEN v ELSE DeferredOf(f, o))
       /\ \A y \in Unknown(d, o, x) :
            CASE o.addition = "any" -> Has(r.data, x[y].k.s) /\ Get(r.data, x[y].k.s) \in {x[z].v : z \in {w \in Unknown(d, o, x) : x[w].k.s = x[y].k.s}}
              [] o.addition = "int" -> IF Fails(x[y].v) THEN ~Has(r.data, x[y].k.s)       \* excluded (otherwise an error above)
                                       ELSE Has(r.data, x[y].k.s) /\ Get(r.data, x[y].k.s) = Conv(x[y].v)
              [] OTHER -> ~Has(r.data, x[y].k.s)
       /\ \A e \in Range(r.data) : (\E i \in 1..Len(d.fields) : d.fields[i].out = e.k) \/ (\E y \in Unknown(d, o, x) : x[y].k.s = e.k)
WhyNot(d, o, x, r) ==
  IF MustKinds(d, o, x) # {} /\ r.ok THEN "accepts-invalid"
  ELSE IF r.ok /\ ~DepsPresent(d, o, x, r) THEN "dependency-absent"
  ELSE IF ErrKinds(d, o, x) = {} /\ ~r.ok THEN "rejects-valid"
  ELSE IF ~r.ok THEN "wrong-error-kind" ELSE "wrong-content"

(* ---- P for C06: the two strategies agree --------------------------------------------------------------------------- *)
SameOutcome(a, b) == (a.ok /\ b.ok /\ AsMap(a.data) = AsMap(b.data) /\ AsMap(a.attrs) = AsMap(b.attrs))
                     \/ (~a.ok /\ ~b.ok /\ (a.kind = b.kind \/ a.kind \in Range(b.allkinds) \/ b.kind \in Range(a.allkinds)))
=============================================================================
