SPECIFICATION TSpec
CONSTRAINT JudgeP
CONSTRAINT JudgeRef
