--------------------------- MODULE Trace_Registry ---------------------------
(* Trace validation for C16: every recorded history of register/resolve calls *)
(* on a real TypeRegistry is stepped through Registry's own operators; the    *)
(* logged result of each resolve is bound to `res`, P_C16 is evaluated by TLC *)
(* in every state (verdict), and M's prediction is compared (divergence).     *)
EXTENDS Registry, Json, IOUtils
Tr == ndJsonDeserialize(IOEnv.TRACE_FILE)
VARIABLES tid, l, div
tvars == <<vars, tid, l, div>>
ToSet(seq) == {seq[x] : x \in 1..Len(seq)}

TInit == tid \in 1..Len(Tr) /\ l = 1 /\ div = FALSE /\ Init
Step == Tr[tid].steps[l]

TRegister == /\ Step.op = "reg"
             /\ Register([cls |-> ToSet(Step.cls), allow |-> Step.allow, prio |-> Step.prio,
                          attr |-> Step.attr, meta |-> Step.meta, det |-> Step.det])
             /\ div' = FALSE
TResolve ==  /\ Step.op = "res"
             /\ res' = Step.fn /\ lastT' = Step.t                        \* logged observation
             /\ cache' = ResolveCache(registry, cache, Step.t)           \* M's own state
             /\ div' = (Step.fn # ResolveFn(registry, cache, Step.t))    \* does M explain it?
             /\ nops' = nops + 1 /\ UNCHANGED <<registry, regs>>
TNext == /\ l <= Len(Tr[tid].steps) /\ l' = l + 1 /\ UNCHANGED tid
         /\ (TRegister \/ TResolve)
TSpec == TInit /\ [][TNext]_tvars

JudgeP == P_C16 \/ PrintT(<<"VIOL", Tr[tid].id, "P_C16", l - 1>>)
JudgeM == ~div \/ PrintT(<<"DIV", Tr[tid].id, "ResolveFn", l - 1>>)
=============================================================================
