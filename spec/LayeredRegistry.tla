--------------------------- MODULE LayeredRegistry ---------------------------
(***************************************************************************)
(* C16 -- a registry created with base=: TypeRegistry.resolve asks its own  *)
(* registrations first (and caches what it finds there), then its base,     *)
(* which has its own list and cache.  The child of Registry.tla (registry,  *)
(* cache, regs) is the layered registry; bregistry, bcache, bregs are the   *)
(* base.  Functions registered in the base are numbered from 101.           *)
(* ChildCaches = "own": as coded, only own matches enter the child's cache;  *)
(* "all": the answer of the base is cached in the child as well (a seeded    *)
(* change) -- a later registration in the base clears only the base's cache. *)
(***************************************************************************)
EXTENDS Registry
CONSTANT ChildCaches
VARIABLES bregistry, bcache, bregs
lvars == <<vars, bregistry, bcache, bregs>>
LInit == Init /\ bregistry = <<>> /\ bcache = <<>> /\ bregs = <<>>
Entry(tpl, n) == [cls |-> tpl.cls, allow |-> tpl.allow, prio |-> tpl.prio, attr |-> tpl.attr, meta |-> tpl.meta, det |-> tpl.det, fn |-> n]
RegisterChild(tpl) == Register(tpl) /\ UNCHANGED <<bregistry, bcache, bregs>>
RegisterBase(tpl) ==
  LET e == Entry(tpl, 100 + Len(bregs) + 1) IN
  /\ bregistry' = RegisterList(bregistry, e) /\ bcache' = RegisterCache(bcache, e) /\ bregs' = Append(bregs, e)
  /\ lastT' = "none" /\ res' = 0 /\ nops' = nops + 1 /\ UNCHANGED <<registry, cache, regs>>
\* what resolve(t) on the layered registry returns, and the two caches afterwards
LResolveFn(t) ==
  IF UseCache /\ CacheHas(cache, t) THEN CacheGet(cache, t)
  ELSE IF FirstMatch(registry, t) # 0 THEN FirstMatch(registry, t)
  ELSE ResolveFn(bregistry, bcache, t)
LChildCache(t) ==
  IF ~UseCache \/ CacheHas(cache, t) THEN cache
  ELSE IF FirstMatch(registry, t) # 0 THEN Append(cache, <<t, FirstMatch(registry, t)>>)
  ELSE IF ChildCaches = "all" THEN Append(cache, <<t, ResolveFn(bregistry, bcache, t)>>) ELSE cache
LBaseCache(t) ==
  IF (UseCache /\ CacheHas(cache, t)) \/ FirstMatch(registry, t) # 0 THEN bcache ELSE ResolveCache(bregistry, bcache, t)
ResolveChild(t) ==
  /\ res' = LResolveFn(t) /\ cache' = LChildCache(t) /\ bcache' = LBaseCache(t)
  /\ lastT' = t /\ nops' = nops + 1 /\ UNCHANGED <<registry, regs, bregistry, bregs>>
LNext == /\ nops < MaxOps
         /\ \/ \E tpl \in RegMenu : RegisterChild(tpl) \/ RegisterBase(tpl)
            \/ \E t \in Types : ResolveChild(t)
LSpec == LInit /\ [][LNext]_lvars
\* P: the matching registration of the layered registry itself, else that of its base
LRef(t) == IF Ref(regs, t) # 0 THEN Ref(regs, t) ELSE Ref(bregs, t)
P_Layered == lastT # "none" => res = LRef(lastT)
=============================================================================
