------------------------------- MODULE MC_Codec -------------------------------
(* every (kind, value shape) is an initial state, so that a refutation names the shape that does not survive *)
EXTENDS Codec
VARIABLES k, sh
Init == k \in Kinds /\ sh \in Shapes(k)
Next == UNCHANGED <<k, sh>>
Spec == Init /\ [][Next]_<<k, sh>>
P_ShapeRoundTrips == Dec(k, Enc(k, sh)) = Kept(k, sh)
=============================================================================
