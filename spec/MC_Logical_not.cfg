SPECIFICATION Spec
CONSTANTS
  Op = "not"
INVARIANT P_M
