SPECIFICATION FSpec
CONSTANTS
  Variant = "fixed"
  MaxNamed = 2
  Attrs = {"plain", "def", "unann", "unanndef", "priv", "privdef", "alias", "aliasdef"}
  SpecialVals <- SV2
INVARIANT M_Bind_ExceptOpen
