----------------------------- MODULE SchemaObj -----------------------------
(***************************************************************************)
(* C07 -- data-class instances under mutation.                             *)
(*   utype/schema.py      Schema.__setitem__/__field_setter__/__delitem__/ *)
(*                        __field_deleter__/pop/popitem/update/setdefault/ *)
(*                        __ior__/clear/copy/__coerce_property__           *)
(*   utype/parser/cls.py  make_setter/make_deleter/make_getter (DataClass) *)
(*                                                                         *)
(* M-layer: one operator per public operation, shaped like the code        *)
(* (instance = ordered mapping `data` + attribute dict `ad`).              *)
(* P-layer: Valid / StepOk / CopyOk -- what the property demands, stated   *)
(* on the two public views (mapping, getattr) of the projected instance.   *)
(* Declarations are data (records), so the same predicates judge classes   *)
(* defined in MC_SchemaObj and classes sent with a recorded trace.         *)
(***************************************************************************)
EXTENDS Integers, Sequences, FiniteSets, TLC
CONSTANT Variant      \* "orig": the pinned commit, where setdefault, |= and popitem were the inherited dict methods; "fixed": the current tree

NoBound == -1000

(* ---- values ------------------------------------------------------------ *)
(* uniform record shape: k kind, t MRO names, n int payload, s text payload, *)
(* ln length of text, lit "text is a canonical decimal literal of n"         *)
VInt(n)  == [k |-> "int", t |-> <<"int", "object">>, n |-> n, s |-> "", ln |-> 0, lit |-> FALSE]
VStr(s, n, lit) == [k |-> "str", t |-> <<"str", "object">>, n |-> n, s |-> s, ln |-> Len(s), lit |-> lit]
VBytes(s, n, lit) == [k |-> "bytes", t |-> <<"bytes", "object">>, n |-> n, s |-> s, ln |-> Len(s), lit |-> lit]
VNone    == [k |-> "none", t |-> <<"NoneType", "object">>, n |-> 0, s |-> "", ln |-> 0, lit |-> FALSE]
VFail    == [k |-> "FAIL", t |-> <<>>, n |-> 0, s |-> "", ln |-> 0, lit |-> FALSE]
Range(f) == {f[x] : x \in DOMAIN f}
IsA(v, name) == name \in Range(v.t)

(* ---- association lists (ordered dicts): sequences of [k, v] ------------ *)
Has(a, key) == \E x \in 1..Len(a) : a[x].k = key
Get(a, key) == a[CHOOSE x \in 1..Len(a) : a[x].k = key].v
Put(a, key, val) == IF Has(a, key)
                      THEN [x \in 1..Len(a) |-> IF a[x].k = key THEN [k |-> key, v |-> val] ELSE a[x]]
                      ELSE Append(a, [k |-> key, v |-> val])
Del(a, key) == SelectSeq(a, LAMBDA e : e.k # key)
Keys(a) == {a[x].k : x \in 1..Len(a)}
AsSet(a) == {a[x] : x \in 1..Len(a)}

(* ---- declarations ------------------------------------------------------ *)
(* field: [att, out, keys (seq), ty, lo, hi, maxlen, req, hasdef, def, imm, noout, prop, dep, mul]         *)
(* class: [name, base, fields (seq), addition ("none"|"any"|"int"|"forbid")]                        *)
InSeq(e, q) == \E y \in 1..Len(q) : q[y] = e
FieldIdx(c, key) == {x \in 1..Len(c.fields) : InSeq(key, c.fields[x].keys)}
HasField(c, key) == FieldIdx(c, key) # {}
FieldOf(c, key)  == c.fields[CHOOSE x \in FieldIdx(c, key) : TRUE]
FieldByAtt(c, att) == c.fields[CHOOSE x \in 1..Len(c.fields) : c.fields[x].att = att]
Dependants(c, f) == {x \in 1..Len(c.fields) : c.fields[x].prop /\ c.fields[x].dep = f.att}

(* ---- P: conformance of one value to one field's declared type ----------- *)
Conforms(v, f) ==
  CASE f.ty = "int" -> /\ IsA(v, "int") /\ ~IsA(v, "bool")
                       /\ (f.lo # NoBound => v.n >= f.lo) /\ (f.hi # NoBound => v.n <= f.hi)
    [] f.ty = "str" -> /\ IsA(v, "str") /\ (f.maxlen # NoBound => v.ln <= f.maxlen)
    [] OTHER -> FALSE

(* ---- M: field.parse_value on the small value universe ------------------- *)
Conv(ty, v) ==
  CASE ty = "int" -> IF v.k = "int" THEN v
                     ELSE IF v.k \in {"str", "bytes"} /\ v.lit THEN VInt(v.n)
                     ELSE IF v.k \in {"str", "bytes"} /\ v.ln = 0 THEN VInt(0)   \* to_integer: '' -> 0 (lenient)
                     ELSE IF v.k = "none" THEN VInt(0)                      \* to_integer: None -> 0 (lenient)
                     ELSE VFail
    [] ty = "str" -> IF v.k = "str" THEN v
                     ELSE IF v.k = "int" THEN VStr(ToString(v.n), v.n, TRUE)
                     ELSE IF v.k = "bytes" THEN VStr(v.s, v.n, v.lit)
                     ELSE IF v.k = "none" THEN VStr("None", 0, FALSE)       \* str(None)
                     ELSE VFail
    [] OTHER -> VFail
ParseValue(f, v) == LET c == Conv(f.ty, v) IN
                    IF c.k = "FAIL" THEN VFail ELSE IF Conforms(c, f) THEN c ELSE VFail

(* ---- M: instance state [data, ad] and the getter ------------------------ *)
(* property fields compute  mul * <dep>  from the attribute view of their dependency *)
RECURSIVE GetAttr(_, _, _)
GetAttr(c, st, f) ==              \* Schema.__field_getter__ ; VFail = AttributeError
  IF Has(st.data, f.out) THEN Get(st.data, f.out)
  ELSE IF Has(st.ad, f.att) THEN Get(st.ad, f.att)
  ELSE IF f.prop THEN LET d == GetAttr(c, st, FieldByAtt(c, f.dep)) IN
                      IF d.k = "int" THEN VInt(f.mul * d.n) ELSE VFail
  ELSE VFail
GetAttrDC(c, st, f) ==            \* ClassParser.make_getter ; properties are plain python properties
  IF f.prop THEN (IF Has(st.ad, f.dep) /\ Get(st.ad, f.dep).k = "int" THEN VInt(f.mul * Get(st.ad, f.dep).n) ELSE VFail)
  ELSE IF Has(st.ad, f.att) THEN Get(st.ad, f.att) ELSE VFail

\* results of a recalculation: [st |-> state, failed |-> the recalculated value was rejected (raises under force_error)]
Coerce(c, st, f) ==               \* Schema.__coerce_property__
  IF f.noout THEN [st |-> st, failed |-> FALSE]
  ELSE LET df == FieldByAtt(c, f.dep) IN
       IF ~Has(st.data, df.out) /\ ~Has(st.ad, df.att) THEN [st |-> st, failed |-> FALSE]
       ELSE LET a == GetAttr(c, st, df) IN
            IF a.k # "int" THEN [st |-> st, failed |-> FALSE]          \* fget raised: warn and return
            ELSE LET v == ParseValue(f, VInt(f.mul * a.n)) IN
                 IF v.k = "FAIL" THEN [st |-> st, failed |-> TRUE]
                 ELSE [st |-> [st EXCEPT !.data = Put(st.data, f.out, v)], failed |-> FALSE]
RECURSIVE CoerceAll(_, _, _)
CoerceAll(c, r, idxs) == IF idxs = {} THEN r
                         ELSE LET x == CHOOSE y \in idxs : \A z \in idxs : y <= z
                                  n == Coerce(c, r.st, c.fields[x]) IN
                              CoerceAll(c, [st |-> n.st, failed |-> r.failed \/ n.failed], idxs \ {x})

(* Results of an operation: [st |-> new state, raised |-> BOOLEAN] *)
Ok(st)     == [st |-> st, raised |-> FALSE]
Raise(st)  == [st |-> st, raised |-> TRUE]

FieldSetter(c, st, f, v) ==       \* Schema.__field_setter__ (a failing recalculation restores the state)
  IF f.imm THEN Raise(st)
  ELSE LET p == IF f.prop THEN v ELSE ParseValue(f, v) IN       \* a getter-only property takes no input: recalculated
       IF p.k = "FAIL" THEN Raise(st)
       ELSE LET s1 == IF f.prop THEN Coerce(c, st, f)
                      ELSE IF f.noout THEN [st |-> [data |-> Del(st.data, f.out), ad |-> Put(st.ad, f.att, p)], failed |-> FALSE]
                      ELSE [st |-> [st EXCEPT !.data = Put(st.data, f.out, p)], failed |-> FALSE]
                r == CoerceAll(c, s1, Dependants(c, f))
            IN IF r.failed THEN Raise(st) ELSE Ok(r.st)

AdditionValue(c, v) ==            \* BaseParser.parse_addition for the declared policy
  CASE c.addition = "any" -> v
    [] c.addition = "int" -> Conv("int", v)
    [] OTHER -> VFail
SetItem(c, st, key, v) ==         \* Schema.__setitem__
  IF HasField(c, key) THEN FieldSetter(c, st, FieldOf(c, key), v)
  ELSE CASE c.addition = "none"   -> Ok(st)                                   \* ignored
         [] c.addition = "forbid" -> Raise(st)
         [] OTHER -> LET a == AdditionValue(c, v) IN
                     IF a.k = "FAIL" THEN Raise(st) ELSE Ok([st EXCEPT !.data = Put(st.data, key, a)])
SetAttr(c, st, att, v) ==         \* setattr(inst, att, v) through the generated property
  LET f == FieldByAtt(c, att) IN
  IF f.prop THEN Raise(st)        \* read-only python property: AttributeError
  ELSE FieldSetter(c, st, f, v)

FieldDeleter(c, st, f) ==         \* Schema.__field_deleter__ without fdel
  IF f.imm THEN Raise(st)
  ELSE IF f.req THEN Raise(st)
  ELSE IF ~Has(st.data, f.out) THEN Raise(st)
  ELSE Ok([data |-> Del(st.data, f.out), ad |-> Del(st.ad, f.att)])
DelItem(c, st, key) ==
  IF HasField(c, key) THEN FieldDeleter(c, st, FieldOf(c, key))
  ELSE IF Has(st.data, key) THEN Ok([st EXCEPT !.data = Del(st.data, key)]) ELSE Raise(st)
DelAttr(c, st, att) ==
  LET f == FieldByAtt(c, att) IN IF f.prop THEN Raise(st) ELSE FieldDeleter(c, st, f)

Pop(c, st, key, hasDefault) ==    \* Schema.pop
  IF ~HasField(c, key) THEN (IF Has(st.data, key) THEN Ok([st EXCEPT !.data = Del(st.data, key)]) ELSE Raise(st))
  ELSE LET f == FieldOf(c, key) IN
       IF f.imm \/ f.req THEN Raise(st)
       ELSE IF ~Has(st.data, f.out) THEN (IF hasDefault THEN Ok([st EXCEPT !.ad = Del(st.ad, f.att)]) ELSE Raise(st))
       ELSE Ok([data |-> Del(st.data, f.out), ad |-> Del(st.ad, f.att)])
PopItem(c, st) ==                 \* Schema.popitem: last key through __delitem__  (orig: dict.popitem, no deleter involved)
  IF st.data = <<>> THEN Raise(st)
  ELSE IF Variant = "orig" THEN Ok([st EXCEPT !.data = Del(st.data, st.data[Len(st.data)].k)])
  ELSE DelItem(c, st, st.data[Len(st.data)].k)
SetDefault(c, st, key, v) ==      \* Schema.setdefault  (orig: dict.setdefault, the value is stored as given)
  LET present == IF HasField(c, key) THEN Has(st.data, FieldOf(c, key).out) ELSE Has(st.data, key) IN
  IF Variant = "orig" THEN (IF Has(st.data, key) THEN Ok(st) ELSE Ok([st EXCEPT !.data = Put(st.data, key, v)]))
  ELSE IF present THEN Ok(st) ELSE SetItem(c, st, key, v)
Clear(c, st) ==                   \* Schema.clear: the mapping and the cached attribute values of its keys
  IF \E x \in 1..Len(c.fields) : c.fields[x].imm \/ c.fields[x].req THEN Raise(st)
  ELSE LET cleared == {c.fields[x].att : x \in {y \in 1..Len(c.fields) : Has(st.data, c.fields[y].out)}} IN
       Ok([data |-> <<>>, ad |-> SelectSeq(st.ad, LAMBDA e : e.k \notin cleared)])
RECURSIVE RawUpdate(_, _)
RawUpdate(st, kvs) == IF kvs = <<>> THEN st ELSE RawUpdate([st EXCEPT !.data = Put(st.data, kvs[1].k, kvs[1].v)], Tail(kvs))    \* dict.__ior__
RECURSIVE Update(_, _, _)
Update(c, st, kvs) ==             \* Schema.update / |= : key by key, stops at the first failure
  IF kvs = <<>> THEN Ok(st)
  ELSE LET r == SetItem(c, st, kvs[1].k, kvs[1].v) IN
       IF r.raised THEN r ELSE Update(c, r.st, Tail(kvs))

(* DataClass (attribute-based) *)
SetAttrDC(c, st, att, v) ==       \* ClassParser.make_setter
  LET f == FieldByAtt(c, att) IN
  IF f.prop \/ f.imm THEN Raise(st)
  ELSE LET p == ParseValue(f, v) IN
       IF p.k = "FAIL" THEN Raise(st) ELSE Ok([st EXCEPT !.ad = Put(st.ad, f.att, p)])
DelAttrDC(c, st, att) ==          \* ClassParser.make_deleter
  LET f == FieldByAtt(c, att) IN
  IF f.prop \/ f.imm \/ f.req \/ ~Has(st.ad, f.att) THEN Raise(st)
  ELSE Ok([st EXCEPT !.ad = Del(st.ad, f.att)])

(* one dispatcher for both MC and trace validation; op = [op, key, v, kvs, hasd] *)
Apply(c, st, o) ==
  IF c.base = "DataClass"
  THEN CASE o.op = "setattr" -> SetAttrDC(c, st, o.key, o.v)
         [] o.op = "delattr" -> DelAttrDC(c, st, o.key)
         [] OTHER -> Raise(st)
  ELSE CASE o.op = "setattr" -> SetAttr(c, st, o.key, o.v)
         [] o.op = "setitem" -> SetItem(c, st, o.key, o.v)
         [] o.op = "delattr" -> DelAttr(c, st, o.key)
         [] o.op = "delitem" -> DelItem(c, st, o.key)
         [] o.op = "pop"     -> Pop(c, st, o.key, o.hasd)
         [] o.op = "popitem" -> PopItem(c, st)
         [] o.op = "setdefault" -> SetDefault(c, st, o.key, o.v)
         [] o.op = "clear"   -> Clear(c, st)
         [] o.op = "ior" /\ Variant = "orig" -> Ok(RawUpdate(st, o.kvs))
         [] o.op \in {"update", "ior", "updatekw"} -> Update(c, st, o.kvs)
         [] OTHER -> Raise(st)

(* ---- M: construction (inputs given under accepted keys, assumed valid) -- *)
RECURSIVE NewFields(_, _, _, _)
NewFields(c, input, x, st) ==
  IF x > Len(c.fields) THEN st
  ELSE LET f == c.fields[x]
           given == {y \in 1..Len(input) : InSeq(input[y].k, f.keys)}
           v == IF given # {} THEN ParseValue(f, input[CHOOSE y \in given : TRUE].v)
                ELSE IF f.hasdef THEN f.def ELSE VFail
           s1 == IF f.prop \/ v.k = "FAIL" THEN st
                 ELSE IF f.noout THEN [st EXCEPT !.ad = Put(st.ad, f.att, v)]
                 ELSE IF c.base = "DataClass" THEN [st EXCEPT !.ad = Put(st.ad, f.att, v)]
                 ELSE [data |-> Put(st.data, f.out, v), ad |-> Put(st.ad, f.att, v)]
       IN NewFields(c, input, x + 1, s1)
RECURSIVE NewAdditions(_, _, _, _)
NewAdditions(c, input, y, st) ==      \* keys that belong to no field: parse_addition, kept in both dicts
  IF y > Len(input) THEN st
  ELSE LET a == AdditionValue(c, input[y].v) IN
       NewAdditions(c, input, y + 1,
                    IF HasField(c, input[y].k) \/ a.k = "FAIL" \/ c.base = "DataClass" THEN st
                    ELSE [data |-> Put(st.data, input[y].k, a), ad |-> Put(st.ad, input[y].k, a)])
New(c, input) ==
  LET s0 == NewAdditions(c, input, 1, NewFields(c, input, 1, [data |-> <<>>, ad |-> <<>>])) IN
  IF c.base = "DataClass" THEN s0
  ELSE CoerceAll(c, [st |-> s0, failed |-> FALSE], {x \in 1..Len(c.fields) : c.fields[x].prop}).st

(* ---- P: the observable views -------------------------------------------- *)
(* A view is what the harness projects from the real object and what M computes from its own state:  *)
(*   data  : the mapping, in order (Schema only)                                                    *)
(*   attrs : sequence over c.fields of [k |-> att, v |-> value or VFail (AttributeError)]            *)
ViewOf(c, st) ==
  [data  |-> st.data,
   attrs |-> [x \in 1..Len(c.fields) |->
               [k |-> c.fields[x].att,
                v |-> IF c.base = "DataClass" THEN GetAttrDC(c, st, c.fields[x]) ELSE GetAttr(c, st, c.fields[x])]]]
AttrOf(view, att) == Get(view.attrs, att)
Readable(view, att) == AttrOf(view, att).k # "FAIL"

ValidConform(c, view) ==      \* every present field value conforms; no unparsed data
  /\ \A x \in 1..Len(c.fields) : LET f == c.fields[x] IN
        /\ (Has(view.data, f.out) => Conforms(Get(view.data, f.out), f))
        /\ (Readable(view, f.att) => Conforms(AttrOf(view, f.att), f))
  /\ (c.addition = "int" =>
        \A y \in 1..Len(view.data) : (~\E x \in 1..Len(c.fields) : c.fields[x].out = view.data[y].k)
                                       => IsA(view.data[y].v, "int"))
ValidRequired(c, view) ==     \* required fields are present
  \A x \in 1..Len(c.fields) : LET f == c.fields[x] IN
     f.req => /\ Readable(view, f.att)
              /\ (c.base # "DataClass" /\ ~f.noout => Has(view.data, f.out))
ValidImmutable(c, view, init) ==   \* immutable fields hold their initial value
  \A x \in 1..Len(c.fields) : LET f == c.fields[x] IN
     f.imm => AttrOf(view, f.att) = AttrOf(init, f.att)
              /\ (Has(init.data, f.out) <=> Has(view.data, f.out))
              /\ (Has(init.data, f.out) => Get(view.data, f.out) = Get(init.data, f.out))
ValidViews(c, view) ==        \* the key view and the attribute view agree
  c.base # "DataClass" =>
  \A x \in 1..Len(c.fields) : LET f == c.fields[x] IN
     IF f.noout THEN ~Has(view.data, f.out)
     ELSE IF f.prop THEN (Has(view.data, f.out) => AttrOf(view, f.att) = Get(view.data, f.out))
     ELSE /\ (Has(view.data, f.out) <=> Readable(view, f.att))
          /\ (Has(view.data, f.out) => AttrOf(view, f.att) = Get(view.data, f.out))
\* a computed property equals the recomputation from its current dependency.  When the dependency has been
\* deleted the last computed value may stay (tests/test_cls.py::test_property: "slug is not affected").
ValidProps(c, view) ==
  \A x \in 1..Len(c.fields) : LET f == c.fields[x] IN
     f.prop => LET dv == AttrOf(view, f.dep) IN
               /\ (Readable(view, f.att) /\ dv.k = "int" => AttrOf(view, f.att).n = f.mul * dv.n)
               /\ (Has(view.data, f.out) /\ dv.k = "int" => Get(view.data, f.out).n = f.mul * dv.n)
Valid(c, view, init) == /\ ValidConform(c, view) /\ ValidRequired(c, view) /\ ValidImmutable(c, view, init)
                        /\ ValidViews(c, view) /\ ValidProps(c, view)
FailingClause(c, view, init) ==
  IF ~ValidConform(c, view) THEN "Valid.conform"
  ELSE IF ~ValidRequired(c, view) THEN "Valid.required"
  ELSE IF ~ValidImmutable(c, view, init) THEN "Valid.immutable"
  ELSE IF ~ValidViews(c, view) THEN "Valid.views"
  ELSE IF ~ValidProps(c, view) THEN "Valid.props" ELSE "none"

SingleKey(o) == o.op \in {"setattr", "setitem", "delattr", "delitem", "pop", "popitem", "setdefault"}
                \/ (o.op \in {"update", "ior", "updatekw"} /\ Len(o.kvs) <= 1)
(* a single-key operation that raised left the instance as it was *)
StepOk(o, raised, before, after) == (raised /\ SingleKey(o)) => after = before
=============================================================================
