------------------------------ MODULE MC_Logical ------------------------------
(* All argument tables over a 3-value universe: an argument maps each value to a value or rejects it.  M |= P?  *)
EXTENDS Logical
CONSTANT Op
U == 1..3
VI(n) == [k |-> "int", t |-> <<"int", "object">>, n |-> n, d |-> 1, s |-> "", ln |-> 1, items |-> <<>>, ks |-> <<>>, dg |-> <<n>>, ex |-> 0]
Tables == {f \in [U -> 0..3] : \A n \in U : f[n] # 0 => f[f[n]] = f[n]}   \* 0 = reject; an argument accepts its own output unchanged (C03)
Res(f, n) == IF f[n] = 0 THEN Fail(VI(n)) ELSE Okv(VI(f[n]))
VARIABLES f1, f2, x
Init == f1 \in Tables /\ f2 \in Tables /\ x \in U
Next == UNCHANGED <<f1, f2, x>>
Spec == Init /\ [][Next]_<<f1, f2, x>>
Fs == <<f1, f2>>
\* what args[i] makes of candidate k (1 = x, j+1 = args[j](x))
Cand(k) == IF k = 1 THEN x ELSE Fs[k - 1][x]
Case == [op |-> Op, x |-> VI(x), exact |-> <<FALSE, FALSE>>,
         strict |-> <<Res(f1, x), Res(f2, x)>>, noloss |-> <<Res(f1, x), Res(f2, x)>>,
         tab |-> [i \in 1..2 |-> [k \in 1..3 |-> IF Cand(k) = 0 THEN Fail(VI(x)) ELSE Res(Fs[i], Cand(k))]],
         perms |-> <<>>, chain |-> Fail(VI(x))]
Swapped == [Case EXCEPT !.tab = [i \in 1..2 |-> [k \in 1..3 |-> Case.tab[3 - i][IF k = 1 THEN 1 ELSE 5 - k]]],
                        !.strict = <<Case.strict[2], Case.strict[1]>>, !.noloss = <<Case.noloss[2], Case.noloss[1]>>]
\* an argument "conforms" when it accepts the value unchanged
ConfM(v, i) == Fs[i][v.n] = v.n
P_M == CASE Op = "union" -> P_Union(Case, Model(Case), ConfM)
         [] Op = "xor"   -> P_Xor(Case, Model(Case)) /\ Model(Swapped).ok = Model(Case).ok
         [] Op = "not"   -> P_Not(Case, Model(Case))
=============================================================================
