---------------------------- MODULE Export_Convert ----------------------------
(* Writes the sources of MC_Convert out for the replay into the real converters. *)
EXTENDS MC_Convert, Json, IOUtils, SequencesExt
ASSUME ndJsonSerialize(IOEnv.OUT_CASES, SetToSeq(Sources))
ESpec == src = 0 /\ tgt = 0 /\ ne = 0 /\ ndl = 0 /\ [][Next]_<<src, tgt, ne, ndl>>
=============================================================================
