---------------------------- MODULE Trace_FuncBind ----------------------------
EXTENDS FuncBind, Json, IOUtils
Tr == ndJsonDeserialize(IOEnv.TRACE_FILE)
VARIABLE tid
TInit == tid \in 1..Len(Tr)
TSpec == TInit /\ [][UNCHANGED tid]_tid
R == Tr[tid]
JudgeP == IF R.kind = "call" THEN P_Bind(R.sig, R.r) \/ PrintT(<<"VIOL", R.id, WhyNot(R.sig, R.r)>>)
          ELSE P_Gen(R.r) \/ PrintT(<<"VIOL", R.id, "generator-protocol">>)
JudgeRef == R.kind # "call" \/ P_Ref(R.sig, R.call, R.r) \/ PrintT(<<"MVIOL", R.id>>)
=============================================================================
