-------------------------------- MODULE Codec --------------------------------
(***************************************************************************)
(* C14 -- JSON encoding round-trips through the parser.                     *)
(*   utype/utils/encode.py      registered encoders (the lexical form each   *)
(*                              value shape is published in)                 *)
(*   utype/utils/transform.py   to_datetime / to_date / to_time /            *)
(*                              to_timedelta / to_decimal / to_uuid / ...    *)
(* The model is about the protocol between the two separately written         *)
(* tables: Enc(kind, shape) is the lexical form class an encoder emits for a   *)
(* value shape, Dec(kind, form) what the reader makes of that form.  Values    *)
(* themselves (digits, dates) are not modelled: value-level fidelity is        *)
(* judged on recorded executions (P_RoundTrip).                               *)
(***************************************************************************)
EXTENDS Naturals, Sequences, TLC
CONSTANT EnumLookup         \* how to_enum reads a string: "name-first" (pinned commit) or "value-first" (commit de78d5e; a member name only when it is no value)
CONSTANT Variant            \* "orig": the reader retries with %z only when the text contains '+'; "fixed": for any trailing offset

Kinds == {"datetime", "date", "time", "timedelta", "decimal", "uuid", "enum", "bytes", "set", "tuple", "dict", "int", "float", "str", "bool", "none"}
Shapes(k) ==
  CASE k = "datetime"  -> {[tz |-> tz, frac |-> f] : tz \in {"naive", "utc", "plus", "minus"}, f \in BOOLEAN}
    [] k = "time"      -> {[tz |-> "naive", frac |-> f] : f \in {"none", "ms"}}                 \* millisecond precision (statement)
    [] k = "timedelta" -> {[sign |-> s, days |-> d, frac |-> f] : s \in {"pos", "neg"}, d \in BOOLEAN, f \in BOOLEAN}
    [] k = "decimal"   -> {[form |-> f] : f \in {"integral", "fractional", "beyond53"}}
    [] k = "enum"      -> {[form |-> f] : f \in {"plain", "value-names-another-member"}}     \* class Swap(Enum): A = 'B'; B = 'A'
    [] OTHER           -> {[form |-> "plain"]}
\* ---- encoders (encode.py) -------------------------------------------------------------------------------------------------
Enc(k, sh) ==
  CASE k = "datetime"  -> [lex |-> "iso-datetime", offset |-> IF sh.tz = "naive" THEN "none" ELSE IF sh.tz = "minus" THEN "-" ELSE "+", frac |-> sh.frac]
    [] k = "date"      -> [lex |-> "iso-date", offset |-> "none", frac |-> FALSE]
    [] k = "time"      -> [lex |-> "iso-time", offset |-> "none", frac |-> sh.frac = "ms"]       \* isoformat()[:12]
    [] k = "timedelta" -> [lex |-> IF sh.sign = "neg" THEN "-PnDTnHnMnS" ELSE "PnDTnHnMnS", offset |-> "none", frac |-> sh.frac]
    [] k = "decimal"   -> [lex |-> IF sh.form = "integral" THEN "json-int" ELSE IF sh.form = "fractional" THEN "json-float" ELSE "numeric-string",
                           offset |-> "none", frac |-> FALSE]
    [] k \in {"set", "tuple"} -> [lex |-> "json-array", offset |-> "none", frac |-> FALSE]
    [] k = "dict"      -> [lex |-> "json-object", offset |-> "none", frac |-> FALSE]
    [] k = "enum"      -> [lex |-> IF sh.form = "plain" THEN "json-string" ELSE "json-string-naming-another-member", offset |-> "none", frac |-> FALSE]   \* the value
    [] k \in {"uuid", "bytes", "str"} -> [lex |-> "json-string", offset |-> "none", frac |-> FALSE]
    [] OTHER           -> [lex |-> "json-native", offset |-> "none", frac |-> FALSE]
FailD == [form |-> "FAIL"]
\* ---- readers (transform.py): which forms they accept and what they preserve -------------------------------------------------
Dec(k, f) ==
  CASE k = "datetime" ->
         IF f.lex # "iso-datetime" THEN FailD
         ELSE IF f.offset = "none" THEN [tz |-> "naive", frac |-> f.frac]                       \* strptime with the plain formats
         ELSE IF f.offset = "+" THEN [tz |-> "aware", frac |-> f.frac]                          \* if '+' in str(data): strptime(f + '%z')
         ELSE IF Variant = "fixed" THEN [tz |-> "aware", frac |-> f.frac] ELSE FailD            \* '-hh:mm' : no '+' in the text
    [] k = "date" -> IF f.lex = "iso-date" THEN [form |-> "plain"] ELSE FailD
    [] k = "time" -> IF f.lex = "iso-time" THEN [tz |-> "naive", frac |-> IF f.frac THEN "ms" ELSE "none"] ELSE FailD
    [] k = "timedelta" -> IF f.lex \in {"PnDTnHnMnS", "-PnDTnHnMnS"}
                            THEN [sign |-> IF f.lex = "-PnDTnHnMnS" THEN "neg" ELSE "pos", frac |-> f.frac] ELSE FailD
    [] k = "decimal" -> IF f.lex \in {"json-int", "json-float", "numeric-string"} THEN [form |-> "same-value"] ELSE FailD
    [] k = "enum" -> IF f.lex = "json-string-naming-another-member" /\ EnumLookup = "name-first" THEN [form |-> "another-member"] ELSE [form |-> "plain"]
    [] OTHER -> [form |-> "plain"]
\* what must survive the round trip, per kind
Kept(k, sh) ==
  CASE k = "datetime"  -> [tz |-> IF sh.tz = "naive" THEN "naive" ELSE "aware", frac |-> sh.frac]
    [] k = "time"      -> [tz |-> "naive", frac |-> sh.frac]
    [] k = "timedelta" -> [sign |-> sh.sign, frac |-> sh.frac]
    [] k = "decimal"   -> [form |-> "same-value"]
    [] OTHER           -> [form |-> "plain"]
P_FormsRoundTrip == \A k \in Kinds : \A sh \in Shapes(k) : Dec(k, Enc(k, sh)) = Kept(k, sh)

(* ---- P on a recorded round trip r = [encoded, stdjson, decoded, cin, cout (canonical text of the instance before / after)] ---- *)
P_RoundTrip(r) == r.encoded /\ r.stdjson /\ r.decoded /\ r.cin = r.cout
WhyNot(r) == IF ~r.encoded THEN "encode-failed" ELSE IF ~r.stdjson THEN "not-standard-json" ELSE IF ~r.decoded THEN "parse-failed" ELSE "not-equal"
=============================================================================
