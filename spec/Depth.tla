-------------------------------- MODULE Depth --------------------------------
(***************************************************************************)
(* C18 -- the depth limit is exact and parse cost stays bounded.            *)
(*   utype/parser/options.py  RuntimeContext.__init__ (depth / route          *)
(*                            accounting, DepthExceedError), enter            *)
(*   utype/parser/cls.py      nested data-class context creation              *)
(*   utype/parser/rule.py     staged union retries                            *)
(* An input is a tree [cls, cyc, falsy, kids]: cls = the node is parsed into   *)
(* a data class, cyc = back edge of a cyclic input, falsy = the route under    *)
(* which its parent reaches it is 0 or '' (a fact about the input).            *)
(* M-layer: the context chain as coded: a route-less context (a data class)    *)
(* counts one level; Variant "orig" also counts a context whose route is       *)
(* falsy (`if route:`), "fixed" tests `route is not None`.                     *)
(* P-layer: accepted exactly when the data-class nesting depth is <= d;        *)
(* work (leaf conversions) within a fixed polynomial of size and depth.        *)
(***************************************************************************)
EXTENDS Naturals, Sequences, FiniteSets, TLC
CONSTANT Variant
Inf == 999
Max(S) == IF S = {} THEN 0 ELSE CHOOSE m \in S : \A x \in S : x <= m
RECURSIVE ClassDepth(_)
ClassDepth(t) == IF t.cyc THEN Inf
                 ELSE LET below == Max({ClassDepth(t.kids[x]) : x \in 1..Len(t.kids)}) IN
                      IF below >= Inf THEN Inf ELSE (IF t.cls THEN 1 ELSE 0) + below
RECURSIVE Size(_)
Size(t) == 1 + (IF t.cyc THEN 0 ELSE Max({0}) + LET s == [x \in 1..Len(t.kids) |-> Size(t.kids[x])] IN
                                     IF Len(s) = 0 THEN 0 ELSE LET RECURSIVE Sum(_) Sum(i) == IF i = 0 THEN 0 ELSE s[i] + Sum(i - 1) IN Sum(Len(s)))
\* P
P_Exact(t, d, ok) == ok <=> (d = 0 \/ ClassDepth(t) <= d)                 \* d = 0: no limit
Bound(size, depth) == 8 * size * (depth + 1) * (depth + 1) + 64
P_Cost(size, depth, work) == work <= Bound(size, depth)

\* M, one step: the depth a new context gets (RuntimeContext.__init__): a route-less context is one more data-class level
CtxDepth(parentDepth, routeNone, falsy) == parentDepth + (IF routeNone THEN 1 ELSE IF Variant = "orig" /\ falsy THEN 1 ELSE 0)
\* M: deepest context depth reached while walking the input (Inf on a cycle)
RECURSIVE Deepest(_, _)
Deepest(t, depth) ==
  LET mine == depth + (IF Variant = "orig" /\ t.falsy THEN 1 ELSE 0)          \* context.enter(route): `if route: ... else: depth += 1`
      here == mine + (IF t.cls THEN 1 ELSE 0) IN                                \* make_context(context=...): route None
  IF t.cyc THEN Inf
  ELSE Max({here} \cup {Deepest(t.kids[x], here) : x \in 1..Len(t.kids)})
MOk(t, d) == d = 0 \/ Deepest(t, 0) <= d
=============================================================================
