----------------------------- MODULE ArgsPolicy -----------------------------
(***************************************************************************)
(* C11 -- exclude / preserve policies touch only the offending elements.    *)
(*   utype/parser/rule.py   _parse_seq_args / _parse_tuple_args /            *)
(*                          _parse_map_args (policy branches)                *)
(*   utype/parser/field.py  ParserField.parse_value (on_error)               *)
(*   utype/parser/base.py   parse_addition ; func.py parse_pos_type          *)
(*                                                                         *)
(* A case lists the elements of the input, each observed alone:             *)
(*   entries[i] = [rawk, rawv, ck, cv, koff, voff, req]                       *)
(*     rawk/rawv raw key and value (sequences: key unused), ck/cv what the   *)
(*     key/value type makes of them alone, koff/voff "rejected alone",       *)
(*     req: a required data-class field.                                     *)
(* Expected is the element-wise reference: policy by policy, element by      *)
(* element (P-layer).  M is the loop as coded, including the error handler   *)
(* that indexes the input (sets cannot be indexed).                          *)
(***************************************************************************)
EXTENDS Values
CONSTANT Variant                       \* "orig": value[i] in the error handler of _parse_seq_args ; "fixed": item

\* fate of one element under its policy: "keep" (converted), "raw" (preserved), "drop", "error"
Fate(off, policy, req) == IF ~off THEN "keep"
                          ELSE IF policy = "exclude" THEN (IF req THEN "error" ELSE "drop")     \* a required field is never excluded
                          ELSE IF policy = "preserve" THEN "raw" ELSE "error"
\* every entry carries the policy that governs its key (kpol) and its value (pol: the class policy or the field's own on_error)
KeyFate(c, i) == Fate(c.entries[i].koff, c.entries[i].kpol, FALSE)
ValFate(c, i) == Fate(c.entries[i].voff, c.entries[i].pol, c.entries[i].req)
Dropped(c, i) == KeyFate(c, i) = "drop" \/ ValFate(c, i) = "drop"
Errors(c, i)  == KeyFate(c, i) = "error" \/ (KeyFate(c, i) # "drop" /\ ValFate(c, i) = "error")
ExpOk(c) == \A i \in 1..Len(c.entries) : ~Errors(c, i)
Kept(c) == SelectSeq([i \in 1..Len(c.entries) |-> i], LAMBDA i : ~Dropped(c, i))
ExpKeys(c) == [j \in 1..Len(Kept(c)) |-> LET e == c.entries[Kept(c)[j]] IN IF KeyFate(c, Kept(c)[j]) = "raw" THEN e.rawk ELSE e.ck]
ExpVals(c) == [j \in 1..Len(Kept(c)) |-> LET e == c.entries[Kept(c)[j]] IN IF ValFate(c, Kept(c)[j]) = "raw" THEN e.rawv ELSE e.cv]
\* the real result r = [ok, keys, vals] equals the expectation (sets and maps compared as such)
SameSeq(a, b) == Len(a) = Len(b) /\ \A i \in 1..Len(a) : PyEq(a[i], b[i])
SameBag(a, b) == (\A i \in 1..Len(a) : \E j \in 1..Len(b) : PyEq(a[i], b[j])) /\ (\A j \in 1..Len(b) : \E i \in 1..Len(a) : PyEq(a[i], b[j]))
SameMap(ka, va, kb, vb) == /\ \A i \in 1..Len(ka) : \E j \in 1..Len(kb) : PyEq(ka[i], kb[j]) /\ PyEq(va[i], vb[j])
                           /\ \A j \in 1..Len(kb) : \E i \in 1..Len(ka) : PyEq(ka[i], kb[j]) /\ PyEq(va[i], vb[j])
P_Elementwise(c, r) ==
  /\ r.ok = ExpOk(c)
  /\ (r.ok => CASE c.shape = "seq" -> SameSeq(r.vals, ExpVals(c))
                [] c.shape = "set" -> SameBag(r.vals, ExpVals(c))
                [] OTHER -> SameMap(r.keys, r.vals, ExpKeys(c), ExpVals(c)))
\* with 'exclude' the result equals strict parsing of the input with exactly the offending elements removed (r.filtered)
NoRaw(c) == \A i \in 1..Len(c.entries) : KeyFate(c, i) # "raw" /\ (KeyFate(c, i) = "drop" \/ ValFate(c, i) # "raw")
P_Filtered(c, r) == (c.anyexclude /\ NoRaw(c) /\ r.ok /\ r.filtered.ok) =>
                      CASE c.shape = "seq" -> SameSeq(r.vals, r.filtered.vals)
                        [] c.shape = "set" -> SameBag(r.vals, r.filtered.vals)
                        [] OTHER -> SameMap(r.keys, r.vals, r.filtered.keys, r.filtered.vals)

\* data-class fields: the instance equals the strict parse of the input without the offending keys (which supplies the
\* defaults of excluded and absent fields), with the preserved raw values put back under their keys
RawIdx(c) == {i \in 1..Len(c.entries) : ValFate(c, i) = "raw"}
OverlayK(c, f) == SelectSeq(f.keys, LAMBDA k : ~\E i \in RawIdx(c) : c.entries[i].rawk.s = k.s)
OverlayIdx(c, f) == SelectSeq([j \in 1..Len(f.keys) |-> j], LAMBDA j : ~\E i \in RawIdx(c) : c.entries[i].rawk.s = f.keys[j].s)
RawSeq(c) == SelectSeq([i \in 1..Len(c.entries) |-> i], LAMBDA i : i \in RawIdx(c))
P_Fields(c, r) ==
  /\ r.ok = ExpOk(c)
  /\ (r.ok /\ r.filtered.ok =>
        SameMap(r.keys, r.vals,
                [j \in 1..Len(OverlayIdx(c, r.filtered)) |-> r.filtered.keys[OverlayIdx(c, r.filtered)[j]]] \o [j \in 1..Len(RawSeq(c)) |-> c.entries[RawSeq(c)[j]].rawk],
                [j \in 1..Len(OverlayIdx(c, r.filtered)) |-> r.filtered.vals[OverlayIdx(c, r.filtered)[j]]] \o [j \in 1..Len(RawSeq(c)) |-> c.entries[RawSeq(c)[j]].rawv]))

(* ---- M: the loops as coded ------------------------------------------------------------------------------------- *)
\* _parse_seq_args builds ParseError(value=value[i]) inside the handler: for a set that raises TypeError whatever the policy
MOk(c) == IF Variant = "orig" /\ c.indexable = FALSE /\ \E i \in 1..Len(c.entries) : c.entries[i].voff THEN FALSE
          ELSE ExpOk(c)
=============================================================================
