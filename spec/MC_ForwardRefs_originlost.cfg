SPECIFICATION MCSpecFunc
CONSTANTS
  FixReturn = TRUE
  FixOrigin = FALSE
  Inherit = TRUE
  Variant = "fixed"
CONSTRAINT MRefute
