---------------------------- MODULE MC_DataLoops ----------------------------
(***************************************************************************)
(* The universe of DataLoops: every declaration of 1..MaxFields fields drawn  *)
(* from the field shapes x every options record with at most MaxSettings      *)
(* non-default settings x every input of at most MaxLen entries over the      *)
(* declared names, their letter-case variants and an unknown key, with valid, *)
(* convertible and invalid values.  This module is the single definition of   *)
(* that universe: Export_DataLoops writes it out for the replay into the code *)
(* and Trace_DataLoops rebuilds the case from the names recorded.             *)
(***************************************************************************)
EXTENDS DataLoops, Json
CONSTANTS ShapeNames, PairShapes, MaxSettings, MaxLen, MaxLen2

K(s) == [s |-> s, low |-> CASE s = "A" -> "a" [] s = "B" -> "b" [] s = "AL" -> "al" [] s = "BL" -> "bl" [] s = "A2" -> "a2" [] s = "B2" -> "b2"
                            [] s = "Ax" -> "ax" [] s = "Bx" -> "bx" [] s = "AX" -> "ax" [] s = "BX" -> "bx" [] s = "AD" -> "ad" [] s = "BD" -> "bd"
                            [] s = "Al" -> "al" [] s = "Bl" -> "bl" [] s = "ZZ" -> "zz" [] OTHER -> s]
Up(a) == IF a = "a" THEN "A" ELSE "B"
Oth(a) == IF a = "a" THEN "b" ELSE "a"
Fld(att, out, extra, ci, req, hasdef, def, defer, noin, noout, fmode, deps) ==
  [att |-> att, out |-> out, keys |-> <<K(att)>> \o (IF out # att THEN <<K(out)>> ELSE <<>>) \o [y \in 1..Len(extra) |-> K(extra[y])],
   ci |-> ci, req |-> req /\ ~hasdef, hasdef |-> hasdef, def |-> IF hasdef THEN VInt(def) ELSE Unprov, defer |-> defer, noin |-> noin,
   noout |-> noout, fmode |-> fmode, deps |-> deps]
\* the field shapes of harness/drivers/c05.py (SHAPES), here as the source of truth
Shape(n, a) ==
  CASE n = "req"      -> Fld(a, a, <<>>, FALSE, TRUE, FALSE, 0, FALSE, FALSE, FALSE, <<>>, <<>>)
    [] n = "def"      -> Fld(a, a, <<>>, FALSE, TRUE, TRUE, 7, FALSE, FALSE, FALSE, <<>>, <<>>)
    [] n = "opt"      -> Fld(a, a, <<>>, FALSE, FALSE, FALSE, 0, FALSE, FALSE, FALSE, <<>>, <<>>)
    [] n = "alias"    -> Fld(a, Up(a) \o "L", <<a \o "2">>, FALSE, FALSE, FALSE, 0, FALSE, FALSE, FALSE, <<>>, <<>>)
    [] n = "aliasreq" -> Fld(a, a, <<a \o "2", a \o "3">>, FALSE, TRUE, FALSE, 0, FALSE, FALSE, FALSE, <<>>, <<>>)
    [] n = "ci"       -> Fld(a, a, <<Up(a) \o "x">>, TRUE, FALSE, FALSE, 0, FALSE, FALSE, FALSE, <<>>, <<>>)
    [] n = "cidef"    -> Fld(a, a, <<>>, TRUE, TRUE, TRUE, 8, FALSE, FALSE, FALSE, <<>>, <<>>)
    [] n = "noin"     -> Fld(a, a, <<>>, FALSE, TRUE, TRUE, 6, FALSE, TRUE, FALSE, <<>>, <<>>)
    [] n = "noinreq"  -> Fld(a, a, <<>>, FALSE, TRUE, FALSE, 0, FALSE, TRUE, FALSE, <<>>, <<>>)
    [] n = "noout"    -> Fld(a, a, <<>>, FALSE, FALSE, FALSE, 0, FALSE, FALSE, TRUE, <<>>, <<>>)
    [] n = "moder"    -> Fld(a, a, <<>>, FALSE, TRUE, TRUE, 5, FALSE, FALSE, FALSE, <<"r">>, <<>>)
    [] n = "modew"    -> Fld(a, a, <<>>, FALSE, TRUE, FALSE, 0, FALSE, FALSE, FALSE, <<"w">>, <<>>)
    [] n = "defer"    -> Fld(a, a, <<>>, FALSE, TRUE, TRUE, 4, TRUE, FALSE, FALSE, <<>>, <<>>)
    [] n = "dep"      -> Fld(a, a, <<>>, FALSE, FALSE, FALSE, 0, FALSE, FALSE, FALSE, <<>>, <<Oth(a)>>)
    [] n = "depalias" -> Fld(a, Up(a) \o "D", <<>>, FALSE, FALSE, FALSE, 0, FALSE, FALSE, FALSE, <<>>, <<Oth(a)>>)
NeedsOther(n) == n \in {"dep", "depalias"}
Decl(sh) == [fields |-> IF Len(sh) = 1 THEN <<Shape(sh[1], "a")>> ELSE <<Shape(sh[1], "a"), Shape(sh[2], "b")>>]
ShapeTuples == {<<n>> : n \in {n \in ShapeNames : ~NeedsOther(n)}} \cup {<<n1, n2>> : n1 \in PairShapes, n2 \in PairShapes}

\* options: a set of settings applied to the default record
O0 == [mode |-> "", addition |-> "none", ignore_required |-> FALSE, no_default |-> FALSE, hasforce |-> FALSE, force |-> Unprov,
       defer_default |-> FALSE, ignore_conflicts |-> FALSE, ci |-> FALSE, minp |-> 0, maxp |-> 0, exclude |-> FALSE]
Settings == {"mode=r", "mode=w", "addition=any", "addition=forbid", "addition=int", "ignore_required", "no_default", "force_default",
             "defer_default", "ignore_conflicts", "ci", "exclude", "minp=2", "maxp=1"}
Clash(a, b) == a # b /\ ((a \in {"mode=r", "mode=w"} /\ b \in {"mode=r", "mode=w"}) \/
                         (a \in {"addition=any", "addition=forbid", "addition=int"} /\ b \in {"addition=any", "addition=forbid", "addition=int"}) \/
                         {a, b} = {"no_default", "force_default"})                 \* refused by Options.__init__
Opts(st) == [O0 EXCEPT !.mode = IF "mode=r" \in st THEN "r" ELSE IF "mode=w" \in st THEN "w" ELSE "",
                       !.addition = IF "addition=any" \in st THEN "any" ELSE IF "addition=forbid" \in st THEN "forbid" ELSE IF "addition=int" \in st THEN "int" ELSE "none",
                       !.ignore_required = "ignore_required" \in st, !.no_default = "no_default" \in st,
                       !.hasforce = "force_default" \in st, !.force = IF "force_default" \in st THEN VInt(9) ELSE Unprov,
                       !.defer_default = "defer_default" \in st, !.ignore_conflicts = "ignore_conflicts" \in st, !.ci = "ci" \in st,
                       !.exclude = "exclude" \in st, !.minp = IF "minp=2" \in st THEN 2 ELSE 0, !.maxp = IF "maxp=1" \in st THEN 1 ELSE 0]
SettingSets == {st \in SUBSET Settings : Cardinality(st) <= MaxSettings /\ \A a, b \in st : ~Clash(a, b)}

\* inputs: sequences of distinct keys from the pool of the declaration, values 3 / '5' / 'x'
Vals == {VInt(3), VStr("5", 5, TRUE), VStr("x", 0, FALSE)}
Variants(s) == {s} \cup (CASE s = "a" -> {"A"} [] s = "b" -> {"B"} [] s = "AL" -> {"al", "Al"} [] s = "BL" -> {"bl"} [] s = "a2" -> {"A2"} [] s = "b2" -> {"B2"}
                           [] s = "Ax" -> {"ax", "AX"} [] s = "Bx" -> {"bx"} [] s = "AD" -> {"ad"} [] s = "BD" -> {"bd"} [] OTHER -> {})
Pool(d) == UNION {UNION {Variants(d.fields[j].keys[y].s) : y \in 1..Len(d.fields[j].keys)} : j \in 1..Len(d.fields)} \cup {"zz"}
SeqsUpTo(S, n) == UNION {{q \in [1..l -> S] : \A a, b \in 1..l : a # b => q[a] # q[b]} : l \in 0..n}
Inputs(d, n) == UNION {{[y \in 1..Len(ks) |-> [k |-> K(ks[y]), v |-> vs[y]]] : vs \in [1..Len(ks) -> Vals]} : ks \in SeqsUpTo(Pool(d), n)}
\* a declaration the library refuses (generate_aliases): a case-sensitive field whose lower-cased names meet a case-insensitive name
Legal(d, o) == \A i, j \in 1..Len(d.fields) : i # j /\ CI(d.fields[i], o) =>
                  {d.fields[j].keys[y].low : y \in 1..Len(d.fields[j].keys)} \cap {d.fields[i].keys[y].low : y \in 1..Len(d.fields[i].keys)} = {}
CaseNames == {[sh |-> sh, st |-> st] : sh \in ShapeTuples, st \in SettingSets}
CaseOf(sh, st, x) == [d |-> Decl(sh), o |-> Opts(st), x |-> x]

\* the state machine over the universe: the case is picked in Init
MCInit == \E nm \in {c \in CaseNames : Legal(Decl(c.sh), Opts(c.st))} :
            \E x \in Inputs(Decl(nm.sh), IF Len(nm.sh) = 1 THEN MaxLen ELSE MaxLen2) :
               cs = CaseOf(nm.sh, nm.st, x) /\ m = M0("ffs") /\ outs = [ffs |-> NoOut, dfs |-> NoOut]
MCSpec == MCInit /\ [][Next]_vars /\ WF_vars(Next)
\* the one documented-as-open point where the strategies differ (findings/known_findings.json, C06): which of several
\* conflicting values wins when conflicts are ignored
OpenPoint == cs.o.ignore_conflicts /\ \E i \in 1..Len(cs.d.fields) : \E a, b \in ProvidedIdx(cs.d, cs.o, cs.x, i) : RawNeq(cs.x[a].v, cs.x[b].v)
M_Same_ExceptOpen == Done /\ ~OpenPoint => SameOutcome(AsRec(outs.ffs), AsRec(outs.dfs))
\* a run always ends: the loops are bounded by the input and the declaration
Termination == <>Done
=============================================================================
