--------------------------- MODULE Trace_DataLoops ---------------------------
(* Recorded executions of both lookup strategies against the loops as transcribed (DataLoops) and the field contract:         *)
(*   DIV   the outcome DataLoops!Run computes for the case differs from what the code did (binding of M; a note)               *)
(*   VIOL  the code's outcome is not Admissible (C05) / the two strategies differ (C06)                                        *)
(* A record names its case ([sh, st, x]: rebuilt with MC_DataLoops!CaseOf, the universe exported by Export_DataLoops) or        *)
(* carries it ([d, o, x]: cases of the randomised driver).                                                                    *)
EXTENDS MC_DataLoops, IOUtils
Tr == ndJsonDeserialize(IOEnv.TRACE_FILE)
VARIABLE tid
TInit == tid \in 1..Len(Tr) /\ cs = 0 /\ m = 0 /\ outs = 0
TSpec == TInit /\ [][UNCHANGED <<tid, vars>>]_<<tid, vars>>
R == Tr[tid]
C == IF "d" \in DOMAIN R THEN [d |-> R.d, o |-> R.o, x |-> R.x] ELSE CaseOf(R.sh, Range(R.st), R.x)
SameAsModel(out, rec) ==
  /\ out.ok = rec.ok
  /\ (~out.ok => out.kind = rec.kind /\ Range(out.errs) = Range(rec.allkinds))
  /\ (out.ok => out.data = AsMap(rec.data) /\ out.attrs = AsMap(rec.attrs))
JudgeM == /\ (SameAsModel(Run(C, "ffs"), R.ffs) \/ PrintT(<<"DIV", R.id, "field-first">>))
          /\ (SameAsModel(Run(C, "dfs"), R.dfs) \/ PrintT(<<"DIV", R.id, "data-first">>))
JudgeC05 == /\ (Admissible(C.d, C.o, C.x, R.ffs) \/ PrintT(<<"VIOL", R.id, WhyNot(C.d, C.o, C.x, R.ffs), "field-first">>))
            /\ (Admissible(C.d, C.o, C.x, R.dfs) \/ PrintT(<<"VIOL", R.id, WhyNot(C.d, C.o, C.x, R.dfs), "data-first">>))
JudgeC06 == SameOutcome(R.ffs, R.dfs) \/ PrintT(<<"VIOL", R.id, IF R.ffs.ok # R.dfs.ok THEN "verdict-differs" ELSE IF R.ffs.ok THEN "data-differs" ELSE "error-kind-differs">>)
JudgeAll05 == JudgeM /\ JudgeC05
JudgeAll06 == JudgeM /\ JudgeC06
=============================================================================
