----------------------------- MODULE ConcShared -----------------------------
(***************************************************************************)
(* C20 -- two parsers that hold the SAME reference object.  typing caches  *)
(* List['Leaf'], so two classes writing that annotation share one          *)
(* ForwardRef; each class has its own parser, pending table and lock.      *)
(* Thread t makes the first call on parser t (utype/parser/base.py         *)
(* _resolve_forward_refs, one action per statement that touches the shared  *)
(* object):                                                                 *)
(*   Check    if not self.forward_refs                                      *)
(*   Acquire  with self._resolve_lock        (LockMode: per parser / one    *)
(*            lock shared by all local parsers, commit: fix)                *)
(*   Eval     evaluate_forward_ref(ref, ...)      the shared object         *)
(*   Upd      resolve_forward_types(): holders take the value if evaluated  *)
(*   Clear    ref.__forward_evaluated__ = False   (local objects; or always *)
(*            when ClearAll, a seeded change)                               *)
(*   Pop      self.forward_refs.pop(name)  and the lock is released         *)
(*   Convert  the conversion dereferences what the holder has               *)
(***************************************************************************)
EXTENDS Naturals, FiniteSets, TLC
CONSTANTS Local,      \* both classes are local to a function
          LockMode,   \* "perparser" | "sharedlocal"
          ClearAll    \* TRUE: evaluated references are cleared for every parser, not only local ones
Threads == {1, 2}
VARIABLES pc, pend, evald, holder, lock, glock, outcome
vars == <<pc, pend, evald, holder, lock, glock, outcome>>
Clears == Local \/ ClearAll
Shared == LockMode = "sharedlocal" /\ Local
Init == /\ pc = [t \in Threads |-> "Check"] /\ pend = [t \in Threads |-> TRUE] /\ evald = FALSE
        /\ holder = [t \in Threads |-> "ref"] /\ lock = [t \in Threads |-> 0] /\ glock = 0
        /\ outcome = [t \in Threads |-> "running"]
Goto(t, l) == pc' = [pc EXCEPT ![t] = l]
Check(t) == /\ pc[t] = "Check" /\ Goto(t, IF pend[t] THEN "Acquire" ELSE "Convert")
            /\ UNCHANGED <<pend, evald, holder, lock, glock, outcome>>
Acquire(t) == /\ pc[t] = "Acquire"
              /\ IF Shared THEN glock = 0 /\ glock' = t /\ UNCHANGED lock
                           ELSE lock[t] = 0 /\ lock' = [lock EXCEPT ![t] = t] /\ UNCHANGED glock
              /\ Goto(t, "Eval") /\ UNCHANGED <<pend, evald, holder, outcome>>
Eval(t) == /\ pc[t] = "Eval" /\ evald' = TRUE /\ Goto(t, "Upd") /\ UNCHANGED <<pend, holder, lock, glock, outcome>>
Upd(t) == /\ pc[t] = "Upd" /\ holder' = [holder EXCEPT ![t] = IF evald THEN "type" ELSE @] /\ Goto(t, "Clear")
          /\ UNCHANGED <<pend, evald, lock, glock, outcome>>
Clear(t) == /\ pc[t] = "Clear" /\ evald' = (IF Clears THEN FALSE ELSE evald) /\ Goto(t, "Pop")
            /\ UNCHANGED <<pend, holder, lock, glock, outcome>>
Pop(t) == /\ pc[t] = "Pop" /\ pend' = [pend EXCEPT ![t] = FALSE]
          /\ lock' = [lock EXCEPT ![t] = 0] /\ glock' = (IF glock = t THEN 0 ELSE glock)
          /\ Goto(t, "Convert") /\ UNCHANGED <<evald, holder, outcome>>
Convert(t) == /\ pc[t] = "Convert"
              /\ outcome' = [outcome EXCEPT ![t] = IF holder[t] = "type" \/ evald THEN "ok" ELSE "notEvaluated"]
              /\ Goto(t, "Done") /\ UNCHANGED <<pend, evald, holder, lock, glock>>
Step(t) == Check(t) \/ Acquire(t) \/ Eval(t) \/ Upd(t) \/ Clear(t) \/ Pop(t) \/ Convert(t)
Next == \E t \in Threads : Step(t)
Spec == Init /\ [][Next]_vars /\ \A t \in Threads : WF_vars(Step(t))
P_AsAlone == \A t \in Threads : pc[t] = "Done" => outcome[t] = "ok"
Termination == <>(\A t \in Threads : pc[t] = "Done")
=============================================================================
