SPECIFICATION Spec
CONSTANTS
  CopiedKinds = {"list", "set", "tuple", "dict"}
  MaxOps = 6
INVARIANT P_DefaultsIntact
INVARIANT P_NoAlias
INVARIANT P_InputsOwn
