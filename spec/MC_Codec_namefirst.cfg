SPECIFICATION Spec
CONSTANTS
  EnumLookup = "name-first"
  Variant = "fixed"
INVARIANT P_ShapeRoundTrips
