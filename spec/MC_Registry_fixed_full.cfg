SPECIFICATION Spec
CONSTANTS
  Variant = "fixed"
  UseCache = TRUE
  RegMenu <- MenuFull
  MaxOps = 5
INVARIANT P_C16
INVARIANT CacheCoherent
INVARIANT SortedByPrio
