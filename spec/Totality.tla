------------------------------ MODULE Totality ------------------------------
(***************************************************************************)
(* C04 -- invalid input raises ParseError and nothing else; parsing always  *)
(* terminates.                                                              *)
(*   utype/utils/transform.py  the timestamp normalisation loops of          *)
(*                             to_datetime (while abs(x) > W: x /= 1000)      *)
(*   utype/parser/rule.py / field.py / func.py / options.py  error wrapping   *)
(* M-layer: the loop over an abstract magnitude: a finite number is           *)
(* 10^(3k) * W for some k >= 0 ("k thousands above the watershed") or         *)
(* infinite; Variant "orig" enters the loop with an infinite value, "fixed"   *)
(* rejects it before.  Termination is a liveness property checked by TLC      *)
(* under weak fairness.                                                       *)
(* P-layer on recorded calls: a value or a ParseError, never a timeout; a      *)
(* failed parse created nothing and did not enter the function body.          *)
(***************************************************************************)
EXTENDS Naturals, Sequences, TLC
CONSTANTS Variant, MaxK
VARIABLES pc, k, inf
vars == <<pc, k, inf>>
Init == pc = "Start" /\ k \in 0..MaxK /\ inf \in BOOLEAN
Start == /\ pc = "Start"
         /\ IF inf /\ Variant = "fixed" THEN pc' = "Rejected"          \* if not math.isfinite(data): raise TypeError
            ELSE pc' = "Loop"
         /\ UNCHANGED <<k, inf>>
Loop == /\ pc = "Loop"
        /\ IF inf THEN UNCHANGED <<pc, k>>                              \* inf / 1000 = inf : abs(data) > W stays true
           ELSE IF k > 0 THEN k' = k - 1 /\ UNCHANGED pc               \* data /= 1000
           ELSE pc' = "Done" /\ UNCHANGED k
        /\ UNCHANGED inf
Next == Start \/ Loop
Spec == Init /\ [][Next]_vars /\ WF_vars(Next)
Termination == <>(pc \in {"Done", "Rejected"})
\* a stuttering-free formulation for the infinite case: the loop body must make progress
Progress == [][pc = "Loop" /\ pc' = "Loop" => k' < k]_vars

(* ---- P on a recorded call r = [ok, exc (MRO names), timeout, body (entered), created (instances validated)] ---- *)
ToSet(s) == {s[x] : x \in 1..Len(s)}
P_Terminates(r) == ~r.timeout
P_OnlyParseError(r) == r.ok \/ r.timeout \/ "ParseError" \in ToSet(r.exc)
P_NothingHappened(r) == ~r.ok => ~r.body /\ r.created = 0
=============================================================================
