SPECIFICATION TSpec
CONSTANTS
  Variant = "fixed"
  UseCache = TRUE
  RegMenu = {}
  MaxOps = 0
CONSTRAINT JudgeP
CONSTRAINT JudgeM
