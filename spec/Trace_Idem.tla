------------------------------ MODULE Trace_Idem ------------------------------
(* C03: one state per recorded double parse [T, x, ok1, v1, ok2, v2, exact].                         *)
(*  VIOL : P_Idempotent / P_LaxStrict false on what the code did                                      *)
(*  MVIOL: the lax validators as transcribed are not a fixed point / miss the strict form on x        *)
(*  DIV  : M's lax step on the (well-typed) input differs from the code's output                     *)
EXTENDS Constraints, Json, IOUtils
Tr == ndJsonDeserialize(IOEnv.TRACE_FILE)
VARIABLE tid
TInit == tid \in 1..Len(Tr)
TSpec == TInit /\ [][UNCHANGED tid]_tid
R == Tr[tid]
Clause == IF ~P_Idempotent(R) THEN (IF R.ok2 THEN "reparse-differs" ELSE "reparse-fails")
          ELSE IF ~P_LaxStrict(R) THEN "lax-misses-strict" ELSE "none"
JudgeP == Clause = "none" \/ PrintT(<<"VIOL", R.id, Clause>>)
SingleLax == R.T.k = "rule" /\ Len(R.T.cons) = 1 /\ R.T.cons[1].lax /\ R.welltyped
JudgeMC == ~SingleLax \/ P_LaxFixedPoint(R.x, R.T.cons[1]) \/ PrintT(<<"MVIOL", R.id>>)
\* the model does not carry the characters of a truncated text: texts are compared by length
SameV(a, b) == IF a.k \in {"str", "bytes"} THEN a.k = b.k /\ a.ln = b.ln ELSE PyEq(a, b)
JudgeM == ~SingleLax \/ ~Modelled(R.T.cons[1])
          \/ (LaxV(R.x, R.T.cons[1]).ok = R.ok1 /\ (R.ok1 => SameV(LaxV(R.x, R.T.cons[1]).v, R.v1)))
          \/ PrintT(<<"DIV", R.id>>)
\* cases of the MC_Constraints universe (tag "universe": well-typed int inputs, several constraints): the whole chain as transcribed
JudgeU == R.tag # "universe" \/ (RunRule(R.x, R.T.cons, 1).ok = R.ok1 /\ (R.ok1 => PyEq(RunRule(R.x, R.T.cons, 1).v, R.v1)))
          \/ PrintT(<<"DIV", R.id>>)
=============================================================================
