"""The repository's own test-suite as a driver (harness/suite_plugin.py observes, TLC judges: spec/Trace_Suite.tla)."""
import json
import os
import shutil
import subprocess

from . import tlc
from .core import MachineryError

VERIF = os.path.dirname(os.path.dirname(os.path.abspath(__file__)))


def records():
    import utype
    repo = os.path.dirname(os.path.dirname(os.path.abspath(utype.__file__)))
    d = tlc.scratch("suite-")
    try:
        out = os.path.join(d, "suite.ndjson")
        env = dict(os.environ, VERIF_SUITE_OUT=out, PYTHONPATH="%s:%s" % (repo, VERIF))
        p = subprocess.run(["/venv/bin/python", "-m", "pytest", "tests", "-q", "-x", "-p", "no:cacheprovider", "-p", "harness.suite_plugin", "--timeout=900"],
                           cwd=repo, env=env, capture_output=True, text=True, timeout=1800)
        if not os.path.exists(out):
            raise MachineryError("the traced test-suite wrote no records:\n" + (p.stdout + p.stderr)[-800:])
        recs = [json.loads(l) for l in open(out) if l.strip()]
        return recs, p.returncode
    finally:
        shutil.rmtree(d, ignore_errors=True)


def stage(ck, kind, pid):
    """judge the records of one kind ("input": C19, "idem": C03); returns [(key, clause, record)]"""
    recs, rc = records()
    recs = [r for r in recs if r["kind"] == kind]
    if rc != 0:
        ck.note("the repository suite itself does not pass on this tree (exit %d); its executions up to the first failure are judged" % rc)
    if not recs:
        raise MachineryError("the traced test-suite produced no %s records" % kind)
    res = tlc.judge("Trace_Suite", "Trace_Suite.cfg", recs, workers=4)
    if res.distinct != len(recs):
        raise MachineryError("trace acceptance (suite): TLC visited %d states, expected %d" % (res.distinct, len(recs)))
    ck.mc(res, "Trace suite")
    ck.judged(len(recs))
    ck.count("repository_suite_executions_judged", len(recs))
    byid = {r["id"]: r for r in recs}
    out = []
    for t in res.tagged("VIOL"):
        r = byid[t[1]]
        out.append(("%s|suite|%s|%s|%s" % (pid, t[2], r["test"].split("::")[-1][:40], r["type"][:40]), t[2], r))
    return out
