import importlib
import os
import sys

from .core import main


def run():
    args = sys.argv[1:]
    if not args:
        print("usage: check <ID> [--tier quick|thorough] [--replay path]")
        sys.exit(2)
    pid = args[0].upper()
    replay = None
    i = 1
    while i < len(args):
        if args[i] == "--tier":
            os.environ["VERIF_TIER"] = args[i + 1]
            i += 2
        elif args[i] == "--replay":
            replay = args[i + 1]
            i += 2
        elif args[i] == "--seed":
            os.environ["VERIF_SEED"] = args[i + 1]
            i += 2
        else:
            i += 1
    mod = importlib.import_module("harness.drivers.%s" % pid.lower())
    if replay:
        # a replay runs under the seed and tier of the run that wrote the file (drivers that re-execute the whole family rely on it)
        import json
        try:
            d = json.load(open(replay))
            os.environ["VERIF_SEED"] = str(d.get("seed", os.environ.get("VERIF_SEED", "0")))
            os.environ["VERIF_TIER"] = d.get("tier", os.environ.get("VERIF_TIER", "quick"))
        except (OSError, ValueError):
            pass
        main(pid, lambda: mod.replay(replay))
    else:
        main(pid, mod.main)


if __name__ == "__main__":
    run()
