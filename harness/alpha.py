"""Projection of real Python values into the abstract universe of spec/Values.tla (facts only) and back."""
import decimal
import fractions

MAXI = 2 ** 30


def V(k, t, n=0, d=1, s="", ln=0, items=(), ks=(), dg=(), ex=0):
    return {"k": k, "t": list(t), "n": n, "d": d, "s": s, "ln": ln, "items": list(items), "ks": list(ks), "dg": list(dg), "ex": ex}


def mro(x):
    return [c.__name__ for c in type(x).__mro__]


def asc(s):
    return "".join(c if 32 <= ord(c) < 127 and c not in '"\\' else "?" for c in s)[:60]


def _dec_fields(x):
    try:
        tup = (x if isinstance(x, decimal.Decimal) else decimal.Decimal(str(x))).as_tuple()
        if isinstance(tup.exponent, int) and len(tup.digits) <= 40 and abs(tup.exponent) < 1000:
            return list(tup.digits), tup.exponent
    except Exception:
        pass
    return [], 0


def _numberish(text):
    """fact about a text value: it reads as a number, a boolean word or nothing (what a lenient numeric conversion takes);
    logged in `dg` of text values (non-empty = yes)"""
    tx = text.strip().lower()
    if tx in ("", "1", "true", "yes", "on", "t", "y", "0", "false", "no", "off", "f"):
        return True
    try:
        decimal.Decimal(tx)
        return True
    except Exception:
        return False


def alpha(x, depth=0):
    """value -> record; kinds ending in 'x' are outside the exactly-encodable universe (never judged numerically)"""
    t = mro(x)
    if x is None:
        return V("none", t)
    if isinstance(x, bool):
        return V("bool", t, int(x), ln=len(str(x)), dg=[int(x)])
    if isinstance(x, int):
        if abs(x) >= MAXI:
            return V("intx", t, s=str(x)[:40], ln=len(str(x)))
        dg, ex = _dec_fields(x)
        return V("int", t, x, ln=len(str(x)), dg=dg, ex=ex)
    if isinstance(x, float):
        if x != x or x in (float("inf"), float("-inf")):
            return V("floatx", t, s=repr(x), ln=len(str(x)))
        f = fractions.Fraction(x)
        if abs(f.numerator) >= MAXI or f.denominator >= 2 ** 20:
            return V("floatx", t, s=repr(x), ln=len(str(x)))
        dg, ex = _dec_fields(x)
        return V("float", t, f.numerator, f.denominator, s=repr(x), ln=len(str(x)), dg=dg, ex=ex)
    if isinstance(x, decimal.Decimal):
        if not x.is_finite():
            return V("decx", t, s=str(x), ln=len(str(x)))
        f = fractions.Fraction(x)
        dg, ex = _dec_fields(x)
        if abs(f.numerator) >= MAXI or f.denominator >= MAXI or not dg:
            return V("decx", t, s=str(x), ln=len(str(x)))
        return V("dec", t, f.numerator, f.denominator, s=str(x), ln=len(str(x)), dg=dg, ex=ex)
    if isinstance(x, str):
        return V("str", t, s=asc(x), ln=len(x), dg=[1] if _numberish(x) else [])
    if isinstance(x, (bytes, bytearray)):
        txt = bytes(x).decode("latin-1")
        return V("bytes", t, s=asc(txt), ln=len(x), dg=[1] if _numberish(txt) else [])
    if depth > 6:
        return V("other", t, s="deep")
    if isinstance(x, dict):
        kind = "dict"
        try:
            import utype
            if isinstance(x, utype.Schema):
                kind = "inst"
        except Exception:
            pass
        its = list(dict.items(x))
        return V(kind, t, ln=len(its), ks=[alpha(k, depth + 1) for k, _ in its], items=[alpha(v, depth + 1) for _, v in its])
    if isinstance(x, (list, tuple)):
        return V("list" if isinstance(x, list) else "tuple", t, ln=len(x), items=[alpha(v, depth + 1) for v in x])
    import collections as _c
    if isinstance(x, _c.deque):
        return V("deque", t, ln=len(x), items=[alpha(v, depth + 1) for v in x])
    if isinstance(x, (set, frozenset)):
        its = sorted((alpha(v, depth + 1) for v in x), key=lambda r: repr(sorted(r.items())))
        return V("set" if isinstance(x, set) else "fset", t, ln=len(x), items=its)
    try:
        import utype
        if isinstance(x, utype.DataClass):
            its = [(k, v) for k, v in x.__dict__.items() if not k.startswith("__")]
            return V("inst", t, ln=len(its), ks=[alpha(k, depth + 1) for k, _ in its], items=[alpha(v, depth + 1) for _, v in its])
    except Exception:
        pass
    import datetime as _dt
    import uuid as _uuid
    if isinstance(x, (_dt.datetime, _dt.date, _dt.time)):
        return V(type(x).__name__ if type(x).__module__ == "datetime" else "datesub", t, s=asc(x.isoformat()))
    if isinstance(x, _dt.timedelta):
        us = x.days * 86400 * 10 ** 6 + x.seconds * 10 ** 6 + x.microseconds
        return V("timedelta", t, s="%dus" % us)
    if isinstance(x, _uuid.UUID):
        return V("uuid", t, s=str(x))
    if isinstance(x, complex):
        return V("complex", t, s=repr(x))
    import enum
    if isinstance(x, enum.Enum):
        return V("enum", t, s=asc(x.name))
    return V("other", t, s=asc(type(x).__name__))


def num(x):
    """constraint bound -> (n, d) or None"""
    try:
        f = fractions.Fraction(x)
    except Exception:
        return None
    if abs(f.numerator) >= MAXI or f.denominator >= MAXI:
        return None
    return f.numerator, f.denominator


def exc_names(e):
    return [c.__name__ for c in type(e).__mro__ if c is not object][:6]
