"""Shared plumbing of all checks: tiers, seeds, verdict bookkeeping, known findings, evidence, replay files."""
import hashlib
import json
import os
import sys
import time
import traceback

VERIF = os.path.dirname(os.path.dirname(os.path.abspath(__file__)))
# VERIF_OUT redirects what a run writes (used by tools/xmatrix.py to run many trees side by side); registered commands never set it
OUT = os.environ.get("VERIF_OUT") or VERIF
EVIDENCE = os.path.join(OUT, "evidence")
REPLAY = os.path.join(OUT, "replay")
FINDINGS = os.path.join(VERIF, "findings", "known_findings.json")


class Timeout(BaseException):
    """raised by the watchdog inside a call of the library (a BaseException, so that no handler of the library swallows it)"""


class watchdog:
    """with watchdog(seconds): ...  -- interrupts a call that does not return (wall clock; used only to keep a check from
    hanging, a TIMEOUT observation is confirmed separately before it is judged)"""

    def __init__(self, seconds=3.0):
        self.seconds = seconds

    def _fire(self, signum, frame):
        raise Timeout()

    def __enter__(self):
        import signal
        self._old = signal.signal(signal.SIGALRM, self._fire)
        signal.setitimer(signal.ITIMER_REAL, self.seconds)
        return self

    def __exit__(self, *a):
        import signal
        signal.setitimer(signal.ITIMER_REAL, 0)
        signal.signal(signal.SIGALRM, self._old)
        return False


class MachineryError(Exception):
    """Tree-independent failure of the verification machinery (exit 2)."""


def tier():
    t = os.environ.get("VERIF_TIER", "quick")
    return t if t in ("quick", "thorough") else "quick"


def seed():
    try:
        return int(os.environ.get("VERIF_SEED", "0"))
    except ValueError:
        return 0


def load_findings():
    try:
        with open(FINDINGS) as f:
            return json.load(f)
    except FileNotFoundError:
        return {"known": [], "fixed": []}


class Check:
    """One run of one property's check.  Drivers call .mc(), .judged(), .violation(), .note() and finally
    .finish() which writes the evidence file, prints VIOLATION / KNOWN-FINDING lines and returns the exit code."""

    def __init__(self, pid, level=None):
        self.pid = pid
        if level is None:       # one source of truth with MANIFEST.json: the category claimed in tools/claimed.json
            try:
                level = json.load(open(os.path.join(VERIF, "tools", "claimed.json")))[pid].get("category", "model_checking")
            except (OSError, KeyError, ValueError):
                level = "model_checking"
        self.level = level
        self.tier = tier()
        self.seed = seed()
        self.t0 = time.time()
        self.states = 0
        self.transitions = 0
        self.traces = 0
        self.evaluations = 0
        self.keys = set()
        self.samples = []
        self.viol = {}          # key -> (clause, record)
        self.known_hit = {}     # key -> text
        self.notes = []
        self.counters = {}
        self.checker_cmds = []
        self.trusted = []
        self.assumptions = []
        self.exhaustive = False
        self.rule = ""
        f = load_findings()
        self.known = {e["key"]: e for e in f.get("known", []) if e.get("property") == pid}

    # ---- bookkeeping ---------------------------------------------------------------------------
    def mc(self, result, what=""):
        """Account a TLC run (model checking or judging)."""
        self.states += result.distinct
        self.transitions += result.generated
        self.checker_cmds.append(("%s: " % what if what else "") + result.cmd)

    def count(self, name, n=1):
        self.counters[name] = self.counters.get(name, 0) + n

    def judged(self, n, keys=()):
        self.traces += n
        self.evaluations += n
        self.keys.update(keys)

    def sample(self, rec, limit=6):
        if len(self.samples) < limit:
            self.samples.append(rec)

    def note(self, text):
        if len(self.notes) < 200:
            self.notes.append(text)

    def violation(self, key, clause, record):
        """A P-clause evaluated to FALSE by TLC on a projected execution of the real code."""
        if key in self.known:
            self.known_hit.setdefault(key, self.known[key].get("what", clause))
            return
        if key not in self.viol:
            self.viol[key] = (clause, record)

    # ---- output --------------------------------------------------------------------------------
    def finish(self):
        if self.traces == 0:
            # a run that judged no execution of the real code says nothing about it: never report that as "held"
            raise MachineryError("vacuity: no execution of the implementation was judged")
        os.makedirs(EVIDENCE, exist_ok=True)
        for key, what in sorted(self.known_hit.items()):
            print("KNOWN-FINDING: property=%s %s [%s]" % (self.pid, what, key))
        lines = []
        if self.viol:
            os.makedirs(REPLAY, exist_ok=True)
        for key, (clause, record) in sorted(self.viol.items()):
            h = hashlib.sha1(key.encode()).hexdigest()[:10]
            path = os.path.join(REPLAY, "%s-%s.json" % (self.pid, h))
            with open(path, "w") as f:
                json.dump({"property": self.pid, "key": key, "clause": clause, "seed": self.seed, "tier": self.tier, "record": record}, f,
                          indent=1, default=str)
            lines.append("VIOLATION property=%s replay=%s" % (self.pid, path))
            print("  violated clause %s: key=%s" % (clause, key))
        for n in self.notes[:40]:
            print("NOTE " + n)
        cov = {
            "states": self.states,
            "transitions": self.transitions,
            "traces_validated_against_impl": self.traces,
            "evaluations": max(self.evaluations, 1),
            "distinct_nontrivial": len(self.keys),
            "rule": self.rule,
            "samples": self.samples or [{"note": "no sample recorded"}],
            "checker_cmd": "; ".join(self.checker_cmds[:6]),
            "trusted_base": self.trusted,
            "exhaustive": self.exhaustive,
            "counters": self.counters,
            "known_findings_reproduced": sorted(self.known_hit),
        }
        ev = {
            "property_id": self.pid,
            "tier": self.tier,
            "seed": self.seed,
            "level": self.level,
            "coverage": cov,
            "assumptions": self.assumptions,
            "wall_s": round(time.time() - self.t0, 2),
            "violations": len(self.viol),
        }
        with open(os.path.join(EVIDENCE, "%s.json" % self.pid), "w") as f:
            json.dump(ev, f, indent=1, default=str)
        for ln in lines:
            print(ln)
        print("%s %s: states=%d transitions=%d traces=%d keys=%d violations=%d known=%d wall=%.1fs" % (
            self.pid, self.tier, self.states, self.transitions, self.traces, len(self.keys), len(self.viol),
            len(self.known_hit), time.time() - self.t0))
        return 1 if self.viol else 0


def main(pid, fn):
    """Entry point wrapper: exit 0/1 from the check, 2 on machinery failure."""
    try:
        rc = fn()
    except MachineryError as e:
        print("MACHINERY-FAILURE %s: %s" % (pid, e))
        sys.exit(2)
    except Exception:
        traceback.print_exc()
        print("MACHINERY-FAILURE %s: unexpected exception in harness" % pid)
        sys.exit(2)
    sys.exit(rc)
