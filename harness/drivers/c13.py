"""C13 -- the generated JSON Schema is valid and describes what the parser does.

For data classes generated over JSON-expressible field types, constraints, containers, unions, literals, nested classes,
aliases and mode settings, in every mode and both views:
  - the document is a well-formed JSON Schema (JsonSchema!WF, TLC),
  - every value the parser produces, JSON-encoded by the library's encoder, validates against the output schema
    (JsonSchema!Val, the validator written in TLA+),
  - the structure of the input schema equals the *probed* behaviour of the parser: properties = names accepted as input,
    required = fields whose omission is an AbsenceError, additionalProperties = fate of an unknown key.
The TLA+ validator is cross-checked against the jsonschema package (tools/xcheck_jsonschema.py, thorough tier).
"""
import datetime
import decimal
import enum
import json
import random

from .. import tlc
from ..core import Check, MachineryError
from ..jsonv import jv, regex_facts, inline_refs, has_big

D = decimal.Decimal

PRELUDE = '''
import utype, decimal, datetime, enum, typing
from decimal import Decimal
from datetime import date, datetime
from typing import *
from utype import Schema, Field, Options, Rule
class Color(str, enum.Enum):
    red = 'r'
    green = 'g'
class PosInt(int, Rule):
    gt = 0
class Even10(int, Rule):
    ge = 2
    le = 10
    multiple_of = 2
class Ratio(float, Rule):
    ge = 0
    lt = 1
class ShortStr(str, Rule):
    min_length = 1
    max_length = 3
class PatStr(str, Rule):
    regex = '^[a-z]+$'
class UList(list, Rule):
    __args__ = (int,)
    unique_items = True
    max_length = 3
class NegInt(int, Rule):
    lt = 0
class LeInt(int, Rule):
    le = 5
class Len2(str, Rule):
    length = 2
class MinList(list, Rule):
    __args__ = (int,)
    min_length = 1
class Step(float, Rule):
    multiple_of = 0.5
class Dec2(Decimal, Rule):
    decimal_places = 2
    max_digits = 4
class Three(int, Rule):
    const = 3
class Sub(Schema):
    a: int
    b: List[int] = Field(default_factory=list)
def _other_scope():
    class Sub(Schema):          # another class of the same name (another module / scope)
        c: str
    return Sub
SubB = _other_scope()
'''

# annotation -> list of valid python inputs (values distinct from every default used below)
TYPES = {
    "int": [3, "4", 9007199254740993], "float": [2.5, "0.5", 1e20], "str": ["ab", 5], "bool": [True, "false"], "Optional[int]": [None, 4],
    "List[int]": [[1, "2"], []], "List[str]": [["a"], []], "Dict[str, int]": [{"k": 1}, {}], "Tuple[int, str]": [(1, "a")], "Tuple[int, ...]": [(1, 2), ()],
    "Set[int]": [{1, 2}], "PosInt": [1, 5, "7"], "Even10": [2, 4, "10"], "Ratio": [0.5, 0, 0.999], "ShortStr": ["a", "ab", "abc"], "PatStr": ["abc", "a"], "UList": [[1, 2], [1, 2, 3], []],
    # values on every inclusive bound of every constraint keyword the generator maps
    "NegInt": [-1, "-7"], "LeInt": [5, 0], "Len2": ["ab"], "MinList": [[1], [1, 2]], "Step": [1.5, 0, "2.0"], "Dec2": [D("12.34"), D("0.5"), "99.99"], "Three": [3, "3"],
    "Literal['a', 'b']": ["a"], "Color": ["r", "g"], "Union[int, str]": [3, "x"], "Union[PosInt, None]": [3, None],
    "Decimal": [D("1.5"), D("9007199254740991"), D("-9007199254740991"), D("9007199254740992"), 3], "date": ["2022-03-04"], "datetime": ["2022-03-04 10:11:12"],
    "Sub": [{"a": 1}, {"a": "2", "b": [3]}], "SubB": [{"c": "x"}], "List[SubB]": [[{"c": "y"}], []], "List[Sub]": [[{"a": 1}], []], "Dict[str, List[int]]": [{"k": [1]}], "Any": [1, "x", [1]],
}
DEFAULTS = {"int": "77", "float": "7.5", "str": "'dflt'", "bool": "False", "List[int]": "[7]", "Dict[str, int]": "{'d': 7}", "Decimal": "Decimal('7.5')",
            "PosInt": "77", "ShortStr": "'dfl'", "Union[int, str]": "77"}
SHAPES = ["req", "default", "optional", "alias", "aliasfrom", "noin", "noout", "moder", "modew", "dep"]


# properties whose setter takes one type and whose getter publishes another: (name, setter type, getter type, getter expression, inputs)
PROPS = [("size", "List[int]", "int", "len(v)", [[1, 2, 3], []]), ("code", "int", "str", "'#%d' % v", [5, "6"]),
         ("flag", "str", "bool", "bool(v)", ["x", ""]), ("tags", "str", "List[str]", "v.split(',')", ["a,b", "c"])]


def gen_class(rng, n):
    nf = rng.randint(1, 4)
    if n % 8 == 3:
        nf = max(nf, 2)
    fields = []
    names = ["a", "b", "c", "d"]
    both = n % 8 == 3          # two different classes of the same name in one document
    for i in range(nf):
        ann = rng.choice(sorted(TYPES))
        if both and i < 2:
            ann = ("Sub", "SubB")[i]
        shape = rng.choice(SHAPES)
        if shape in ("default", "noin") and ann not in DEFAULTS:
            shape = "optional" if shape == "default" else "req"
        fields.append({"att": names[i], "ann": ann, "shape": shape, "out": names[i]})
    mode = rng.choice([None, None, "r", "w", "a"])
    addition = rng.choice([None, None, True, False, "int"])
    lines = ["class T(Schema):", "    __options__ = Options(%s)" % ", ".join(
        (["mode=%r" % mode] if mode else []) + ([] if addition is None else ["addition=%s" % ("int" if addition == "int" else addition)]))]
    for f in fields:
        kw = []
        s = f["shape"]
        if s == "default":
            kw.append("default=%s" % DEFAULTS[f["ann"]])
        elif s == "optional":
            kw.append("required=False")
        elif s == "alias":
            f["out"] = f["att"].upper() + "L"
            kw.append("alias=%r" % f["out"])
        elif s == "aliasfrom":
            kw.append("alias_from=[%r]" % (f["att"] + "2"))
        elif s == "noin":
            kw.append("no_input=True, default=%s" % DEFAULTS[f["ann"]])
        elif s == "noout":
            kw.append("no_output=True")
        elif s == "moder":
            kw.append("mode='r'")
        elif s == "modew":
            kw.append("mode='w'")
        elif s == "dep" and len(fields) > 1:
            other = [g for g in fields if g is not f][0]
            f["dep"] = other["att"]
            kw.append("required=False, dependencies=[%r]" % other["att"])
        lines.append("    %s: %s = Field(%s)" % (f["att"], f["ann"], ", ".join(kw)))
    props = []
    if rng.random() < 0.35:
        name, st, gt, expr, vals = rng.choice(PROPS)
        props.append((name, vals))
        lines += ["    @property", "    def %s(self) -> %s:" % (name, gt), "        return self._%s" % name,
                  "    @%s.setter" % name, "    def %s(self, v: %s):" % (name, st), "        self._%s = %s" % (name, expr)]
    return {"fields": fields, "props": props, "mode": mode, "addition": addition, "src": "\n".join(lines) + "\n"}


def base_input(rng, decl, skip=None):
    data = {}
    for f in decl["fields"]:
        if f is skip:
            continue
        data[f["out"]] = rng.choice(TYPES[f["ann"]])
    for name, vals in decl.get("props", []):
        data[name] = rng.choice(vals)
    return data


def encode(inst):
    from utype import JSONEncoder
    return json.loads(json.dumps(inst, cls=JSONEncoder))


def structure_universe(ck):
    """MC_SchemaGenM: the generator's structural output as transcribed against the lookup loops as transcribed (DataLoops), over the
    case-sensitive declarations x options of the DataLoops universe; every declaration is then built for real: the real generator's
    document is compared with the model (DIV) and with the probed behaviour of the real parser (VIOL)"""
    import os
    import shutil
    from utype import JsonSchemaGenerator
    from . import c05
    mc = tlc.run("MC_SchemaGenM", "MC_SchemaGenM.cfg")
    ck.mc(mc, "MC generator vs loops")
    if mc.invariant_violated:
        ck.count("model_only_counterexamples")
        ck.note("model-level counterexample: generator and lookup loops as transcribed disagree on %s" % mc.invariant_violated)
    wit = tlc.run("MC_SchemaGenM", "MC_SchemaGenM_witness.cfg", workers=1, extra=("-continue",))
    missing = [w for w in ("W_NoInputField", "W_RequiredField", "W_Rejected", "W_Converted") if "Invariant %s is violated" % w not in wit.output]
    if missing:
        raise MachineryError("vacuity: %s unreachable in MC_SchemaGenM" % missing)
    d = tlc.scratch("sg-")
    try:
        out = os.path.join(d, "cases.ndjson")
        tlc.run("Export_SchemaGenM", "Export_SchemaGenM.cfg", env={"OUT_CASES": out}, workers=1)
        cases = [json.loads(l) for l in open(out) if l.strip()]
    finally:
        shutil.rmtree(d, ignore_errors=True)
    if len(cases) != mc.distinct:
        raise MachineryError("exported universe (%d) is not the one TLC explored (%d)" % (len(cases), mc.distinct))
    recs = []
    for i, c in enumerate(cases):
        decl, o = c["d"], c["o"]
        try:
            T, okw = c05.build(decl, o, False)
            doc = inline_refs(JsonSchemaGenerator(T, output=False)())
        except Exception as e:
            raise MachineryError("universe declaration %s %s refused: %s" % (c["sh"], c["st"], e))
        ap = doc.get("additionalProperties", "absent")
        addl = "absent" if ap == "absent" else "true" if ap is True else "false" if ap is False else "schema"
        fields = decl["fields"]
        accepted, preq, probed = [], [], True
        for f in fields:
            others = [(g["out"], 2) for g in fields if g is not f]
            r = c05.observe(T, decl, others + [(f["out"], 3)])
            if not r["ok"]:
                probed = False          # the probe itself is rejected (e.g. a dependency that can never be given): inconclusive
            elif any(e["k"] == f["att"] and e["v"] == c05.val(3) for e in r["attrs"]):
                accepted.append(f["out"])
            r2 = c05.observe(T, decl, others, okw, collect=True)
            r2f = c05.observe(T, decl, others)
            if not r2f["ok"] and "absence" in (r2["allkinds"] or r2f["allkinds"]):
                # the absence must be about this field: the others are all given
                preq.append(f["out"])
        r3 = c05.observe(T, decl, [(g["out"], 2) for g in fields] + [("zz", "7")])
        r3c = c05.observe(T, decl, [(g["out"], 2) for g in fields] + [("zz", "7")], okw, collect=True)
        if not r3["ok"]:
            fate = "rejected" if "exceed" in (r3c["allkinds"] or r3["allkinds"]) else "unknown"
        else:
            got = [e["v"] for e in r3["data"] if e["k"] == "zz"]
            fate = "dropped" if not got else "converted" if got[0] == c05.val(7) else "kept"
        recs.append({"id": "g%d" % i, "d": decl, "o": o, "props": sorted(doc.get("properties", {})), "required": sorted(doc.get("required", [])), "addl": addl,
                     "accepted": accepted, "preq": preq, "fate": fate, "probed": probed, "tag": "+".join(c["sh"]) + "|" + ",".join(c["st"])})
    res = tlc.judge("Trace_SchemaGenM", "Trace_SchemaGenM.cfg", [{k: v for k, v in r.items() if k != "tag"} for r in recs], workers=4)
    ck.mc(res, "Trace generator structure")
    if res.distinct != len(recs):
        raise MachineryError("trace acceptance (generator universe): TLC visited %d states, expected %d" % (res.distinct, len(recs)))
    ck.judged(len(recs))
    ck.count("universe_declarations_generated_and_probed", len(recs))
    byid = {r["id"]: r for r in recs}
    for t in res.tagged("VIOL"):
        r = byid[t[1]]
        ck.violation("C13|%s|universe|%s" % (t[2], r["tag"]), t[2], r)
    dv = res.tagged("DIV")
    if dv:
        ck.count("divergences", len(dv))
        for t in dv[:5]:
            r = byid[t[1]]
            ck.note("divergence: the generator as transcribed (SchemaGenM) writes another structure for %s: real props=%s required=%s addl=%s" % (r["tag"], r["props"], r["required"], r["addl"]))


def main():
    ck = Check("C13")
    thorough = ck.tier == "thorough"
    rng = random.Random(ck.seed)
    if thorough:
        import subprocess
        import os
        p = subprocess.run([os.path.join(os.path.dirname(os.path.dirname(os.path.dirname(os.path.abspath(__file__)))), "tools", "xcheck_jsonschema.py")],
                           capture_output=True, text=True)
        if p.returncode != 0:
            raise MachineryError("the TLA+ validator disagrees with the jsonschema package:\n" + p.stdout[-1500:])
        ck.count("validator_crosscheck_pairs", 1672)
    from utype import JsonSchemaGenerator
    from utype.utils.exceptions import AbsenceError, ExceedError
    records, n = [], 0
    for ci in range(6000 if thorough else 900):
        decl = gen_class(rng, ci)
        ns = {}
        try:
            exec(PRELUDE, ns)
            exec(decl["src"], ns)
            T = ns["T"]
            if ci % 2:
                # definitions collected in a $defs dictionary (the document refers to them)
                gi, go = JsonSchemaGenerator(T, defs={}, output=False), JsonSchemaGenerator(T, defs={}, output=True)
                di, do = gi(), go()
                doc_in = inline_refs(dict(di, **{"$defs": gi.get_defs()}))
                doc_out = inline_refs(dict(do, **{"$defs": go.get_defs()}))
            else:
                doc_in = inline_refs(JsonSchemaGenerator(T, output=False)())
                doc_out = inline_refs(JsonSchemaGenerator(T, output=True)())
        except Exception as e:
            ck.count("not_judged: declaration or generation refused (%s)" % type(e).__name__)
            continue
        tag = "mode=%s,addition=%s|%s" % (decl["mode"], decl["addition"], "+".join(["%s:%s" % (f["shape"], f["ann"]) for f in decl["fields"]] + ["prop:%s" % n for n, _ in decl["props"]]))
        # ---- probes of the parser (input view) --------------------------------------------------------------------------
        accepted, required = [], []
        probe_ok = True
        for f in decl["fields"]:
            val = TYPES[f["ann"]][0]
            try:
                inst = T(**dict(base_input(rng, decl, skip=f), **{f["out"]: val}))
                got = getattr(inst, f["att"], "<absent>")
                ref = ns["utype"].type_transform(val, T.__parser__.fields[[k for k in T.__parser__.fields if T.__parser__.fields[k].attname == f["att"]][0]].type)
                takes = got == ref or (isinstance(got, type(ref)) and repr(got) == repr(ref))
            except Exception:
                takes = None
                probe_ok = False
            if takes:
                accepted.append(f["out"])
            try:
                T(**base_input(rng, decl, skip=f))
            except AbsenceError as e:
                if getattr(e, "item", None) in (f["out"], f["att"]):
                    required.append(f["out"])
            except Exception:
                pass
        for name, vals in decl["props"]:
            # a property with a setter takes input (its getter publishes the stored value)
            try:
                inst = T(**dict(base_input(rng, decl), **{name: vals[0]}))
                if hasattr(inst, "_" + name):
                    accepted.append(name)
            except Exception:
                probe_ok = False
            data = base_input(rng, decl)
            data.pop(name)
            try:
                T(**data)
            except AbsenceError as e:
                if getattr(e, "item", None) == name:
                    required.append(name)
            except Exception:
                pass
        try:
            inst = T(**dict(base_input(rng, decl), zz_unknown="7"))
            if "zz_unknown" not in inst:
                fate = "dropped"
            elif dict.__getitem__(inst, "zz_unknown") == 7:
                fate = "converted"
            else:
                fate = "kept"
        except ExceedError:
            fate = "rejected"
        except Exception as e:
            ex = getattr(e, "errors", [e])
            fate = "rejected" if any(isinstance(x, ExceedError) for x in ex) else "unknown"
        n += 1
        records.append({"id": "c13-%d" % n, "kind": "doc", "view": "input", "doc": jv(doc_in), "accepted": accepted, "required": required, "fate": fate, "probed": probe_ok,
                        "v": jv(None), "pm": [], "tag": tag, "src": decl["src"]})
        n += 1
        records.append({"id": "c13-%d" % n, "kind": "doc", "view": "output", "doc": jv(doc_out), "accepted": [], "required": [], "fate": "unknown", "probed": False,
                        "v": jv(None), "pm": [], "tag": tag, "src": decl["src"]})
        # ---- outputs validate against the output schema ------------------------------------------------------------------------
        for _ in range(6 if thorough else 4):
            data = base_input(rng, decl)
            if rng.random() < 0.3:
                for f in decl["fields"]:
                    if f["shape"] in ("default", "optional", "dep", "noin") and rng.random() < 0.5:
                        data.pop(f["out"], None)
            try:
                inst = T(**data)
                js = encode(inst)
            except Exception:
                ck.count("sample_inputs_rejected_or_not_encodable")
                continue
            n += 1
            unsafe = any(isinstance(v, D) and abs(v) > 9007199254740991 for v in dict.values(inst))
            records.append({"id": "c13-%d" % n, "unsafe_decimal": unsafe, "kind": "out", "view": "output", "doc": jv(doc_out), "accepted": [], "required": [], "fate": "unknown", "probed": False,
                            "v": jv(js), "pm": regex_facts(doc_out, js), "tag": tag, "src": decl["src"], "json": json.dumps(js)[:200]})
    ck.count("input_documents_with_all_probes_concluded", sum(1 for r in records if r["kind"] == "doc" and r["probed"]))
    structure_universe(ck)
    byid = {r["id"]: r for r in records}
    res = tlc.judge("Trace_SchemaGen", "Trace_SchemaGen.cfg", [{k: v for k, v in r.items() if k not in ("src", "json", "unsafe_decimal")} for r in records], workers=16)
    ck.mc(res, "Trace")
    if res.distinct != len(records):
        raise MachineryError("trace acceptance: TLC visited %d states, expected %d" % (res.distinct, len(records)))
    ck.judged(len(records))
    for r in records:
        ck.keys.add("%s|%s|%s" % (r["kind"], r["view"], r["tag"]))
    for r in records[:2] + records[-2:]:
        ck.sample({"id": r["id"], "kind": r["kind"], "view": r["view"], "class": r["tag"], "accepted": r["accepted"], "required": r["required"],
                   "unknown_key": r["fate"], "output_json": r.get("json", "")})
    for t in res.tagged("VIOL"):
        r = byid[t[1]]
        feats = sorted({x.split(":")[0] for x in r["tag"].split("|")[1].split("+")})
        key = "C13|%s|%s|%s" % (t[2], r["tag"].split("|")[0], "+".join(feats))
        if t[2] == "OutputValidates":
            types = sorted({x.split(":", 1)[1] for x in r["tag"].split("|")[1].split("+")})
            key = "C13|%s|%s" % (t[2], "+".join(types))
            if r.get("unsafe_decimal"):
                key = "C13|OutputValidates|decimal-beyond-js-safe-range-as-string"
        ck.violation(key, t[2], r)
    ck.rule = ("classes = 1-4 fields over 29 JSON-expressible annotations (builtins, Optional, generics, tuples, sets, constrained types, pattern, "
               "Literal, Enum, unions, Decimal incl. values at +-2^53, dates, nested classes) x 10 field shapes (required, default, optional, alias, "
               "alias_from, no_input, no_output, mode r / w, dependencies), optionally a property whose setter and getter types differ, x class mode {None,r,w,a} x addition {None,True,False,int}; per class: both "
               "documents, probes of every field and of an unknown key, 4-6 parsed-and-encoded outputs; distinct_nontrivial = distinct (record kind, view, class shape)")
    ck.trusted = ["TLC 1.8", "harness/jsonv.py (JSON -> records, Python re.search as regex oracle, $ref inlining)",
                  "spec/JsonSchema.tla cross-checked against the jsonschema package on 1672 (schema, instance) pairs (tools/xcheck_jsonschema.py)"]
    ck.assumptions = ["a class's mode is the one in its own options (the documented route)", "non-recursive classes ($ref inlined)",
                      "numbers beyond the exact universe are judged for their JSON kind only"]
    return ck.finish()


def replay(path):
    d = json.load(open(path))
    r = d["record"]
    print(r["src"])
    print(json.dumps({k: r[k] for k in ("kind", "view", "accepted", "required", "fate")}), r.get("json", ""))
    return main()
