"""C08 -- decorated functions get Python's binding with conforming arguments and result.

Signatures are generated from the grammar (positional-only, positional-or-keyword, *args, keyword-only, **kwargs;
annotated or not, defaulted, aliased, underscore-prefixed; plain function, instance / class / static method), each as a
decorated function whose body records the binding it received and as an undecorated twin that records what Python
itself binds.  Calls: positional counts 0..n+1 x keyword subsets (own names and aliases) x valid / convertible / invalid
values.  Trace_FuncBind (TLC) judges P_Bind (body binding = Python's binding, annotated values converted, defaults as
they are; a failing parameter -> ParseError and the body not entered) and checks the TLA+ reference PyBind against
Python's own binding.  Generators (sync / async, lazy / eager) and coroutines are driven with send scripts next to
their undecorated twins and the event sequences compared (P_Gen).
"""
import asyncio
import itertools
import json
import random

from .. import tlc
from ..core import Check, MachineryError


def val(x):
    if isinstance(x, bool):
        return {"k": "other", "n": int(x), "s": "bool"}
    if isinstance(x, int):
        return {"k": "int", "n": x, "s": ""}
    if isinstance(x, str):
        if x.lstrip("-").isdigit() and str(int(x)) == x:
            return {"k": "lit", "n": int(x), "s": x}
        return {"k": "str", "n": 0, "s": x[:30]}
    if x is None:
        return {"k": "none", "n": 0, "s": ""}
    return {"k": "other", "n": 0, "s": type(x).__name__}


def P(name, kind, ann=True, default=None, alias_from=(), priv=False, alias=None):
    return {"name": name, "kind": kind, "ann": ann, "viaparam": False, "hasdef": default is not None, "def": val(default) if default is not None else val(None),
            "keys": [name] + ([alias] if alias else []) + list(alias_from), "priv": priv, "_default": default, "_alias": alias}


def gen_sig(rng):
    sig = []
    names = iter("abcdefgh")
    npo = rng.choice([0, 0, 1, 2])
    npk = rng.choice([0, 1, 2, 2])
    va = rng.random() < 0.4
    nko = rng.choice([0, 0, 1, 2])
    vk = rng.random() < 0.4
    seen_default = False
    for kind, n in (("po", npo), ("pk", npk)):
        for _ in range(n):
            nm = next(names)
            priv = rng.random() < 0.15
            if priv:
                nm = "_" + nm
            d = None
            if seen_default or rng.random() < 0.35:
                d = rng.choice([5, 6, 7])
                seen_default = True
            sig.append(P(nm, kind, ann=rng.random() < 0.8, default=d, priv=priv,
                         alias_from=[nm + nm] if (kind == "pk" and not priv and rng.random() < 0.3) else (),
                         alias=(nm.upper() + "L") if (kind == "pk" and not priv and rng.random() < 0.25) else None))
            # (a parameter whose name starts with an underscore is not a field: utype leaves it, and whatever its default is, alone)
            sig[-1]["viaparam"] = d is not None and not priv and rng.random() < 0.4
    if va:
        sig.append(P("args", "va", ann=rng.random() < 0.7))
    for _ in range(nko):
        nm = next(names)
        sig.append(P(nm, "ko", ann=rng.random() < 0.8, default=rng.choice([None, 8]),
                     alias_from=[nm + nm] if rng.random() < 0.3 else (), alias=(nm.upper() + "L") if rng.random() < 0.2 else None))
        sig[-1]["viaparam"] = sig[-1]["hasdef"] and rng.random() < 0.4
    if vk:
        sig.append(P("kw", "vk", ann=rng.random() < 0.7))
    return sig


def source(sig, ctx):
    """(decorated source, raw twin source): both record; ctx in function | method | classmethod | staticmethod"""
    def params(decorated):
        out, prev = [], None
        for p in sig:
            if prev == "po" and p["kind"] != "po":
                out.append("/")
            if p["kind"] == "ko" and prev not in ("va", "ko"):
                out.append("*")
            ann = ": int" if (decorated and p["ann"]) else ""
            if p["kind"] == "va":
                out.append("*args" + ann)
            elif p["kind"] == "vk":
                out.append("**kw" + ann)
            else:
                s = p["name"] + ann
                if decorated and len(p["keys"]) > 1:
                    af = [k for k in p["keys"][1:] if k != p["_alias"]]
                    s += " = utype.Param(%s%s%s)" % (("%r, " % p["_default"]) if p["hasdef"] else "",
                                                      ("alias=%r, " % p["_alias"]) if p["_alias"] else "", ("alias_from=%r" % af) if af else "")
                elif p["hasdef"] and decorated and p.get("viaparam"):
                    s += " = utype.Param(%r)" % p["_default"]        # the default declared through Param: same meaning as the literal
                elif p["hasdef"]:
                    s += " = %r" % p["_default"]
                out.append(s)
            prev = p["kind"]
        if prev == "po":
            out.append("/")
        return ", ".join(out)
    rec = []
    for p in sig:
        if p["kind"] == "va":
            rec.append("('*', args)")
        elif p["kind"] == "vk":
            rec.append("('**', kw)")
        else:
            rec.append("(%r, %s)" % (p["name"], p["name"]))
    body = "    LOG.append([%s])\n    return 'r'\n" % ", ".join(rec)
    first = {"function": "", "staticmethod": "", "method": "self, ", "classmethod": "cls, "}[ctx]
    def wrap(decorated):
        ps = params(decorated)
        if first and ps.startswith("/"):
            ps = ps  # cannot happen: '/' follows a parameter
        head = "def f(%s%s):\n" % (first, ps)
        if ctx == "function":
            return ("@utype.parse\n" if decorated else "") + head + body
        deco = {"method": "", "classmethod": "    @classmethod\n", "staticmethod": "    @staticmethod\n"}[ctx]
        ind = "".join("    " + l + "\n" for l in (("@utype.parse\n" if decorated else "") + head + body).splitlines())
        return "class C:\n" + deco + ind
    return wrap(True), wrap(False)


def flatten(entries, sig):
    out = []
    for k, v in entries:
        if k == "*":
            for i, e in enumerate(v):
                out.append({"k": "*%d" % i, "v": val(e), "cat": "va"})
        elif k == "**":
            for kk, e in v.items():
                out.append({"k": "**" + kk, "v": val(e), "cat": "vk"})
        else:
            out.append({"k": k, "v": val(v), "cat": "named"})
    return out


def build(sig, ctx):
    import utype
    dsrc, rsrc = source(sig, ctx)
    dns, rns = {"utype": utype, "LOG": []}, {"LOG": []}
    exec(dsrc, dns)
    exec(rsrc, rns)
    if ctx == "function":
        return dns["f"], rns["f"], dns["LOG"], rns["LOG"], dsrc
    if ctx == "method":
        return dns["C"]().f, rns["C"]().f, dns["LOG"], rns["LOG"], dsrc
    return dns["C"].f, rns["C"].f, dns["LOG"], rns["LOG"], dsrc


VALS = [3, "4", "x", 0, -2]


def gen_calls(rng, sig, n):
    posable = [p for p in sig if p["kind"] in ("po", "pk")]
    kwable = [p for p in sig if p["kind"] in ("pk", "ko") and not p["priv"]]
    has_va = any(p["kind"] == "va" for p in sig)
    has_vk = any(p["kind"] == "vk" for p in sig)
    calls = []
    for _ in range(n):
        npos = rng.randint(0, len(posable) + (2 if has_va else 1))
        pos = [rng.choice(VALS) for _ in range(npos)]
        kw, kwreal = {}, {}
        for p in kwable:
            if rng.random() < 0.5:
                key = rng.choice(p["keys"])
                v = rng.choice(VALS)
                kw[key] = v
                kwreal[p["name"]] = v
        if rng.random() < (0.5 if has_vk else 0.15):
            v = rng.choice(VALS)
            kw["zz"] = v
            kwreal["zz"] = v
        calls.append((pos, kw, kwreal))
    return calls


def one_call(sig, ctx, fdec, fraw, dlog, rlog, pos, kw, kwreal):
    from utype.utils.exceptions import ParseError
    del dlog[:], rlog[:]
    py = {"bindable": True, "binding": [], "isdefault": []}
    try:
        fraw(*pos, **kwreal)
        entries = rlog[0]
        py["binding"] = flatten(entries, sig)
        # which named entries come from a default (omitted by the call)
        given = set(kwreal)
        posable = [p["name"] for p in sig if p["kind"] in ("po", "pk")]
        given |= set(posable[:len(pos)])
        py["isdefault"] = [e["cat"] == "named" and e["k"] not in given for e in py["binding"]]
    except TypeError:
        py = {"bindable": False, "binding": [], "isdefault": []}
    r = {"py": py, "ok": True, "body": False, "got": [], "parseerror": False, "exc": ""}
    try:
        fdec(*pos, **kw)
    except ParseError as e:
        r["ok"], r["parseerror"], r["exc"] = False, True, type(e).__name__
    except Exception as e:
        r["ok"], r["exc"] = False, type(e).__name__
    r["body"] = bool(dlog)
    if dlog:
        r["got"] = flatten(dlog[0], sig)
    return r


# ---- generators ---------------------------------------------------------------------------------------------------------
GEN_SRC = '''
def gen(n{ann_n}){ret}:
    got = []
    i = 0
    total = 0
    while i < n:
        s = yield {yexpr}
        RECV.append(s)
        if s is not None:
            total += int(s)
        i += 1
    return {rexpr}
'''


def drive_sync(g, script, recv):
    ev = []
    try:
        ev.append(("yield", next(g)))
        for s in script:
            n0 = len(recv)
            y = g.send(s) if s is not None else next(g)
            ev.append(("recv", recv[n0] if len(recv) > n0 else None))
            ev.append(("yield", y))
    except StopIteration as e:
        if len(recv) > 0 and (not ev or ev[-1][0] != "recv"):
            pass
        ev.append(("return", e.value))
    except Exception as e:
        ev.append(("raise", type(e).__name__ if "ParseError" not in [c.__name__ for c in type(e).__mro__] else "ParseError"))
    return ev


async def drive_async(g, script, recv):
    ev = []
    try:
        ev.append(("yield", await g.__anext__()))
        for s in script:
            n0 = len(recv)
            y = await (g.asend(s) if s is not None else g.__anext__())
            ev.append(("recv", recv[n0] if len(recv) > n0 else None))
            ev.append(("yield", y))
    except StopAsyncIteration:
        ev.append(("return", None))
    except Exception as e:
        ev.append(("raise", type(e).__name__ if "ParseError" not in [c.__name__ for c in type(e).__mro__] else "ParseError"))
    return ev


def gen_cases(rng, thorough):
    """(kind, eager) x scripts: decorated generator next to its undecorated twin"""
    import utype
    from typing import Generator, AsyncGenerator
    out = []
    scripts = [[], [None], ["5"], ["5", 6], [None, "7", None], ["5", "x"], ["x"], [0, "0", 3], [None, None, None, None]]
    if thorough:
        scripts += [[rng.choice([None, "5", 6, 0, "0", "x"]) for _ in range(rng.randint(1, 5))] for _ in range(40)]
    from utype import Options
    for kind in ("sync", "async"):
        # collect: the wrapper runs under Options(collect_errors=True); ybad: the body's second yield does not convert to the declared type
        for eager, collect, ybad in ((False, False, False), (True, False, False), (False, True, False), (True, True, False),
                                     (False, False, True), (False, True, True)):
            yexpr = "('x' if i == 1 else str(i + total))" if ybad else "str(i + total)"
            okw = {"options": Options(collect_errors=True)} if collect else {}
            for n in (0, 1, 3):
                for script in scripts:
                    recv_d, recv_r = [], []
                    if kind == "sync":
                        ns = {"RECV": recv_d, "Generator": Generator}
                        src = GEN_SRC.format(ann_n=": int", ret=" -> Generator[int, int, int]", yexpr=yexpr, rexpr="str(total)")
                        exec(src, ns)
                        dec = utype.parse(eager=eager, **okw)(ns["gen"])
                        nr = {"RECV": recv_r}
                        exec(GEN_SRC.format(ann_n="", ret="", yexpr=yexpr, rexpr="str(total)"), nr)
                        try:
                            evd = drive_sync(dec(str(n)), script, recv_d)
                        except Exception as e:
                            evd = [("raise", type(e).__name__)]
                        b = bad_send(script)
                        evr = drive_sync(nr["gen"](n), script if b is None else script[:b], recv_r)
                        if b is not None and evr[-1][0] not in ("return", "raise"):
                            evr.append(("raise", "ParseError"))
                    else:
                        ns = {"RECV": recv_d, "AsyncGenerator": AsyncGenerator}
                        src = "async " + GEN_SRC.strip().format(ann_n=": int", ret=" -> AsyncGenerator[int, int]", yexpr=yexpr, rexpr="")
                        src = src.replace("    return \n", "    return\n").replace("    return ", "    return")
                        exec(src, ns)
                        dec = utype.parse(eager=eager, **okw)(ns["gen"])
                        nr = {"RECV": recv_r}
                        rsrc = "async " + GEN_SRC.strip().format(ann_n="", ret="", yexpr=yexpr, rexpr="")
                        rsrc = rsrc.replace("    return ", "    return")
                        exec(rsrc, nr)
                        try:
                            evd = asyncio.run(drive_async(dec(str(n)), script, recv_d))
                        except Exception as e:
                            evd = [("raise", type(e).__name__)]
                        b = bad_send(script)
                        evr = asyncio.run(drive_async(nr["gen"](n), script if b is None else script[:b], recv_r))
                        if b is not None and evr[-1][0] not in ("return", "raise"):
                            evr.append(("raise", "ParseError"))
                    # a yielded value that does not convert to the declared type is never delivered: the consumer gets a ParseError there
                    for j, (e, v) in enumerate(evr):
                        if e == "yield" and val(v)["k"] not in ("int", "lit"):
                            # (the driver logs what the body received only after send() returned, which it does not here)
                            evr = evr[:j - 1 if j and evr[j - 1][0] == "recv" else j] + [("raise", "ParseError")]
                            break
                    out.append((kind + ("+collect" if collect else "") + ("+badyield" if ybad else ""), eager, n, script, evd, evr))
    return out


def bad_send(script):
    """index of the first sent value that does not convert to the declared send type, or None"""
    for i, s in enumerate(script):
        if s is not None and val(s)["k"] not in ("int", "lit"):
            return i
    return None


def main():
    ck = Check("C08")
    thorough = ck.tier == "thorough"
    rng = random.Random(ck.seed)
    records, n = [], 0
    nsig = 6000 if thorough else 600
    for _ in range(nsig):
        sig = gen_sig(rng)
        ctx = rng.choice(["function", "function", "method", "classmethod", "staticmethod"])
        try:
            fdec, fraw, dlog, rlog, dsrc = build(sig, ctx)
        except Exception as e:
            ck.count("not_judged: declaration refused (%s)" % type(e).__name__)
            continue
        tsig = [{k: v for k, v in p.items() if not k.startswith("_")} for p in sig]
        for pos, kw, kwreal in gen_calls(rng, sig, 14 if thorough else 10):
            n += 1
            r = one_call(sig, ctx, fdec, fraw, dlog, rlog, pos, kw, kwreal)
            records.append({"id": "c08-%d" % n, "kind": "call", "sig": tsig, "ctx": ctx,
                            "call": {"pos": [val(v) for v in pos], "kw": [{"k": k, "v": val(v)} for k, v in kwreal.items()]},
                            "r": r, "src": dsrc.splitlines()[1 if ctx == "function" else 2].strip()[:160],
                            "callrepr": "f(%s)" % ", ".join([repr(v) for v in pos] + ["%s=%r" % kv for kv in kw.items()])})
    for kind, eager, nn, script, evd, evr in gen_cases(rng, thorough):
        n += 1
        exp = evr
        records.append({"id": "c08-%d" % n, "kind": "gen", "sig": [], "ctx": "%s/%s" % (kind, "eager" if eager else "lazy"),
                        "call": {"pos": [], "kw": []},
                        "r": {"dec": [{"ev": e, "v": val(v) if e != "raise" else {"k": "exc", "n": 0, "s": v}} for e, v in evd],
                              "raw": [{"ev": e, "v": val(v) if e != "raise" else {"k": "exc", "n": 0, "s": v}} for e, v in exp]},
                        "src": "gen(n=%d)" % nn, "callrepr": repr(script)})
    byid = {x["id"]: x for x in records}
    r = tlc.judge("Trace_FuncBind", "Trace_FuncBind.cfg", records, workers=8)
    ck.mc(r, "Trace")
    if r.distinct != len(records):
        raise MachineryError("trace acceptance: TLC visited %d states, expected %d" % (r.distinct, len(records)))
    ck.judged(len(records))
    for x in records:
        if x["kind"] == "call":
            ck.keys.add("%s|%s|%d|%s|%s" % (x["ctx"], "".join(p["kind"][1] if p["kind"] in ("po", "pk", "ko") else p["kind"][1].upper() for p in x["sig"]),
                                            len(x["call"]["pos"]), ",".join(sorted(e["k"] for e in x["call"]["kw"])), x["r"]["ok"]))
        else:
            ck.keys.add("%s|%s|%s" % (x["ctx"], x["src"], x["callrepr"]))
    for x in records[:3] + records[-2:]:
        ck.sample({"id": x["id"], "context": x["ctx"], "declaration": x["src"], "call": x["callrepr"],
                   "python_binds": x["r"].get("py", {}).get("bindable"), "decorated_ok": x["r"].get("ok"), "body_entered": x["r"].get("body"),
                   "events": [(e["ev"], e["v"]["n"] if e["v"]["k"] in ("int", "lit") else e["v"]["s"]) for e in x["r"].get("dec", [])][:8]})
    from . import funcwrap
    ru, flagged = funcwrap.stage(ck, thorough)
    for res, ids in ((r, byid), (ru, flagged)):
        for t in res.tagged("VIOL"):
            x = ids[t[1]]
            ck.violation(viol_key(t, x), t[2], x)
    dv = ru.tagged("DIV")
    if dv:
        ck.count("divergences", len(dv))
        for t in dv[:5]:
            ck.note("divergence: M (the wrapper as transcribed in FuncWrap.tla) differs from the code on %s %s" % (flagged[t[1]]["src"], flagged[t[1]]["callrepr"]))
    byid.update(flagged)
    r.tuples.extend(t for t in ru.tuples if t[0] == "MVIOL")
    mv = r.tagged("MVIOL")
    if mv:
        ck.count("pybind_reference_disagrees_with_python", len(mv))
        ck.note("the TLA+ reference PyBind disagrees with Python's own binding on %d calls, e.g. %s %s" % (len(mv), byid[mv[0][1]]["src"], byid[mv[0][1]]["callrepr"]))
    ck.rule = ("signatures = random draws from the grammar (0-2 positional-only, 0-2 positional-or-keyword, *args, 0-2 keyword-only, **kwargs; "
               "annotated / unannotated, defaults, alias_from, underscore-prefixed) in 4 contexts; calls = 0..n+2 positionals x keyword subsets "
               "by own name or alias x an unknown keyword, values valid / convertible / invalid; generators: sync and async, lazy and eager, "
               "n in {0,1,3} x send scripts; distinct_nontrivial = distinct (context, signature shape, call shape, verdict) and generator runs")
    ck.trusted = ["TLC 1.8", "Python's own call of the undecorated twin as the binding oracle (cross-checked by the TLA+ reference PyBind)",
                  "the recording bodies generated by the harness"]
    ck.assumptions = ["calls Python itself would not bind are out of scope (the wrapper drops excess arguments silently)",
                      "underscore-prefixed parameters are not passed by keyword (ignored by design, docs: private parameters)",
                      "declared defaults are trusted and not converted"]
    return ck.finish()


def viol_key(t, x):
    if x["kind"] == "gen":
        return "C08|generator-protocol|%s|%s" % (x["ctx"], "with-send" if any(s is not None for s in json.loads(x["callrepr"].replace("None", "null").replace("'", '"'))) else "next-only")
    kinds = {p["kind"] for p in x["sig"]}
    feat = [f for f, c in (("private", any(p["priv"] for p in x["sig"])), ("alias", any(len(p["keys"]) > 1 for p in x["sig"])),
                           ("posonly", "po" in kinds), ("varargs", "va" in kinds), ("varkw", "vk" in kinds)) if c]
    key = "C08|%s|%s|%s" % (t[2], x["ctx"], "+".join(feat) or "plain")
    po = [p for p in x["sig"] if p["kind"] == "po"]
    npos = len(x["call"]["pos"])
    if t[2] == "wrong-binding" and any(po[i]["priv"] and po[i]["hasdef"] and i >= npos and
                                       any(not q["priv"] and q["hasdef"] for q in po[i + 1:]) for i in range(len(po))):
        key = "C08|wrong-binding|omitted-private-positional-only-default"
    return key


def replay(path):
    d = json.load(open(path))
    x = d["record"]
    print(json.dumps({k: x[k] for k in ("ctx", "src", "callrepr", "r")})[:1200])
    return main()
