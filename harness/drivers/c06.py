"""C06 -- the result does not depend on the field-lookup strategy.  Same cases as C05 (harness/drivers/c05.py): every
declaration / options / input is parsed under data_first_search=True and False (and, on failure, once more per strategy
with collect_errors to obtain the full set of error kinds); TLC judges DataParse!SameOutcome on every pair."""
from .c05 import main_common, finish_notes, features, universe, RULE, TRUSTED, ASSUME, replay  # noqa


def main():
    ck, r, byid = main_common("C06")
    ru, byu = universe(ck, "C06")
    for res, ids in ((r, byid), (ru, byu)):
        for t in res.tagged("VIOL"):
            rec = ids[t[1]]
            feats = features(rec)
            if rec["o"]["ignore_conflicts"] and "dup-differ" in feats:
                key_ = "C06|%s|ignore_alias_conflicts-which-value-wins" % t[2]
            else:
                key_ = "C06|%s|%s|%s" % (t[2], feats, ",".join(sorted(set(rec["otag"].split(",")) - {"default"})) or "default")
            ck.violation(key_, t[2], rec)
    finish_notes(ck, r, byid)
    finish_notes(ck, ru, byu)
    ck.rule = RULE + "; the two strategies are compared on every case"
    ck.trusted = TRUSTED
    ck.assumptions = ASSUME + ["two failures agree when one strategy's error kind belongs to the kinds the other one collects"]
    return ck.finish()
