"""C06 -- the result does not depend on the field-lookup strategy.  Same cases as C05 (harness/drivers/c05.py): every
declaration / options / input is parsed under data_first_search=True and False (and, on failure, once more per strategy
with collect_errors to obtain the full set of error kinds); TLC judges DataParse!SameOutcome on every pair."""
import itertools
import json

from .. import tlc
from ..core import MachineryError
from .c05 import main_common, finish_notes, features, universe, kind_of, val, RULE, TRUSTED, ASSUME  # noqa
from .c05 import replay as replay_c05

# ---- declarations whose treatment of a field depends on the value given -------------------------------------------------
VD_FIELDS = [       # (tag, Field(...) arguments); the annotation is Optional[int]
    ("req+noinput(None)", "no_input=lambda v: v is None"),
    ("default+noinput(None)", "default=5, no_input=lambda v: v is None"),
    ("optional+noinput(None)", "required=False, no_input=lambda v: v is None"),
    ("alias+noinput(None)", "alias='A', no_input=lambda v: v is None"),
    ("default+noinput(str)", "default=5, no_input=lambda v: isinstance(v, str)"),
    ("req+noinput(str)", "no_input=lambda v: isinstance(v, str)"),
    ("req", ""),
    ("default", "default=5"),
    ("dep", "required=False, dependencies=['b']"),
    ("default+defer", "default=5, defer_default=True"),
]
VD_OPTS = ["", "invalid_values='exclude'", "ignore_required=True", "no_default=True", "invalid_values='exclude', ignore_required=True",
           "addition=True", "invalid_values='preserve'", "unprovided_attribute=None"]
VD_A = ["<absent>", None, 3, "4", "x"]
VD_B = ["<absent>", 1, "y"]


def vd_build(kind, fa, opt, dfs):
    o = "Options(data_first_search=%s%s)" % (dfs, (", " + opt) if opt else "")
    akey = "A" if "alias=" in fa else "a"
    if kind == "class":
        src = ("class T(Schema):\n    __options__ = %s\n    a: Optional[int] = Field(%s)\n    b: int = Field(required=False)\n"
               "def call(d):\n    t = T(**d)\n    return dict(t), {k: getattr(t, k, '<unprovided>') for k in ('a', 'b')}\n" % (o, fa))
    else:
        pa = fa.replace("required=False", "default=None").replace(", defer_default=True", "")
        src = ("@utype.parse(options=%s)\ndef T(a: Optional[int]%s, b: int = Param(None)):\n    return {'a': a, 'b': b}\n"
               "def call(d):\n    r = T(**d)\n    return r, r\n" % (o, (" = Param(%s)" % pa) if pa else ""))
    ns = {}
    exec("import utype\nfrom typing import Optional\nfrom utype import Schema, Field, Options, Param\n" + src, ns)
    return ns["call"], akey, src


def vd_observe(call, data):
    try:
        d, attrs = call(dict(data))
    except Exception as e:
        errs = getattr(e, "errors", None)
        if errs:
            return {"ok": False, "kind": kind_of(errs[0]), "allkinds": sorted({kind_of(x) for x in errs}), "data": [], "attrs": []}
        return {"ok": False, "kind": kind_of(e), "allkinds": [kind_of(e)], "data": [], "attrs": []}
    return {"ok": True, "kind": "none", "allkinds": [], "data": [{"k": str(k), "v": val(v)} for k, v in sorted(d.items(), key=str)],
            "attrs": [{"k": str(k), "v": val(v)} for k, v in sorted(attrs.items(), key=str)]}


def value_dependent(ck):
    records, n = [], 0
    for kind, (tag, fa), opt in itertools.product(("class", "func"), VD_FIELDS, VD_OPTS):
        if kind == "func" and ("dependencies" in fa or "alias=" in fa and False):
            continue
        try:
            built = {dfs: vd_build(kind, fa, opt, dfs) for dfs in (False, True)}
        except Exception as e:
            ck.count("not_judged: value-dependent declaration refused (%s)" % type(e).__name__)
            continue
        akey = built[True][1]
        for a, b in itertools.product(VD_A, VD_B):
            data = {}
            if a != "<absent>":
                data[akey] = a
            if b != "<absent>":
                data["b"] = b
            n += 1
            runs = {("dfs" if dfs else "ffs"): vd_observe(built[dfs][0], data) for dfs in (False, True)}
            records.append({"id": "vd%d" % n, "ffs": runs["ffs"], "dfs": runs["dfs"], "kind": kind, "tag": tag, "opt": opt or "default", "input": repr(data),
                            "src": built[True][2]})
    # fixed witnesses of two recorded findings: one field given under two of its names where only one value is taken as input;
    # a function with **kwargs given a parameter by position and again by name
    def two(src, datas, tag, kind="class"):
        nonlocal n
        built = {}
        for dfs in (False, True):
            ns = {}
            exec("import utype\nfrom typing import Optional\nfrom utype import Schema, Field, Options, Param\n" + src.replace("DFS", str(dfs)), ns)
            built[dfs] = ns["call"]
        for data in datas:
            n += 1
            runs = {("dfs" if dfs else "ffs"): vd_observe(built[dfs], data) for dfs in (False, True)}
            records.append({"id": "vd%d" % n, "ffs": runs["ffs"], "dfs": runs["dfs"], "kind": kind, "tag": tag, "opt": "default", "input": repr(data), "src": src, "witness": tag})
    two("class T(Schema):\n    __options__ = Options(data_first_search=DFS)\n    a: Optional[int] = Field(alias_from=['a2'], default=7, no_input=lambda v: v is None)\n"
        "def call(d):\n    t = T(**d)\n    return dict(t), {'a': getattr(t, 'a', '<unprovided>')}\n",
        [{"a": None, "a2": 3}, {"a2": None, "a": 3}, {"a": 3, "a2": 3}, {"a": None, "a2": None}], "two-names-one-not-taken")
    two("@utype.parse(options=Options(data_first_search=DFS))\ndef T(x: int, y: int = 0, **kw):\n    return {'x': x, 'y': y, 'kw': len(kw)}\n"
        "def call(d):\n    r = T(1, **d)\n    return r, r\n",
        [{"x": 2}, {"y": 2}, {"z": 2}], "positional-and-keyword-for-one-parameter", kind="func")
    res = tlc.judge("Trace_Strategy", "Trace_Strategy.cfg", [{k: r[k] for k in ("id", "ffs", "dfs")} for r in records], workers=8)
    if res.distinct != len(records):
        raise MachineryError("trace acceptance (value-dependent declarations): TLC visited %d states, expected %d" % (res.distinct, len(records)))
    ck.states += res.distinct
    ck.transitions += res.generated
    ck.judged(len(records))
    ck.count("value_dependent_cases_compared_across_strategies", len(records))
    byid = {r["id"]: r for r in records}
    for r in records:
        ck.keys.add("VD|%s|%s|%s|%s" % (r["kind"], r["tag"], r["opt"], r["ffs"]["ok"]))
    for t in res.tagged("VIOL"):
        r = byid[t[1]]
        if r.get("witness"):
            ck.violation("C06|strategies-differ|%s" % r["witness"], t[2], dict(r, vd=True))
            continue
        ck.violation("C06|%s|value-dependent|%s|%s|%s" % (t[2], r["kind"], r["tag"], r["opt"]), t[2], dict(r, vd=True))


def main():
    ck, r, byid = main_common("C06")
    ru, byu = universe(ck, "C06")
    for res, ids in ((r, byid), (ru, byu)):
        for t in res.tagged("VIOL"):
            rec = ids[t[1]]
            feats = features(rec)
            if rec["o"]["ignore_conflicts"] and "dup-differ" in feats:
                key_ = "C06|%s|ignore_alias_conflicts-which-value-wins" % t[2]
            else:
                key_ = "C06|%s|%s|%s" % (t[2], feats, ",".join(sorted(set(rec["otag"].split(",")) - {"default"})) or "default")
            ck.violation(key_, t[2], rec)
    value_dependent(ck)
    finish_notes(ck, r, byid)
    finish_notes(ck, ru, byu)
    ck.rule = RULE + ("; the two strategies are compared on every case; plus a grid of declarations (data class / decorated function) whose "
                      "treatment of a field depends on the value given (callable no_input, excluded / preserved invalid values, dependencies, "
                      "deferred defaults) x 8 option sets x 15 inputs, compared across the strategies only")
    ck.trusted = TRUSTED
    ck.assumptions = ASSUME + ["two failures agree when one strategy's error kind belongs to the kinds the other one collects"]
    return ck.finish()


def replay(path):
    d = json.load(open(path))
    rec = d["record"]
    if not rec.get("vd"):
        return replay_c05(path)
    if rec.get("witness"):
        data = eval(rec["input"])
        runs = {}
        for dfs in (False, True):
            ns = {}
            exec("import utype\nfrom typing import Optional\nfrom utype import Schema, Field, Options, Param\n" + rec["src"].replace("DFS", str(dfs)), ns)
            runs["dfs" if dfs else "ffs"] = vd_observe(ns["call"], data)
        print(rec["src"]); print("input:", data); print("field-first:", runs["ffs"]); print("data-first: ", runs["dfs"])
        r = tlc.judge("Trace_Strategy", "Trace_Strategy.cfg", [{"id": "replay", "ffs": runs["ffs"], "dfs": runs["dfs"]}], workers=1)
        v = r.tagged("VIOL")
        print("VIOLATION property=C06 replay=%s" % path if v else "replay: property holds now")
        return 1 if v else 0
    fa = dict(VD_FIELDS)[rec["tag"]]
    opt = "" if rec["opt"] == "default" else rec["opt"]
    data = eval(rec["input"])
    runs = {("dfs" if dfs else "ffs"): vd_observe(vd_build(rec["kind"], fa, opt, dfs)[0], data) for dfs in (False, True)}
    print(rec["src"])
    print("input:", data)
    print("field-first:", runs["ffs"])
    print("data-first: ", runs["dfs"])
    r = tlc.judge("Trace_Strategy", "Trace_Strategy.cfg", [{"id": "replay", "ffs": runs["ffs"], "dfs": runs["dfs"]}], workers=1)
    v = r.tagged("VIOL")
    print("VIOLATION property=C06 replay=%s" % path if v else "replay: property holds now")
    return 1 if v else 0
