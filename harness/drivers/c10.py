"""C10 -- collecting errors changes reporting only, never the verdict or the value.

MC:   Collect.tla (handle_error / raise_error as coded over a loop on items) |= P for every subset of 4 items failing
      x max_errors in {None, 1..4}.
S->C/C->S: data classes and decorated functions with up to 5 top-level items; every input with any subset of the
      fields invalid (also invalid nested elements, unions whose every branch fails), missing required fields and
      excess keys; each input is parsed fail-fast and with collect_errors (max_errors in {None, 1, 2, 3}), under both
      lookup strategies.  Every item is observed alone.  Trace_Collect (TLC) judges both runs.
"""
import itertools
import json
import random

from .. import tlc
from ..alpha import exc_names
from ..core import Check, MachineryError

FIELDS = [
    ("a", "int", "7", "'x'", True),
    ("b", "List[int]", "[1, 2]", "[1, 'q', 'r']", False),
    ("c", "Union[int, None]", "None", "'zz'", False),
    ("d", "str = Field(max_length=2, required=False)", "'ab'", "'abc'", False),
    ("e", "Dict[str, int]", "{'k': 1}", "{'k': 'v'}", True),
    ("f", "Tuple[int, str]", "(1, 'a')", "('x', 1)", False),
    ("g", "Dict[int, int]", "{1: 1}", "{'abc': 1}", False),
    ("h", "List[Dict[int, List[int]]]", "[{1: [2]}]", "[{1: [2]}, {2: ['q']}]", False),
    # logical and constrained types, a nested data class (declared in PRELUDE)
    ("i", "AllOfPS", "5", "-3", False),
    ("j", "OneOfPS", "'ab'", "'toolong'", False),
    ("k", "Sub", "{'v': 1}", "{'v': 'x'}", False),
    ("l", "Optional[PosInt]", "3", "-1", False),
    ("m", "NotNeg", "2", "-2", True),
    # a str field that itself accepts both values; the class gets a typed property computed from it (np -> int), whose conversion fails on 'cheap'
    ("n", "str", "'5'", "'cheap'", True),
]
PRELUDE = """from utype import Schema, Field, Options, Rule
from typing import List, Dict, Union, Optional, Tuple
class PosInt(int, Rule):
    gt = 0
class Small(int, Rule):
    lt = 10
class ShortS(str, Rule):
    max_length = 3
class Neg(int, Rule):
    lt = 0
AllOfPS = Rule.all_of(PosInt, Small)
OneOfPS = Rule.one_of(PosInt, ShortS)
NotNeg = Rule.all_of(int, ~Neg)
class Sub(Schema):
    v: int
"""


def class_source(names, addition, dfs):
    lines = [PRELUDE, "",
             "class T(Schema):", "    __options__ = Options(addition=%r, data_first_search=%r)" % (addition, dfs)]
    for n, ann, good, bad, req in FIELDS:
        if n not in names:
            continue
        if "Field(" in ann:
            lines.append("    %s: %s" % (n, ann))
        elif req:
            lines.append("    %s: %s" % (n, ann))
        else:
            lines.append("    %s: %s = Field(required=False)" % (n, ann))
    if "n" in names:
        lines += ["    @property", "    def np(self) -> int:", "        return self.n"]
    return "\n".join(lines) + "\n"


def func_source(names):
    params = []
    for n, ann, good, bad, req in FIELDS:
        if n not in names:
            continue
        if "Field(" in ann:
            params.append("%s: str = Field(max_length=2, default='')" % n)
        elif req:
            params.append("%s: %s" % (n, ann))
        else:
            params.append("%s: %s = None" % (n, ann.replace("Union[int, None]", "Optional[int]")))
    # required first
    params.sort(key=lambda p: "=" in p)
    return ("import utype\n" + PRELUDE + "\n"
            "def T(%s):\n    return [%s]\n") % (", ".join(params), ", ".join(n for n, *_ in FIELDS if n in names))


def canon(x):
    import utype
    if isinstance(x, utype.Schema):
        return "S{" + ",".join("%s:%s" % (k, canon(v)) for k, v in sorted(dict.items(x))) + "}"
    if isinstance(x, dict):
        return "{" + ",".join("%s:%s" % (k, canon(v)) for k, v in sorted(x.items())) + "}"
    if isinstance(x, (list, tuple)):
        return "[" + ",".join(canon(v) for v in x) + "]"
    return repr(x).replace('"', "'")


def outcome(fn):
    try:
        return {"ok": True, "v": canon(fn()), "top": "none", "reported": [], "kinds": []}
    except Exception as e:
        errs = getattr(e, "errors", None)
        top = type(e).__name__
        if errs is None:
            errs = [e]
            top = "ParseError" if "ParseError" in exc_names(e) else top
        rep, kinds = [], []
        for x in errs:
            it = getattr(x, "item", None)
            rep.append(str(it) if it is not None else "?%s" % type(x).__name__)
            kinds.append(type(x).__name__)
        return {"ok": False, "v": "", "top": top, "reported": rep, "kinds": kinds}


def main():
    import utype
    from utype import Options
    ck = Check("C10")
    thorough = ck.tier == "thorough"
    rng = random.Random(ck.seed)
    mc = tlc.run("MC_Collect", "MC_Collect.cfg")
    ck.mc(mc, "MC")
    if mc.invariant_violated:
        ck.note("model-level counterexample: %s" % mc.invariant_violated)
        ck.count("model_only_counterexamples")
    records, n = [], 0
    subsets = [s for k in (2, 3, 5) for s in itertools.combinations("abcdefgh", k)] + [s for k in (1, 2, 3) for s in itertools.combinations("aijklmn", k)]
    if not thorough:
        subsets = [("a", "b", "c"), ("a", "d", "e"), ("b", "c", "d"), tuple("abcde"), ("a", "e"), ("a", "f", "g"), ("g", "h"), ("c", "g", "h", "f"),
                   ("i",), ("a", "i"), ("i", "j", "k"), ("k", "l"), ("a", "m"), ("j", "l", "m"), ("i", "m"), ("n",), ("a", "n"), ("b", "d", "n")]
    for kind in ("class", "class-dfs", "func"):
        for names in subsets:
            if kind == "func" and "n" in names:
                continue        # properties belong to classes
            for addition in ((False, None) if kind != "func" else (None,)):
                ns = {}
                if kind == "func":
                    exec(func_source(names), ns)
                    raw = ns["T"]
                else:
                    exec(class_source(names, addition, kind == "class-dfs"), ns)
                T = ns["T"]
                fdefs = [f for f in FIELDS if f[0] in names]
                # each field: valid / invalid / missing ; plus 0-2 excess keys
                states = list(itertools.product(["good", "bad", "missing"], repeat=len(fdefs)))
                if not thorough and len(states) > 40:
                    states = rng.sample(states, 40)
                for st in states:
                    for extra in ((), ("zz",), ("zz", "yy")) if kind != "func" else ((),):
                        data, items = {}, []
                        for (fn_, ann, good, bad, req), s in zip(fdefs, st):
                            if s != "missing":
                                data[fn_] = eval(good if s == "good" else bad)
                            fails = s == "bad" or (s == "missing" and req)
                            if fn_ == "n":
                                # the field takes both values; it is the property computed from it that fails on the bad one
                                items.append({"name": "n", "fails": s == "missing"})
                                if s != "missing":
                                    items.append({"name": "np", "fails": s == "bad"})
                                continue
                            items.append({"name": fn_, "fails": fails})
                        for k in extra:
                            data[k] = 1
                            items.append({"name": k, "fails": addition is False})
                        if any(it["fails"] for it in items if it["name"] != "np"):
                            # properties are computed from a valid set of fields only: no field phase, no property to fail
                            items = [it for it in items if it["name"] != "np"]
                        if kind == "func" and any(s == "missing" and req for (f, a, g, b, req), s in zip(fdefs, st)):
                            continue    # Python would not bind the call
                        for maxe in ((0, 1, 2, 3) if thorough else (0, rng.choice([1, 2, 3]))):
                            n += 1
                            if kind == "func":
                                ffT = utype.parse(raw)
                                colT = utype.parse(options=Options(collect_errors=True, max_errors=maxe or None))(raw)
                                ff = outcome(lambda: ffT(**data))
                                col = outcome(lambda: colT(**data))
                            else:
                                o1 = Options(addition=addition, data_first_search=kind == "class-dfs")
                                o2 = Options(addition=addition, data_first_search=kind == "class-dfs", collect_errors=True, max_errors=maxe or None)
                                ff = outcome(lambda: T.__from__(dict(data), options=o1))
                                col = outcome(lambda: T.__from__(dict(data), options=o2))
                            # M replays the loop in the order in which the code visited the items: order the observed items
                            # by the reported order, the rest after
                            order = {nm: i for i, nm in enumerate(col["reported"])}
                            its = sorted(items, key=lambda it: order.get(it["name"], 99))
                            records.append({"id": "c10-%d" % n, "kind": kind, "c": {"items": its, "maxe": maxe}, "ff": ff, "col": col,
                                            "addition": str(addition), "input": repr(data)[:80]})
    byid = {x["id"]: x for x in records}
    r = tlc.judge("Trace_Collect", "Trace_Collect.cfg", records, workers=8)
    ck.mc(r, "Trace")
    if r.distinct != len(records):
        raise MachineryError("trace acceptance: TLC visited %d states, expected %d" % (r.distinct, len(records)))
    ck.judged(len(records))
    for x in records:
        ck.keys.add("%s|%s|%s|%d|%s" % (x["kind"], x["addition"], "".join("F" if i["fails"] else "v" for i in sorted(x["c"]["items"], key=lambda i: i["name"])),
                                        x["c"]["maxe"], x["col"]["ok"]))
    for x in records[:3] + records[-2:]:
        ck.sample({"id": x["id"], "kind": x["kind"], "input": x["input"], "failing_items": [i["name"] for i in x["c"]["items"] if i["fails"]],
                   "max_errors": x["c"]["maxe"] or None, "failfast": [x["ff"]["ok"], x["ff"]["reported"]], "collected": [x["col"]["ok"], x["col"]["reported"]]})
    for t in r.tagged("VIOL"):
        x = byid[t[1]]
        fk = sorted(set(k for k, it in zip(x["col"]["kinds"], x["col"]["reported"])))
        key = "C10|%s|%s|%s" % (t[2], x["kind"], "addition=%s" % x["addition"])
        ck.violation(key, t[2], x)
    dv = r.tagged("DIV")
    if dv:
        ck.count("divergences", len(dv))
        ck.note("divergence: M's loop reports different names for %d cases, e.g. %s on %s reported %s" % (
            len(dv), byid[dv[0][1]]["kind"], byid[dv[0][1]]["input"], byid[dv[0][1]]["col"]["reported"]))
    ck.exhaustive = True
    ck.rule = ("cases = data classes (field-first and data-first) and decorated functions over 2-5 of the items {required int, List[int] "
               "with invalid nested elements, Union whose branches all fail, constrained str, required Dict}, every assignment of "
               "valid / invalid / missing to the items (40 sampled per declaration in the quick tier) x 0-2 excess keys x addition policy x "
               "max_errors in {None,1,2,3}; each input parsed fail-fast and collecting; distinct_nontrivial = distinct (kind, addition, "
               "failing pattern, max_errors, verdict)")
    ck.trusted = ["TLC 1.8", "the item attribute of the library's errors as the name a report gives to an item", "canonical text of values"]
    ck.assumptions = ["failing items are known by construction (valid / invalid representatives per field type)"]
    return ck.finish()


def replay(path):
    d = json.load(open(path))
    x = d["record"]
    print(json.dumps({k: x[k] for k in ("kind", "input", "ff", "col", "c")})[:900])
    return main()
