"""The universe stage shared by C05 and C06: MC_DataLoops (the two lookup loops of base.py transcribed action by action) is model-checked over
its universe, the universe is exported by TLC (Export_DataLoops), every case is replayed into the real code under both strategies, and
Trace_DataLoops judges every recorded outcome: against the model (DIV) and against the property (VIOL)."""
import json
import os
import shutil

from .. import tlc
from ..core import MachineryError
from . import c05
from .. import looptrace


def load(path):
    return [json.loads(l) for l in open(path) if l.strip()]


def stage(ck, pid, thorough):
    tier = "thorough" if thorough else "quick"
    mc = tlc.run("MC_DataLoops", "MC_DataLoops_%s.cfg" % tier, coverage=True, timeout=7200)
    ck.mc(mc, "MC loops")
    ck.count("universe_model_states", mc.distinct)
    if mc.invariant_violated:
        ck.count("model_only_counterexamples")
        ck.note("model-level counterexample: the transcribed loops violate %s over the universe" % mc.invariant_violated)
    for a in ("Start", "Fold", "FLoop", "FAdd", "DLoop", "DPost", "Deps", "Finish"):
        if not mc.coverage.get(a, (0, 0))[0]:
            raise MachineryError("vacuity: action %s of DataLoops never taken" % a)
    if not thorough:
        for cfg, inv in (("MC_DataLoops_orig.cfg", None), ("MC_DataLoops_open.cfg", "M_Same")):
            r = tlc.run("MC_DataLoops", cfg)
            if not r.invariant_violated or (inv and r.invariant_violated != inv):
                raise MachineryError("%s: expected refutation, got %s" % (cfg, r.invariant_violated))
        ck.count("pinned_commit_loops_refuted_by_TLC")
        ck.count("open_point_reproduced_at_model_level (C06 known finding: which value wins under ignore_alias_conflicts)")
        lv = tlc.run("MC_DataLoops", "MC_DataLoops_live.cfg")
        if lv.invariant_violated:
            ck.note("model-level counterexample: Termination of the loops refuted")
            ck.count("model_only_counterexamples")
    d = tlc.scratch("dl-")
    try:
        env = {"OUT_DECLS": os.path.join(d, "decls.ndjson"), "OUT_OPTS": os.path.join(d, "opts.ndjson"), "OUT_CASES": os.path.join(d, "cases.ndjson")}
        tlc.run("Export_DataLoops", "Export_DataLoops_%s.cfg" % tier, env=env, workers=1)
        decls = {tuple(x["sh"]): x["d"] for x in load(env["OUT_DECLS"])}
        opts = {tuple(sorted(x["st"])): x["o"] for x in load(env["OUT_OPTS"])}
        names = load(env["OUT_CASES"])
    finally:
        shutil.rmtree(d, ignore_errors=True)
    ncases = sum(len(n["xs"]) for n in names)
    if mc.coverage.get("MCInit") and mc.coverage["MCInit"][0] != ncases:
        raise MachineryError("exported universe (%d cases) is not the universe TLC explored (%d initial states)" % (ncases, mc.coverage["MCInit"][0]))
    merged = Merged()
    flagged, records, k, first = {}, [], 0, True

    def flush():
        nonlocal records, first
        if not records:
            return
        res = tlc.judge("Trace_DataLoops", "Trace_DataLoops_%s.cfg" % pid, records, workers=16)
        if res.distinct != len(records):
            raise MachineryError("trace acceptance (universe): TLC visited %d states, expected %d" % (res.distinct, len(records)))
        if first:
            ck.mc(res, "Trace loops")
            first = False
        else:
            ck.states += res.distinct
            ck.transitions += res.generated
        ck.judged(len(records))
        byid = {r["id"]: r for r in records}
        for t in res.tuples:
            merged.tuples.append(t)
            if t[0] in ("VIOL", "DIV"):
                flagged[t[1]] = byid[t[1]]
        records = []

    every, step_recs = (7 if thorough else 3), []
    for n in names:
        decl, o = decls[tuple(n["sh"])], opts[tuple(sorted(n["st"]))]
        try:
            built = {dfs: c05.build(decl, o, dfs) for dfs in (False, True)}
        except Exception as e:
            # Legal() of the model says the library accepts this declaration
            raise MachineryError("universe declaration %s %s refused by the library: %s" % (n["sh"], n["st"], e))
        for x in n["xs"]:
            k += 1
            data = [(e["k"]["s"], e["v"]["s"] if e["v"]["k"] in ("lit", "str") else e["v"]["n"]) for e in x]
            runs = {}
            for dfs in (False, True):
                cls, okw = built[dfs]
                r = c05.observe(cls, decl, data)
                if not r["ok"]:
                    r["allkinds"] = c05.observe(cls, decl, data, okw, collect=True)["allkinds"] or r["allkinds"]
                runs["dfs" if dfs else "ffs"] = r
            ck.keys.add("U|%s|%s|%s|%s" % ("+".join(n["sh"]), ",".join(n["st"]), runs["ffs"]["kind"], runs["dfs"]["kind"]))
            records.append({"id": "u%d" % k, "sh": n["sh"], "st": n["st"], "x": x, "ffs": runs["ffs"], "dfs": runs["dfs"]})
            if k % every == 0:
                # statement-level trace of the same case (collecting run): one snapshot per visit of a loop head
                from utype import Options
                for dfs in (False, True):
                    cls, okw = built[dfs]
                    steps = looptrace.observe_steps(lambda: cls.__from__(dict(data), options=Options(**dict(okw, collect_errors=True))), c05.val, c05.kind_of)
                    if steps:
                        step_recs.append({"id": "ls%d-%s" % (k, "d" if dfs else "f"), "sh": n["sh"], "st": n["st"], "x": x, "steps": steps})
        if len(records) >= CHUNK:
            flush()
    flush()
    ck.count("universe_cases_replayed_into_code", k)
    # trace validation proper: DataLoops replayed action by action against the snapshots (Trace_LoopSteps)
    if not step_recs:
        ck.note("step-level binding skipped: the loop heads of the lookup loops were not found (restructured code)")
        return merged, flagged, decls, opts
    sres = tlc.judge("Trace_LoopSteps", "Trace_LoopSteps.cfg", step_recs, workers=16)
    nsnap = sum(len(r["steps"]) for r in step_recs)
    if sres.distinct != nsnap:
        raise MachineryError("trace acceptance (loop steps): TLC visited %d states, expected %d" % (sres.distinct, nsnap))
    ck.states += sres.distinct
    ck.transitions += sres.generated
    ck.count("loop_snapshots_validated_against_DataLoops_actions", nsnap)
    sdv = sres.tagged("DIV")
    if sdv:
        ck.count("loop_step_divergences", len(sdv))
        byid = {r["id"]: r for r in step_recs}
        for t in sdv[:5]:
            r = byid[t[1]]
            ck.note("divergence at step %s of %s: DataLoops differs from the code on %s %s input %s" % (t[3], t[2], r["sh"], r["st"], [(e["k"]["s"], e["v"]["n"] or e["v"]["s"]) for e in r["x"]]))
    return merged, flagged, decls, opts


CHUNK = 80000


class Merged:
    """the tagged tuples of several judging runs"""

    def __init__(self):
        self.tuples = []

    def tagged(self, tag):
        return [t for t in self.tuples if t[0] == tag]
