"""C19 -- parsing is pure: no input mutation, no shared defaults, no cross-call state.

MC:   Heap.tla (copy_value as coded, fresh containers from args parsers) |= no alias between results, class
      defaults and caller inputs over all histories of parses and mutations; the variant that shares tuples
      must be refuted.
S->C/C->S: histories (calls with omitted / provided / invalid arguments, mutations of returned containers) are
      run on real data classes, functions and generator functions with mutable defaults; after every event the
      harness logs facts (canonical projections, identities of reachable mutable containers, the outcome of the
      same call made alone in a freshly forked process on a fresh declaration) and Trace_Heap (TLC) evaluates the
      P-layer on every event.
"""
import json
import os
import pickle
import random

from .. import tlc
from ..core import Check, MachineryError

# ---- declarations ------------------------------------------------------------------------------------------
DEFAULTS = {
    "list": "[1, 2]",
    "dictlist": "{'k': [1]}",
    "tuplemix": "([1], {'k': 2})",
    "set": "{1, 2}",
    "nested": "[[1], {'a': (2, [3])}]",
}
ANN = {"list": "List[int]", "dictlist": "Dict[str, List[int]]", "tuplemix": "Tuple[List[int], Dict[str, int]]",
       "set": "Set[int]", "nested": "list", "factory": "List[int]", "plainlist": "list", "sharedfactory": "List[int]", "laxlist": "list"}
HEADER = ("import utype\nfrom utype import Schema, DataClass, Field, Options, Lax\n"
          "from typing import List, Dict, Tuple, Set, Generator\n")


def decl_source(d):
    """d = {kind: schema|dataclass|func|gen, fields: [(name, defkind, how)]} -> python source defining `T`"""
    lines = [HEADER]
    # a factory that hands out one and the same object on every call (a settings getter, a bound method of a registry, ...)
    for name, dk, how in d["fields"]:
        if dk == "sharedfactory":
            lines.append("SHARED_%s = [1, 2]" % name)
    if d["kind"] in ("schema", "dataclass"):
        lines.append("class T(%s):" % ("Schema" if d["kind"] == "schema" else "DataClass"))
        for name, dk, how in d["fields"]:
            if dk == "factory":
                lines.append("    %s: %s = Field(default_factory=list)" % (name, ANN[dk]))
            elif dk == "sharedfactory":
                lines.append("    %s: %s = Field(default_factory=lambda: SHARED_%s)" % (name, ANN[dk], name))
            elif dk == "laxlist":       # a bare list (no element type: nothing rebuilds the container) cut to length by a lax constraint
                lines.append("    %s: list = Field(default_factory=list, max_length=Lax(2))" % name)
            elif how == "field":
                lines.append("    %s: %s = Field(default=%s)" % (name, ANN[dk], DEFAULTS[dk]))
            else:
                lines.append("    %s: %s = %s" % (name, ANN[dk], DEFAULTS[dk]))
    else:
        params = ", ".join("%s: %s = %s" % (n, ANN[dk], ("utype.Param(default_factory=lambda: SHARED_%s)" % n) if dk == "sharedfactory"
                                            else "utype.Param(default_factory=list, max_length=Lax(2))" if dk == "laxlist" else DEFAULTS[dk]) for n, dk, how in d["fields"])
        names = ", ".join(n for n, _, _ in d["fields"])
        if d["kind"] == "func":
            lines += ["@utype.parse", "def T(%s):" % params, "    return {%s}" % ", ".join("'%s': %s" % (n, n) for n, _, _ in d["fields"])]
        else:
            lines += ["@utype.parse", "def T(%s) -> Generator[dict, None, None]:" % params,
                      "    yield {%s}" % ", ".join("'%s': %s" % (n, n) for n, _, _ in d["fields"])]
    return "\n".join(lines) + "\n"


def build(d):
    ns = {}
    exec(compile(decl_source(d), "c19decl", "exec"), ns)
    build.ns = ns
    return ns["T"]


def class_defaults(d, T):
    """The declared default objects as the library holds them (None for factories)."""
    out = []
    if d["kind"] in ("schema", "dataclass"):
        for name, dk, how in d["fields"]:
            f = T.__parser__.fields[name]
            out.append(None if dk in ("factory", "laxlist") else build.ns["SHARED_%s" % name] if dk == "sharedfactory" else f.field.default)
    else:
        import inspect
        raw = getattr(T, "__wrapped__", None)
        sig = inspect.signature(raw or T)
        for name, dk, how in d["fields"]:
            out.append(build.ns["SHARED_%s" % name] if dk == "sharedfactory" else None if dk == "laxlist" else sig.parameters[name].default)
    return out


# ---- facts ---------------------------------------------------------------------------------------------------
def canon(x):
    if isinstance(x, dict):
        return "{" + ",".join("%s:%s" % (canon(k), canon(v)) for k, v in sorted(x.items(), key=lambda kv: repr(kv[0]))) + "}"
    if isinstance(x, (list, tuple)):
        return ("[%s]" if isinstance(x, list) else "(%s)") % ",".join(canon(v) for v in x)
    if isinstance(x, (set, frozenset)):
        return "s{" + ",".join(sorted(canon(v) for v in x)) + "}"
    return repr(x).replace('"', "'")


class Ids:
    def __init__(self):
        self.map, self.keep = {}, []

    def of(self, o):
        i = id(o)
        if i not in self.map:
            self.map[i] = len(self.map) + 1
            self.keep.append(o)
        return self.map[i]


def moids(x, ids, acc=None):
    """identities of the mutable containers reachable from x"""
    acc = [] if acc is None else acc
    if isinstance(x, (list, set, dict)):
        acc.append(ids.of(x))
    if isinstance(x, dict):
        for v in x.values():
            moids(v, ids, acc)
    elif isinstance(x, (list, tuple, set, frozenset)):
        for v in x:
            moids(v, ids, acc)
    return acc


def values_of(d, res):
    """field values of a result, in field order"""
    if d["kind"] == "schema":
        return [dict.get(res, n) for n, _, _ in d["fields"]]
    if d["kind"] == "dataclass":
        return [res.__dict__.get(n) for n, _, _ in d["fields"]]
    return [res[n] for n, _, _ in d["fields"]]


def do_call(d, T, kwargs):
    r = T(**kwargs)
    if d["kind"] == "gen":
        r = list(r)[0]
    return r


def fresh_outcome(d, kwargs):
    """The same call made alone: freshly forked process, fresh declaration."""
    r, w = os.pipe()
    pid = os.fork()
    if pid == 0:
        try:
            os.close(r)
            try:
                T = build(d)
                res = do_call(d, T, kwargs)
                out = (True, canon(values_of(d, res)))
            except Exception as e:
                out = (False, type(e).__name__)
            os.write(w, pickle.dumps(out))
        finally:
            os._exit(0)
    os.close(w)
    data = b""
    while True:
        chunk = os.read(r, 65536)
        if not chunk:
            break
        data += chunk
    os.close(r)
    os.waitpid(pid, 0)
    return pickle.loads(data)


PROVIDE = {
    "list": [lambda: ["3", 4], lambda: [5]],
    "dictlist": [lambda: {"a": ["1", 2]}, lambda: {"b": []}],
    "tuplemix": [lambda: (["1"], {"x": "2"}), lambda: [[3], {"y": 4}]],
    "set": [lambda: {"7", 8}, lambda: [9, 9]],
    "nested": [lambda: [[7], {"z": (1, [2])}]],
    "factory": [lambda: ["6"], lambda: [6, 7]],
    "sharedfactory": [lambda: ["6"], lambda: [6, 7]],
    "laxlist": [lambda: [1, 2, 3, 4], lambda: [5], lambda: [[1], [2], [3]]],
    "plainlist": [lambda: [1, [2]]],
}
INVALID = {"list": lambda: ["x"], "dictlist": lambda: {"a": ["x"]}, "tuplemix": lambda: (["x"], {}), "set": lambda: {"x"},
           "factory": lambda: ["x"], "sharedfactory": lambda: ["x"], "laxlist": lambda: 5j, "nested": lambda: 5j, "plainlist": lambda: 5j}


def mutate(val, rng):
    """mutate the first mutable container found in val (depth chosen at random); returns a description or None"""
    cands = []

    def walk(x, path):
        if isinstance(x, (list, set, dict)):
            cands.append((x, path))
        if isinstance(x, dict):
            for k, v in x.items():
                walk(v, path + "[%r]" % (k,))
        elif isinstance(x, (list, tuple)):
            for i, v in enumerate(x):
                walk(v, path + "[%d]" % i)
    walk(val, "")
    if not cands:
        return None
    x, path = rng.choice(cands)
    if isinstance(x, list):
        x.append(99)
    elif isinstance(x, set):
        x.add(99)
    else:
        x["new"] = 99
    return path or "."


def run_history(d, script, rng):
    """script: list of ("call", mode) | ("mutate",) ; mode in omit|provide|invalid|mixed"""
    T = build(d)
    ids = Ids()
    results = []          # live result objects
    events = []
    defaults = class_defaults(d, T)

    def snapshot():
        res = []
        for r, filled in results:
            vals = values_of(d, r)
            res.append({"proj": canon(vals), "fields": [{"filled": filled[j], "moids": moids(vals[j], ids)} for j in range(len(vals))]})
        return res, [{"proj": canon(x), "moids": moids(x, ids)} for x in defaults]

    for step in script:
        if step[0] == "call":
            mode = step[1]
            kwargs, filled = {}, []
            for name, dk, how in d["fields"]:
                prov = mode == "provide" or (mode in ("mixed", "invalid") and rng.random() < 0.5)
                if prov:
                    kwargs[name] = rng.choice(PROVIDE[dk])()
                filled.append(not prov)
            if mode == "invalid":
                name, dk, how = rng.choice(d["fields"])
                kwargs[name] = INVALID[dk]()
                filled[[n for n, _, _ in d["fields"]].index(name)] = False
            before = canon(kwargs)
            fresh_ok, fresh_out = fresh_outcome(d, pickle.loads(pickle.dumps(kwargs)))
            ok, out = True, ""
            try:
                r = do_call(d, T, kwargs)
                results.append((r, filled))
                out = canon(values_of(d, r))
            except Exception as e:
                ok, out = False, type(e).__name__
            res, dfl = snapshot()
            events.append({"ev": "call", "mode": mode, "ok": ok, "out": out, "freshOk": fresh_ok, "freshOut": fresh_out,
                           "inBefore": before, "inAfter": canon(kwargs), "target": 0, "path": "",
                           "results": res, "defaults": dfl})
        else:
            if not results:
                continue
            i = rng.randrange(len(results))
            vals = values_of(d, results[i][0])
            j = rng.randrange(len(vals))
            path = mutate(vals[j], rng)
            if path is None:
                continue
            res, dfl = snapshot()
            events.append({"ev": "mutate", "mode": "", "ok": True, "out": "", "freshOk": True, "freshOut": "",
                           "inBefore": "", "inAfter": "", "target": i + 1, "path": "%s%s" % (d["fields"][j][0], path),
                           "results": res, "defaults": dfl})
    return events


def decl_name(d):
    return "%s(%s)" % (d["kind"], ",".join("%s:%s/%s" % f for f in d["fields"]))


def main():
    ck = Check("C19")
    thorough = ck.tier == "thorough"
    rng = random.Random(ck.seed)
    mc = tlc.run("MC_Heap", "MC_Heap_code%s.cfg" % ("_deep" if thorough else ""))
    ck.mc(mc, "MC")
    if mc.invariant_violated:
        ck.note("model-level counterexample: %s" % mc.invariant_violated)
        ck.count("model_only_counterexamples")
    mo = tlc.run("MC_Heap", "MC_Heap_tupleshared.cfg")
    if not mo.invariant_violated:
        raise MachineryError("P_NoAlias not falsified when copy_value shares tuples: property layer is vacuous")
    ck.count("tuple_sharing_variant_refuted_by_TLC")
    kinds = ["schema", "dataclass", "func", "gen"]
    defkinds = ["list", "dictlist", "tuplemix", "set", "nested", "factory", "sharedfactory", "laxlist", "plainlist"]
    decls = []
    for k in kinds:
        for dk in defkinds:
            if dk == "factory" and k in ("func", "gen"):
                continue
            if dk == "plainlist":
                continue
            for how in (("plain", "field") if k in ("schema", "dataclass") and dk not in ("factory", "sharedfactory", "laxlist") else ("plain",)):
                decls.append({"kind": k, "fields": [("a", dk, how)]})
        decls.append({"kind": k, "fields": [("a", "list", "plain"), ("b", "dictlist", "plain"), ("c", "tuplemix", "plain")]})
        decls.append({"kind": k, "fields": [("a", "nested", "plain"), ("b", "set", "plain")]})
    scripts = [
        [("call", "omit"), ("mutate",), ("call", "omit"), ("mutate",), ("call", "omit")],
        [("call", "invalid"), ("call", "omit"), ("call", "provide"), ("mutate",), ("call", "omit")],
        [("call", "provide"), ("mutate",), ("mutate",), ("call", "mixed"), ("call", "invalid"), ("call", "mixed")],
        [("call", "omit"), ("call", "omit"), ("mutate",), ("mutate",), ("mutate",), ("call", "omit")],
    ]
    records, meta = [], {}
    n = 0
    reps = 6 if thorough else 1
    for d in decls:
        for s in scripts:
            for _ in range(reps):
                n += 1
                rid = "c19-%d" % n
                ev = run_history(d, s, rng)
                rec = {"id": rid, "decl": decl_name(d), "events": ev}
                records.append(rec)
                meta[rid] = (d, rec)
    for _ in range(3000 if thorough else 250):
        d = rng.choice(decls)
        s = []
        for _ in range(rng.randint(3, 15 if thorough else 9)):
            s.append(("mutate",) if rng.random() < 0.4 else ("call", rng.choice(["omit", "omit", "provide", "mixed", "invalid"])))
        n += 1
        rid = "c19-%d" % n
        rec = {"id": rid, "decl": decl_name(d), "events": run_history(d, s, rng)}
        records.append(rec)
        meta[rid] = (d, rec)
    records = [r for r in records if r["events"]]
    r = tlc.judge("Trace_Heap", "Trace_Heap.cfg", records, workers=8)
    ck.mc(r, "Trace")
    expected = sum(len(x["events"]) for x in records)
    if r.distinct != expected:
        raise MachineryError("trace acceptance: TLC visited %d states, expected %d" % (r.distinct, expected))
    ck.judged(len(records))
    for rec in records:
        for e in rec["events"]:
            ck.keys.add("%s|%s|%s|%s" % (rec["decl"], e["ev"], e["mode"], e["ok"]))
    for rec in records[:2] + records[-2:]:
        ck.sample({"id": rec["id"], "decl": rec["decl"], "events": [
            (e["ev"], e["mode"] or e["path"], e["ok"], e["out"][:60]) for e in rec["events"]]})
    # the repository's own test-suite as a driver (harness/suite.py): its executions judged by TLC (Trace_Suite)
    from .. import suite
    for key_, clause_, rec_ in suite.stage(ck, "input", "C19"):
        ck.violation(key_, clause_, rec_)
    for t in r.tagged("VIOL"):
        d, rec = meta[t[1]]
        e = rec["events"][t[3] - 1]
        key = "C19|%s|%s|%s|%s" % (t[2], d["kind"], "+".join(sorted({f[1] for f in d["fields"]})), e["ev"] + ("/" + e["mode"] if e["mode"] else ""))
        ck.violation(key, t[2], {"decl": d, "source": decl_source(d), "events": rec["events"][:t[3]], "failing_event": t[3]})
    ck.rule = ("histories of calls (arguments omitted / provided / partly provided / invalid) and mutations of returned containers "
               "on Schema, DataClass, @parse functions and @parse generator functions with list / dict-of-list / tuple-of-"
               "containers / set / nested / default_factory (fresh object, or the same object every time) defaults (plain and Field(default=)): 4 fixed scripts per "
               "declaration plus seeded random scripts; every call is also made alone in a freshly forked process; "
               "distinct_nontrivial = distinct (declaration, event kind, mode, verdict)")
    ck.trusted = ["TLC 1.8", "harness/drivers/c19.py: canonical projection, id()-based identities of reachable list/set/dict objects, fork-per-call twin"]
    ck.assumptions = ["mutable = list, set, dict (as in the statement); results may alias caller inputs (same-type shortcut) but "
                      "never defaults or other results' default-filled fields"]
    ck.exhaustive = False
    return ck.finish()


def replay(path):
    d = json.load(open(path))
    rec = d["record"]
    print(rec["source"])
    print("recorded failing event:", json.dumps(rec["events"][-1])[:600])
    # re-run scripted histories on this declaration
    rng = random.Random(0)
    recs = []
    for k in range(30):
        s = [("mutate",) if rng.random() < 0.4 else ("call", rng.choice(["omit", "omit", "provide", "mixed", "invalid"])) for _ in range(8)]
        recs.append({"id": "replay-%d" % k, "decl": decl_name(rec["decl"]), "events": run_history(rec["decl"], s, rng)})
    recs = [r for r in recs if r["events"]]
    r = tlc.judge("Trace_Heap", "Trace_Heap.cfg", recs, workers=1)
    v = r.tagged("VIOL")
    print("VIOLATION property=C19 replay=%s" % path if v else "replay: property holds now")
    return 1 if v else 0
