"""C17 -- forward references and declaration order do not change behaviour.

MC:   ForwardRefs.tla (registration keys, reference-object identity, evaluation at creation / first call)
      over all 46k programs of the family: M |= P_Model for Variant=fixed; Variant=orig must be refuted.
S->C: programs of the same family (all local-scope ones, a seeded sample of the module-scope ones in the quick
      tier, many more in the thorough tier) are emitted as Python source and exec'd in fresh module
      namespaces; every use is run with a valid input, an input with a wrong nested leaf and (where a Field
      constraint sits on a referencing field) a constraint-violating input.
C->S: Trace_ForwardRefs steps M through the recorded program and TLC evaluates P_Use on every recorded use.
"""
import itertools
import json
import random
import sys
import types

from .. import tlc
from ..core import Check, MachineryError

SPELLS = ["direct", "str", "list", "dict", "opt", "union", "whole"]
PERMS = [list(p) for p in itertools.permutations(["A", "B", "N"])]


def with_s(o):
    """the subclass S of A: absent, defined straight after A, or defined last"""
    i = o.index("A")
    out = [list(o), o[:i + 1] + ["S"] + o[i + 1:], list(o) + ["S"]]
    return [x for j, x in enumerate(out) if x not in out[:j]]


def legal(p):
    pos = {e: i for i, e in enumerate(p["ents"])}
    for f in p["fields"]:
        if f["spell"] == "direct" and not p["future"] and not pos[f["target"]] < pos[f["c"]]:
            return False
        if f["cons"] and not (f["target"] == "N" and f["spell"] in ("direct", "str")):
            return False
        if p["scope"] == "local" and not (f["target"] == f["c"] and f["spell"] != "direct"):
            return False
        if p["future"] and f["spell"] in ("str", "whole"):
            return False
    return True


def all_module_programs():
    for o0, fu in itertools.product(PERMS, (False, True)):
        for o in with_s(o0):
            for us in ([["S", "A"], ["A", "S"], ["S", "B"], ["B", "S"]] if "S" in o else [["A", "B"], ["B", "A"]]):
                for t1, s1, t2, s2, c2, t3, s3, c3 in itertools.product(
                        "AB", SPELLS, "BN", SPELLS, (False, True), "AN", SPELLS, (False, True)):
                    p = {"ents": o, "scope": "module", "future": fu, "uses": us, "decoy": False, "fscope": "none", "varargs": False, "igp": False, "gen": False,
                         "fields": [{"c": "A", "att": "f1", "target": t1, "spell": s1, "cons": False},
                                    {"c": "A", "att": "f2", "target": t2, "spell": s2, "cons": c2},
                                    {"c": "B", "att": "g1", "target": t3, "spell": s3, "cons": c3}]}
                    if legal(p):
                        yield p


def all_local_programs():
    for d in (False, True):
        for s1, s2 in itertools.product(SPELLS[1:], repeat=2):
            yield {"ents": ["A"], "scope": "local", "future": False, "uses": ["A", "A"], "decoy": d, "fscope": "none", "varargs": False, "igp": False, "gen": False,
                   "fields": [{"c": "A", "att": "f1", "target": "A", "spell": s1, "cons": False},
                              {"c": "A", "att": "f2", "target": "A", "spell": s2, "cons": False}]}


def all_func_programs():
    """a decorated function (module level, or nested in a factory function) whose parameter and return type name class B"""
    for o, fu, fs, va, ig, ge, s1, s2 in itertools.product((["B", "F"], ["F", "B"]), (False, True), ("module", "local"), (False, True), (False, True),
                                                            (False, True), SPELLS, SPELLS):
        p = {"ents": o, "scope": "module", "future": fu, "uses": ["F", "F"], "decoy": False, "fscope": fs, "varargs": va, "igp": ig, "gen": ge,
             "fields": [{"c": "F", "att": "p", "target": "B", "spell": s1, "cons": False},
                        {"c": "F", "att": "r", "target": "B", "spell": s2, "cons": False}]}
        if legal(p):
            yield p


def annotation(f, n, future):
    t = "%s_%d" % (f["target"], n)
    q = t if future else "'%s'" % t
    return {"direct": t, "str": "'%s'" % t, "list": "List[%s]" % q, "dict": "Dict[str, %s]" % q,
            "opt": "Optional[%s]" % q, "union": "Union[%s, None]" % q, "whole": "'List[%s]'" % t}[f["spell"]]


def source(p, n):
    lines = []
    if p["future"]:
        lines.append("from __future__ import annotations")
    lines += ["from typing import List, Dict, Optional, Union, Iterator", "import utype", "from utype import Schema, Field, Rule", "LOG = []", "RET = [None]", ""]
    ind = ""
    if p["scope"] == "local":
        if p["decoy"]:
            lines += ["class A_%d(Schema):" % n, "    w: str", "    f1: int = 0", ""]
        lines += ["def make():"]
        ind = "    "
    for e in p["ents"]:
        if e == "N":
            lines += [ind + "class N_%d(int, Rule):" % n, ind + "    ge = 0", ""]
            continue
        if e == "S":
            lines += [ind + "class S_%d(A_%d):" % (n, n), ind + "    x: int = 0", ""]
            continue
        if e == "F":
            fp, fr = [f for f in p["fields"] if f["c"] == "F"]
            i2 = "    " if p["fscope"] == "local" else ""
            if p["fscope"] == "local":
                lines.append("def factory():")
            lines += [i2 + ("@utype.parse(ignore_params=True)" if p["igp"] else "@utype.parse"),
                      i2 + "def F_%d(%sp: %s) -> %s:" % (n, "*" if p["varargs"] else "", annotation(fp, n, p["future"]),
                                                             ("Iterator[%s]" if p["gen"] else "%s") % annotation(fr, n, p["future"])),
                      i2 + "    LOG.append(p)", i2 + ("    yield RET[0]" if p["gen"] else "    return RET[0]")]
            if p["fscope"] == "local":
                lines += ["    return F_%d" % n, "F_%d = factory()" % n]
            lines.append("")
            continue
        lines.append(ind + "class %s_%d(Schema):" % (e, n))
        lines.append(ind + "    v: int = 0")
        for f in p["fields"]:
            if f["c"] == e:
                lines.append(ind + "    %s: %s = Field(required=False%s)" % (
                    f["att"], annotation(f, n, p["future"]), ", le=5" if f["cons"] else ""))
        lines.append("")
    if p["scope"] == "local":
        lines.append("    return A_%d" % n)
    return "\n".join(lines) + "\n"


def wrap(spell, x):
    return {"list": [x], "whole": [x], "dict": {"k": x}}.get(spell, x)


def build_input(p, c, depth, kind, local, top=True):
    """(input, echo) for class c nested `depth` levels.  badleaf: the last field of the top class carries a value of
    the wrong type; badcons: every field with a Field constraint gets a value that violates it."""
    cname = ("make.<locals>.%s" % c) if local else c
    data, echo = {"v": "1"}, {"__cls__": cname, "v": 1}
    if c == "S":
        echo["x"] = 0
    if depth == 0:
        return data, echo
    fs = [f for f in p["fields"] if f["c"] == ("A" if c == "S" else c)]
    for j, f in enumerate(fs):
        bad = kind == "badleaf" and top and j == len(fs) - 1
        if f["target"] == "N":
            x, ex = "3", 3
            if kind == "badcons" and f["cons"]:
                x = "7"
            if bad:
                x = "zz"
        else:
            x, ex = build_input(p, f["target"], depth - 1, kind if kind == "badcons" else "valid", local, top=False)
            if bad:
                x = dict(x, v="zz")
        data[f["att"]] = wrap(f["spell"], x)
        echo[f["att"]] = wrap(f["spell"], ex)
    return data, echo


def project(obj):
    import utype
    if isinstance(obj, utype.Schema):
        d = {"__cls__": "_".join(type(obj).__qualname__.split("_")[:-1])}
        for k, v in dict.items(obj):
            d[str(k)] = project(v)
        return d
    if isinstance(obj, (list, tuple)):
        return [project(x) for x in obj]
    if isinstance(obj, dict):
        return {str(k): project(v) for k, v in obj.items()}
    if obj is None or isinstance(obj, (int, str)) and not isinstance(obj, bool):
        return obj if obj is not None else "None"
    return "<%s>" % type(obj).__name__


def canon(x):
    return json.dumps(x, sort_keys=True, separators=(",", ":"))


def closure_has_cons(p, c):
    c = "A" if c == "S" else c
    cs = {c} | {f["target"] for f in p["fields"] if f["c"] == c and f["target"] != "N"}
    return any(f["cons"] for f in p["fields"] if f["c"] in cs)


def run_program(p, n):
    src = source(p, n)
    mod = types.ModuleType("c17prog_%d" % n)
    sys.modules[mod.__name__] = mod
    uses = []
    try:
        try:
            exec(compile(src, mod.__name__, "exec"), mod.__dict__)
        except Exception as e:
            return None, "%s: %s" % (type(e).__name__, e)
        local = p["scope"] == "local"
        if "F" in p["ents"]:
            return run_func(p, n, mod), None
        for c in p["uses"]:
            cls = mod.make() if local else getattr(mod, "%s_%d" % (c, n))
            results = []
            kinds = ["valid", "badleaf"] + (["badcons"] if closure_has_cons(p, c) else [])
            # the very first call on the class gets the valid input in half of the programs, a bad one otherwise
            if n % 2:
                kinds = kinds[1:] + kinds[:1]
            for kind in kinds:
                data, echo = build_input(p, c, 2, kind, local)
                r = {"kind": kind, "ok": True, "value": "", "echo": canon(echo), "exc": []}
                try:
                    r["value"] = canon(project(cls(**data)))
                except Exception as e:
                    r["ok"] = False
                    r["exc"] = [k.__name__ for k in type(e).__mro__][:4]
                    r["msg"] = str(e)[:160].encode("ascii", "replace").decode()
                results.append(r)
            uses.append({"cls": c, "results": results})
    finally:
        sys.modules.pop(mod.__name__, None)
    return uses, None


def run_func(p, n, mod):
    fn = getattr(mod, "F_%d" % n)
    fp, fr = [f for f in p["fields"] if f["c"] == "F"]
    good, egood = {"v": "1"}, {"__cls__": "B", "v": 1}
    bad = {"v": "zz"}
    uses = []
    for u in p["uses"]:
        results = []
        kinds = ["valid", "badleaf", "badret"] if not p["igp"] else ["valid", "badret"]      # with ignore_params the argument is handed over as given
        if n % 2:
            kinds = kinds[1:] + kinds[:1]
        for kind in kinds:
            arg = wrap(fp["spell"], bad if kind == "badleaf" else good)
            mod.RET[0] = wrap(fr["spell"], bad if kind == "badret" else good)
            del mod.LOG[:]
            eparam = project(arg) if p["igp"] else wrap(fp["spell"], egood)
            echo = {"param": [eparam] if p["varargs"] else eparam, "ret": wrap(fr["spell"], egood)}
            r = {"kind": kind, "ok": True, "value": "", "echo": canon(echo), "exc": []}
            try:
                out = fn(arg)
                if p["gen"]:
                    out = list(out)[0]
                r["value"] = canon({"param": project(mod.LOG[-1]), "ret": project(out)})
            except Exception as e:
                r["ok"] = False
                r["exc"] = [k.__name__ for k in type(e).__mro__][:4]
                r["msg"] = str(e)[:160].encode("ascii", "replace").decode()
            results.append(r)
        uses.append({"cls": u, "results": results})
    return uses


CROSS_SRC = """from typing import List
from utype import Schema
class Box(Schema):
    parts: List['Part']
class Part(Schema):
    %s: int
"""


def cross_module(ck):
    """two modules that write the same annotation text List['Part'] for their own class Part (typing hands both the same alias object):
    a module defined after another one has used its class gets the other module's Part -- fixed witness of a recorded finding, judged by
    Trace_RefUses"""
    recs, uses, mods = [], [], []
    tag = "%x" % (id(ck) & 0xffffff)
    for i, fld in enumerate(("a", "b")):
        # module i is defined, then used, before the next one is even defined (an import at a later time)
        m = types.ModuleType("c17cross_%s_%d" % (tag, i))
        sys.modules[m.__name__] = m
        mods.append(m)
        r = {"kind": "valid", "ok": True, "value": "", "echo": canon({"__cls__": "Box", "parts": [{"__cls__": "Part", fld: 1}]}), "exc": []}
        try:
            exec(compile(CROSS_SRC % fld, m.__name__, "exec"), m.__dict__)
            r["value"] = canon(project_named(m.Box(parts=[{fld: "1"}])))
        except Exception as e:
            r["ok"], r["exc"] = False, [k.__name__ for k in type(e).__mro__][:4]
        uses.append(r)
    for m in mods:
        sys.modules.pop(m.__name__, None)
    recs.append({"id": "c17-cross", "uses": uses})
    res = tlc.judge("Trace_RefUses", "Trace_RefUses.cfg", recs, workers=1)
    if res.distinct != len(recs):
        raise MachineryError("trace acceptance (cross-module): TLC visited %d states, expected %d" % (res.distinct, len(recs)))
    ck.states += res.distinct
    ck.transitions += res.generated
    ck.judged(sum(len(x["uses"]) for x in recs))
    byid = {x["id"]: x for x in recs}
    for t in res.tagged("VIOL"):
        ck.violation("C17|%s|same-annotation-text-in-two-modules" % t[2], t[2], {"cross": True, "uses": byid[t[1]]["uses"], "source": CROSS_SRC})


def project_named(obj):
    import utype
    if isinstance(obj, utype.Schema):
        d = {"__cls__": type(obj).__name__}
        for k, v in dict.items(obj):
            d[str(k)] = project_named(v)
        return d
    if isinstance(obj, (list, tuple)):
        return [project_named(x) for x in obj]
    return obj if isinstance(obj, (int, str)) else "<%s>" % type(obj).__name__


def pattern(p):
    if "F" in p["ents"]:
        return "func:%s%s%s%s|%s|%s" % (p["fscope"], "+future" if p["future"] else "", "+varargs" if p["varargs"] else "", ("+ignore_params" if p["igp"] else "") + ("+generator" if p["gen"] else ""), ">".join(p["ents"]),
                                      ",".join("%s:%s" % (f["att"], f["spell"]) for f in p["fields"]))
    return "%s%s|%s" % (p["scope"], "+future" if p["future"] else "",
                        ",".join("%s.%s:%s>%s%s" % (f["c"], f["att"], f["spell"], f["target"], "+cons" if f["cons"] else "")
                                 for f in p["fields"]))


def key_of(p, clause, use, res):
    fs = [f for f in p["fields"] if f["c"] == use["cls"]]
    dup = any(a["target"] == b["target"] and a["spell"] != b["spell"] and
              a["spell"] in ("list", "dict", "opt", "union") and b["spell"] in ("list", "dict", "opt", "union")
              for a in p["fields"] for b in p["fields"] if a is not b and a["c"] == b["c"]) and not p["future"]
    if "F" in p["ents"]:
        return "C17|%s|func:%s%s|%s|%s" % (clause, p["fscope"], "+varargs" if p["varargs"] else "", res["kind"],
                                           "spells=" + "+".join(sorted({f["spell"] for f in p["fields"]})))
    return "C17|%s|%s%s|%s|%s" % (clause, p["scope"], "+future" if p["future"] else "", res["kind"],
                                  "same-name-in-two-generics" if dup else "spells=" + "+".join(sorted({f["spell"] for f in p["fields"]})))


def main():
    ck = Check("C17")
    thorough = ck.tier == "thorough"
    rng = random.Random(ck.seed)
    mc = tlc.run("MC_ForwardRefs", "MC_ForwardRefs_fixed.cfg")
    ck.mc(mc, "MC fixed")
    if mc.invariant_violated:
        ck.note("model-level counterexample: Variant=fixed violates %s" % mc.invariant_violated)
        ck.count("model_only_counterexamples")
    for cfg, what in (("MC_ForwardRefs_orig.cfg", "Variant=orig"), ("MC_ForwardRefs_noinherit.cfg", "Inherit=FALSE"),
                      ("MC_ForwardRefs_returnlate.cfg", "FixReturn=FALSE"), ("MC_ForwardRefs_originlost.cfg", "FixOrigin=FALSE")):
        mo = tlc.run("MC_ForwardRefs", cfg)
        if not mo.tagged("MVIOL"):
            raise MachineryError("P_Model not falsified on %s: property layer is vacuous" % what)
        ck.count("variants_refuted_by_TLC")
    menu = mc.tagged("MENU")
    if not menu or sorted(menu[0][1]["spells"]["__set__"]) != sorted(SPELLS):
        raise MachineryError("program family of the harness differs from MC_ForwardRefs (spellings)")
    mine = sorted({tuple(x) for o in PERMS for x in with_s(o)})
    if sorted(tuple(x) for x in menu[0][1]["perms"]["__set__"]) != mine:
        raise MachineryError("program family of the harness differs from MC_ForwardRefs (definition orders)")

    progs = list(all_local_programs()) + list(all_func_programs())
    modp = list(all_module_programs())
    ck.count("programs_in_family", len(progs) + len(modp))
    if mc.initial_states is not None and mc.initial_states != len(progs) + len(modp):
        raise MachineryError("program family of the harness (%d) differs from MC_ForwardRefs (%d initial states)" % (
            len(progs) + len(modp), mc.initial_states))
    nsample = len(modp) if thorough else 3500
    # always include the programs in which one class uses the same name in two different generics / unions
    special = [p for p in modp if not p["future"] and any(
        a["c"] == b["c"] and a["target"] == b["target"] and a["spell"] != b["spell"]
        for a in p["fields"] for b in p["fields"] if a is not b)]
    chosen = rng.sample(modp, min(nsample, len(modp))) + rng.sample(special, min(len(special), 400 if not thorough else 0))
    # ... and programs whose very first use is the subclass, before its base was ever called
    subfirst = [p for p in modp if p["uses"][0] == "S"]
    chosen += rng.sample(subfirst, min(len(subfirst), 600 if not thorough else 0))
    progs += chosen
    records, meta = [], {}
    for n, p in enumerate(progs):
        uses, err = run_program(p, n)
        if uses is None:
            ck.count("not_judged_program_refused")
            ck.note("program refused at definition time (not judged): %s :: %s" % (pattern(p), err))
            continue
        rid = "c17-%d" % n
        rec = {"id": rid, "prog": p, "uses": uses}
        records.append(rec)
        meta[rid] = rec
        ck.keys.add(pattern(p))
    for rec in records[:2] + records[-2:]:
        ck.sample({"id": rec["id"], "program": pattern(rec["prog"]), "order": rec["prog"]["ents"], "uses": [
            {"cls": u["cls"], "results": [(r["kind"], r["ok"]) for r in u["results"]]} for u in rec["uses"]]})
    r = tlc.judge("Trace_ForwardRefs", "Trace_ForwardRefs.cfg", records, workers=16)
    ck.mc(r, "Trace")
    expected = sum(len(x["prog"]["ents"]) + len(x["prog"]["uses"]) + 1 for x in records)
    if r.distinct != expected:
        raise MachineryError("trace acceptance: TLC visited %d states, expected %d" % (r.distinct, expected))
    ck.judged(sum(len(u["results"]) for x in records for u in x["uses"]))
    for t in r.tagged("VIOL"):
        rec = meta[t[1]]
        use = rec["uses"][t[3] - 1]
        res = use["results"][t[4] - 1]
        ck.violation(key_of(rec["prog"], t[2], use, res), t[2],
                     {"prog": rec["prog"], "source": source(rec["prog"], 0), "use": use["cls"], "result": res,
                      "pattern": pattern(rec["prog"])})
    cross_module(ck)
    divs = r.tagged("DIV")
    if divs:
        ck.count("divergences", len(divs))
        seen = set()
        for t in divs:
            k = pattern(meta[t[1]]["prog"])
            if k not in seen and len(seen) < 10:
                seen.add(k)
                ck.note("divergence: M (ForwardRefs.tla, Variant=fixed) predicts a different verdict for use %d of %s" % (t[3], k))
    ck.exhaustive = thorough
    ck.rule = ("programs = the family of MC_ForwardRefs (2 data classes + a constrained int type + optionally a subclass of the first "
               "class, 3 reference fields x 7 spellings x targets x Field constraint x definition orders x postponed annotations x "
               "first-use orders (subclass before / after its base); decorated functions at module level or nested in a factory "
               "function whose parameter (p or *p) and return type name a class, 7 x 7 spellings x 2 definition orders; local-scope "
               "self-referencing classes with/without a same-named module-level decoy): all local ones, a seeded sample of 3500 "
               "module ones plus 400 with one name in two generics and 600 whose first use is the subclass (quick) / all of them (thorough); each exec'd in a fresh "
               "module; distinct_nontrivial = distinct program shapes executed; every use run with valid / bad-leaf / "
               "constraint-violating input")
    ck.trusted = ["TLC 1.8", "harness/drivers/c17.py: source generator, input builder and its typed echo, projection of results"]
    ck.assumptions = ["uses happen after all definitions", "references to other classes from function-local classes are outside "
                      "Python's own resolution rules and are not generated",
                      "under postponed evaluation names are not quoted inside annotations"]
    return ck.finish()


def replay(path):
    d = json.load(open(path))
    rec = d["record"]
    if rec.get("cross"):
        ck = Check("C17")
        cross_module(ck)
        print("VIOLATION property=C17 replay=%s" % path if ck.violations else "replay: property holds now")
        return 1 if ck.violations else 0
    uses, err = run_program(rec["prog"], 0)
    print(source(rec["prog"], 0))
    if uses is None:
        print("program refused:", err)
        return 0
    for u in uses:
        print(u["cls"], [(r["kind"], r["ok"], r.get("msg", "")) for r in u["results"]])
    r = tlc.judge("Trace_ForwardRefs", "Trace_ForwardRefs.cfg", [{"id": "replay", "prog": rec["prog"], "uses": uses}], workers=1)
    v = r.tagged("VIOL")
    print("VIOLATION property=C17 replay=%s" % path if v else "replay: property holds now")
    return 1 if v else 0
