"""C09 -- logical type combinators mean what they say.

MC:   Logical.tla (the four branches of logical_parse as coded) over all argument tables on a 3-value universe:
      M |= P for |, ~ ; for ^ TLC exhibits the order dependence (directed scenario).
S->C/C->S: combinators over real leaves (builtin, constrained, untyped enum, generic, data class) x a pool of inputs.
      Each argument is observed alone (default / no-loss / strict options, and on what every other argument made
      of the input); the combined type is run in every argument order.  Trace_Logical (TLC) judges P_Union, P_Xor,
      P_XorOrder, P_Not, P_And and P_Algebra (constructed tree = NormalForm of the expression), and compares M's
      prediction with the code (divergence).
"""
import itertools
import json
import random

from .. import tlc
from .. import gen
from ..alpha import alpha, exc_names
from ..core import Check, MachineryError
from .c03 import leaves, POOL


def res(fn):
    try:
        return {"ok": True, "v": alpha(fn())}
    except Exception:
        return None


def fix(r, xr):
    return r if r is not None else {"ok": False, "v": xr}


def observe(op, names, lv, x):
    import utype
    from utype import Options, type_transform
    args = [lv[n] for n in names]
    built = []
    for a in args:
        b = a.get("_built") or gen.build(a)
        a["_built"] = b
        built.append(b)
    xr = alpha(x)
    strict_o = Options(no_data_loss=True, no_explicit_cast=True)
    noloss_o = Options(no_data_loss=True)
    n = len(args)
    c = {"op": op, "x": xr, "names": list(names), "args": [gen.strip(a) for a in args],
         "exact": [type(x) == b for b in built],
         "strict": [fix(res(lambda b=b: type_transform(x, b, options=strict_o)), xr) for b in built],
         "noloss": [fix(res(lambda b=b: type_transform(x, b, options=noloss_o)), xr) for b in built]}
    firsts = []
    for b in built:
        try:
            firsts.append((True, type_transform(x, b)))
        except Exception:
            firsts.append((False, None))
    tab = []
    for i, b in enumerate(built):
        row = [fix({"ok": True, "v": alpha(firsts[i][1])} if firsts[i][0] else None, xr)]
        for j in range(n):
            if firsts[j][0]:
                row.append(fix(res(lambda b=b, w=firsts[j][1]: type_transform(w, b)), xr))
            else:
                row.append({"ok": False, "v": xr})
        tab.append(row)
    c["tab"] = tab
    # & : the chain observed step by step, independently of the combinator
    ok, val = True, x
    for b in built:
        try:
            val = type_transform(val, b)
        except Exception:
            ok = False
            break
    c["chain"] = {"ok": ok, "v": alpha(val) if ok else xr}
    # the combined type
    from utype.parser.rule import LogicalType
    sym = {"union": "|", "xor": "^", "and": "&", "not": "~"}[op]

    def run(bs):
        T = LogicalType.combine(sym, *bs)
        try:
            return {"ok": True, "v": alpha(T(x)), "exc": []}
        except Exception as e:
            return {"ok": False, "v": xr, "exc": exc_names(e)}
    r = run(built)
    perms = []
    if op == "xor":
        for p in itertools.permutations(range(n)):
            perms.append(run([built[i] for i in p])["ok"])
    c["perms"] = perms
    return c, r


# ---- construction algebra ------------------------------------------------------------------------------------
def expr_leaf(n):
    return {"op": "leaf", "name": n, "args": []}


def expr(op, *args):
    return {"op": op, "name": "", "args": list(args)}


def random_expr(rng, depth, names):
    if depth == 0 or rng.random() < 0.3:
        return expr_leaf(rng.choice(names))
    op = rng.choice(["union", "xor", "and", "not", "union", "xor"])
    if op == "not":
        return expr("not", random_expr(rng, depth - 1, names))
    return expr(op, *[random_expr(rng, depth - 1, names) for _ in range(rng.randint(2, 3))])


def eval_expr(e, objs, memo=None):
    """structurally equal sub-expressions denote the same object (NotA = ~A; NotA | NotA)"""
    import functools
    import operator
    memo = {} if memo is None else memo
    key = json.dumps(e, sort_keys=True)
    if key in memo:
        return memo[key]
    memo[key] = _eval_expr(e, objs, memo)
    return memo[key]


def _eval_expr(e, objs, memo):
    import functools
    import operator
    if e["op"] == "leaf":
        return objs[e["name"]]
    vals = [eval_expr(a, objs, memo) for a in e["args"]]
    if e["op"] == "not":
        return ~vals[0]
    f = {"union": operator.or_, "xor": operator.xor, "and": operator.and_}[e["op"]]
    return functools.reduce(f, vals)


def reflect(t, objs):
    from utype.parser.rule import LogicalType, Rule
    import typing
    for n, o in objs.items():
        if t is o:
            return expr_leaf(n)
    if t is Rule or t is typing.Any:
        return expr_leaf("ANY")
    comb = getattr(t, "combinator", None)
    if comb:
        return expr({"|": "union", "^": "xor", "&": "and", "~": "not"}[comb], *[reflect(a, objs) for a in t.args])
    return expr_leaf("UNKNOWN:%s" % getattr(t, "__name__", t))


def algebra_objs():
    import typing
    import utype
    from utype import Rule, Schema

    class PA(int, Rule):
        gt = 0

    class PB(str, Rule):
        max_length = 3

    class PC(int, Rule):
        multiple_of = 2

    class SD(Schema):
        v: int = 0

    class SE(Schema):
        w: str = ""
    return {"a": PA, "b": PB, "c": PC, "d": SD, "e": SE, "ANY": typing.Any}


def main():
    ck = Check("C09")
    thorough = ck.tier == "thorough"
    rng = random.Random(ck.seed)
    for op in ("union", "not"):
        mc = tlc.run("MC_Logical", "MC_Logical_%s.cfg" % op)
        ck.mc(mc, "MC %s" % op)
        if mc.invariant_violated:
            ck.note("model-level counterexample: logical_parse '%s' as transcribed violates P" % op)
            ck.count("model_only_counterexamples")
    mx = tlc.run("MC_Logical", "MC_Logical_xor.cfg")
    ck.mc(mx, "MC xor")
    if mx.invariant_violated:
        ck.note("model-level: TLC finds argument tables on which '^' as coded (running value threaded into later arguments) "
                "gives an order-dependent verdict; replayed on real leaves below")
        ck.count("model_level_xor_order_dependence")
    lv = leaves()
    names = ["int", "float", "str", "bool", "none", "Decimal", "intwd", "weekend", "pos", "short", "even", "lint", "lstr",
             "dct", "tup", "sset", "cls", "cls2", "bytes"]
    cases = []
    pairs = list(itertools.permutations(names, 2))
    for op in ("union", "xor"):
        ps = pairs if thorough else rng.sample(pairs, 90)
        for p in ps:
            cases.append((op, p))
        triples = [("int", "str", "none"), ("intwd", "weekend", "str"), ("weekend", "intwd", "short"), ("float", "int", "bool"),
                   ("cls", "dct", "lint"), ("cls", "cls2", "none"), ("pos", "even", "short"), ("Decimal", "float", "int")]
        triples += [tuple(rng.sample(names, 3)) for _ in range(200 if thorough else 12)]
        for t in triples:
            cases.append((op, t))
    for p in (pairs if thorough else rng.sample(pairs, 60)):
        cases.append(("and", p))
    # composite arguments: a union that only converts in its last stage followed by a negation, nested combinators
    lv["optint"] = gen.logic("union", lv["int"], lv["none"])
    lv["notbig"] = gen.logic("not", gen.rule("int", [gen.con("ge", 10)]))
    lv["notshort"] = gen.logic("not", lv["short"])
    lv["intorstr"] = gen.logic("union", lv["int"], lv["str"])
    for p in [("optint", "notbig"), ("intorstr", "notshort"), ("optint", "pos"), ("float", "notbig"), ("intorstr", "notbig"),
              ("optint", "notshort"), ("intwd", "notbig")]:
        cases.append(("and", p))
        cases.append(("and", p))
    for p in [("optint", "short"), ("intorstr", "lint"), ("notbig", "short")]:
        cases.append(("union", p))
    for n in names:
        cases.append(("not", (n,)))
    records, meta = [], {}
    k = 0
    pool = POOL if thorough else POOL
    for op, ns in cases:
        for x in (pool if thorough else rng.sample(pool, 28)):
            k += 1
            try:
                c, r = observe(op, ns, lv, x)
            except Exception as e:
                ck.count("not_judged: %s" % type(e).__name__)
                continue
            if any(q["v"]["k"].endswith("x") for row in c["tab"] for q in row) or r["v"]["k"].endswith("x") or c["x"]["k"].endswith("x"):
                ck.count("not_judged: outside the exact universe")
                continue
            rec = {"id": "c09-%d" % k, "kind": "parse", "c": c, "r": r, "repr": repr(x)[:40], "e": expr_leaf("-"), "refl": expr_leaf("-")}
            records.append(rec)
            meta[rec["id"]] = rec
    # construction algebra
    objs = algebra_objs()
    exprs = []
    A, B, C, Dd, E, ANY = (expr_leaf(n) for n in ("a", "b", "c", "d", "e", "ANY"))
    exprs += [expr("not", expr("not", A)), expr("union", A, A), expr("union", A, B, A), expr("union", A, expr("union", B, C)),
              expr("union", expr("union", A, B), C), expr("xor", A, expr("xor", B, C)), expr("xor", expr("xor", A, B), C),
              expr("xor", Dd, expr("xor", A, B)), expr("xor", Dd, expr("xor", E, A)), expr("union", Dd, expr("union", E, A)),
              expr("and", Dd, expr("and", A, B)), expr("and", A, ANY), expr("union", A, ANY), expr("xor", A, ANY),
              expr("and", A, expr("and", B, A)), expr("not", expr("not", Dd)), expr("union", Dd, Dd), expr("xor", A, A),
              expr("and", A, expr("not", B)), expr("not", expr("union", A, B)), expr("union", expr("not", A), expr("not", A)),
              expr("xor", expr("union", A, B), expr("xor", C, A)), expr("union", expr("xor", A, B), expr("union", C, A))]
    for _ in range(2000 if thorough else 300):
        exprs.append(random_expr(rng, 3, ["a", "b", "c", "d", "e"]))
    dummy_c = {"op": "alg", "x": alpha(0), "names": [], "args": [], "exact": [], "strict": [], "noloss": [], "tab": [],
               "chain": {"ok": False, "v": alpha(0)}, "perms": []}
    for e in exprs:
        k += 1
        try:
            t = eval_expr(e, objs)
        except Exception as ex:
            ck.count("not_judged: expression refused %s" % type(ex).__name__)
            continue
        rec = {"id": "c09-%d" % k, "kind": "alg", "c": dummy_c, "r": {"ok": True, "v": alpha(0), "exc": []}, "repr": "",
               "e": e, "refl": reflect(t, objs)}
        records.append(rec)
        meta[rec["id"]] = rec
    r = tlc.judge("Trace_Logical", "Trace_Logical.cfg", records, workers=8)
    ck.mc(r, "Trace")
    if r.distinct != len(records):
        raise MachineryError("trace acceptance: TLC visited %d states, expected %d" % (r.distinct, len(records)))
    ck.judged(len(records))
    for rec in records:
        if rec["kind"] == "parse":
            ck.keys.add("%s|%s|%s|%s" % (rec["c"]["op"], ",".join(rec["c"]["names"]), rec["c"]["x"]["t"][0], rec["r"]["ok"]))
        else:
            ck.keys.add("alg|" + json.dumps(rec["e"]))
    for rec in records[:3] + records[-2:]:
        ck.sample({"id": rec["id"], "op": rec["c"]["op"], "args": rec["c"]["names"], "input": rec["repr"], "accepted": rec["r"]["ok"],
                   "each_argument_alone": [row[0]["ok"] for row in rec["c"]["tab"]], "expr": rec["e"], "constructed": rec["refl"]})
    for t in r.tagged("VIOL"):
        rec = meta[t[1]]
        c = rec["c"]
        if rec["kind"] == "alg":
            key = "C09|Algebra|%s" % rec["e"]["op"]
        else:
            accs = [row[0]["ok"] for row in c["tab"]]
            feat = []
            if any(c["exact"]):
                feat.append("exact-type-input")
            if c["op"] == "xor" and sum(accs) >= 2:
                feat.append("several-acceptors")
            if c["op"] == "xor" and len(set(c["perms"])) > 1:
                feat.append("order-dependent")
            key = "C09|%s|%s|%s" % (t[2], c["op"], "+".join(feat) or "plain")
        ck.violation(key, t[2], rec)
    dv = r.tagged("DIV")
    if dv:
        ck.count("divergences", len(dv))
        for t in dv[:8]:
            rec = meta[t[1]]
            ck.note("divergence: M (logical_parse as transcribed) predicts a different outcome for %s(%s) on %s" % (
                rec["c"]["op"], ",".join(rec["c"]["names"]), rec["repr"]))
    ck.exhaustive = False
    ck.rule = ("cases = |, ^ over ordered pairs and triples of 19 leaves (builtin, constrained, untyped enum, generic, data class), "
               "&, ~ x a pool of 64 inputs (28 sampled per case in the quick tier), every argument observed alone and ^ run in "
               "every argument order; construction: 23 fixed + random expression trees over Rule and Schema leaves and Any; "
               "distinct_nontrivial = distinct (combinator, leaves, input type, verdict) and distinct expressions")
    ck.trusted = ["TLC 1.8", "harness/alpha.py", "type_transform on single arguments as the independent observation of each argument"]
    ck.assumptions = ["an argument 'accepts' = type_transform(x, arg) with default options succeeds"]
    return ck.finish()


def replay(path):
    d = json.load(open(path))
    rec = d["record"]
    print(json.dumps({"op": rec["c"]["op"], "args": rec["c"]["names"], "input": rec["repr"], "result": rec["r"]["ok"], "expr": rec["e"],
                      "constructed": rec["refl"]}))
    return main()
