"""C12 -- conversion preferences only restrict, and keep their promises.

Every cell (source representative x target x the four flag sets) is evaluated on the real type_transform.  TLC
(Trace_Convert) judges: P_Restrict (what converts under a flag converts without it, to an equal value of the same type),
the promises of no_data_loss (int only from integral equal values, bool only from the unambiguous set, no collapse of a
multi-element collection, strict decoding, no datetime / timed text to date, extra tuple items and unknown keys rejected),
P_Group for no_explicit_cast, and compares the verdict matrix with Convert.tla (the converters as transcribed, M).
"""
import collections
import collections.abc
import types
import datetime
import decimal
import enum
import fractions
import json
import random
import uuid

from .. import tlc
from ..alpha import alpha, exc_names
from ..core import Check, MachineryError, Timeout, watchdog

D = decimal.Decimal
TRUE_W = {"1", "true", "yes", "on", "t", "y"}
FALSE_W = {"0", "false", "no", "off", "f"}
NULL_W = {"null", "none", "nil"}


class Color(str, enum.Enum):
    red = "r"
    green = "g"


class MyInt(int):
    pass


def facts(x, depth=0):
    fx = {"numlit": False, "n": 0, "d": 1, "ex": 0, "word": "", "badutf8": False, "empty": False, "hastime": False, "extra": False, "items": []}
    text = None
    if isinstance(x, str):
        text = x
    elif isinstance(x, (bytes, bytearray)):
        try:
            text = bytes(x).decode("utf-8")
        except UnicodeDecodeError:
            fx["badutf8"] = True
            text = bytes(x).decode("utf-8", "ignore")
    if text is not None:
        fx["empty"] = text == ""
        low = text.lower()
        fx["word"] = "true" if low in TRUE_W else "false" if low in FALSE_W else "null" if low in NULL_W else ""
        try:
            dv = D(text)
            if dv.is_finite():
                f = fractions.Fraction(dv)
                if abs(f.numerator) <= 30000 and f.denominator <= 30000:
                    fx.update(numlit=True, n=f.numerator, d=f.denominator, ex=dv.as_tuple().exponent)
        except Exception:
            pass
        import re
        if re.search(r"\d\d:\d\d", text) and not re.search(r"00:00(:00)?(\.0+)?$", text):
            fx["hastime"] = True
    if isinstance(x, datetime.datetime) and x.time() != datetime.time(0, 0):
        fx["hastime"] = True
    if isinstance(x, (list, tuple, set, frozenset)) and len(x) == 1 and isinstance(list(x)[0], collections.abc.Mapping) and len(list(x)[0]) > 1:
        fx["mapkeys"] = len(list(x)[0])          # a sequence holding one mapping of several keys
    if isinstance(x, (list, tuple)) and depth < 2:
        fx["items"] = [facts(e, depth + 1) for e in x]
    elif isinstance(x, (set, frozenset)) and depth < 2:
        fx["items"] = [facts(e, depth + 1) for e in x]
    return fx


SOURCES = [None, True, False, 0, 1, 2, -3, 10 ** 12, 0.0, 1.0, 2.5, -0.25, 3.0, 1e22, float("inf"), float("nan"),
           D("3"), D("3.0"), D("2.50"), D("1E+2"), D("NaN"), 2 + 0j, 1 + 2j,
           "", " ", "0", "1", "7", "-7", " 7 ", "007", "2.5", "3.0", "1e3", "inf", "nan", "true", "False", "yes", "off", "t", "n", "null", "None",
           "abc", "[1, 2]", "[1]", "1,2", "a;b", '{"a": 1}', "a=1&b=2", "k=v", "(1, 2)", "2022-03-04", "2022-03-04 10:11:12", "2022-03-04T00:00:00",
           "2022-03-04 10:11:12.5+08:00", "10:11:12", "P1DT2H", "1 02:03:04", "123e4567-e89b-12d3-a456-426614174000", "r", "red",
           b"", b"7", b"2.5", b"abc", b"true", b"\xff\xfe", b"[1, 2]", bytearray(b"7"),
           # undecodable bytes whose lenient decoding reads as a boolean word / a number / a null word
           b"tr\xffue", b"\xfffalse", b"1\xfe", b"\x80no", b"2\xff.5", b"nu\xffll", b"\xff7",
           [], [1], ["7"], [1, 2], ["a", "b"], [[1]], [None], (), (1,), (1, 2), (1, 2, 3), {1}, {1, 2}, frozenset({1}), collections.deque([1, 2]),
           {}, {"a": 1}, {"a": 1, "b": 2}, {1: 2}, [("a", 1)], [{"a": 1}], [{"a": 1}, {"b": 2}],
           [{"a": 1, "b": 2}], [types.MappingProxyType({"a": 1, "b": 2})], (collections.ChainMap({"a": 1}, {"b": 2}),), [collections.UserDict(a=1, b=2)],
           datetime.datetime(2022, 3, 4, 10, 11, 12), datetime.datetime(2022, 3, 4), datetime.date(2022, 3, 4), datetime.time(10, 11, 12),
           datetime.timedelta(days=1, seconds=5), uuid.UUID("123e4567-e89b-12d3-a456-426614174000"), Color.red, MyInt(5), object,
           "INST1", "INST2", "INST3"]


def targets():
    import typing
    import utype
    from utype import Schema, Rule

    class Sc(Schema):
        a: int = 0

    T2 = Rule.parse_annotation(annotation=typing.Tuple[int, int])
    return [("none", type(None), "null", True), ("bool", bool, "boolean", True), ("int", int, "number", True), ("float", float, "number", True),
            ("Decimal", D, "number", True), ("complex", complex, "number", True), ("str", str, "string", True), ("bytes", bytes, "string", True),
            ("bytearray", bytearray, "string", True), ("list", list, "array", False), ("tuple", tuple, "array", False), ("set", set, "array", False),
            ("frozenset", frozenset, "array", False), ("deque", collections.deque, "array", False), ("dict", dict, "object", False),
            ("date", datetime.date, "temporal", True), ("datetime", datetime.datetime, "temporal", True), ("time", datetime.time, "temporal", True),
            ("timedelta", datetime.timedelta, "temporal", True), ("UUID", uuid.UUID, "", True), ("Color", Color, "", True), ("MyInt", MyInt, "number", True),
            ("Tuple2", T2, "array", False), ("Schema", Sc, "object", False), ("SchemaT", Sc, "", True),
            # the same data class as a conversion target, the caller's options marked override=True (they then govern the class's own parse)
            ("SchemaTO", Sc, "", True)]


def cell(x, tname, T, tgroup, tscalar):
    from utype import type_transform, Options
    if isinstance(x, str) and x.startswith("INST"):
        if not tname.startswith("Schema"):
            raise ValueError("instances are only fed to their own class")
        x = {"INST1": [T(a=1), T(a=2)], "INST2": [T(a=1), {"a": 2}], "INST3": [T(a=1)]}[x]
    outs = []
    xr = alpha(x) if x is not object else alpha(object())
    for ne, ndl in ((False, False), (True, False), (False, True), (True, True)):
        try:
            with watchdog(3.0):
                if tname == "Schema":
                    # the flags are the data class's own options (a nested data class always parses under its class options)
                    v = T.__from__(x, options=Options(no_explicit_cast=ne, no_data_loss=ndl))
                elif tname == "SchemaTO":
                    v = type_transform(x, T, options=Options(no_explicit_cast=ne, no_data_loss=ndl, override=True))
                else:
                    v = type_transform(x, T, options=Options(no_explicit_cast=ne, no_data_loss=ndl))
            outs.append({"ok": True, "v": alpha(v), "exc": []})
        except Timeout:
            outs.append({"ok": False, "v": xr, "exc": ["TIMEOUT"]})
        except Exception as e:
            outs.append({"ok": False, "v": xr, "exc": exc_names(e)[:3]})
    fx = facts(x)
    if tname == "Tuple2" and isinstance(x, (list, tuple)) and len(x) > 2:
        fx["extra"] = True
    if tname == "Schema" and isinstance(x, dict) and any(k != "a" for k in x):
        fx["extra"] = True
    return {"x": xr, "fx": fx, "T": tname, "tgroup": tgroup, "tscalar": tscalar, "out": outs, "repr": repr(x)[:50]}


def encodable(c):
    def bad(r):
        return r["k"].endswith("x") or abs(r["n"]) > 30000 or r["d"] > 30000 or any(bad(i) for i in r["items"]) or any(bad(i) for i in r["ks"])
    return not (bad(c["x"]) or any(bad(o["v"]) for o in c["out"]))


def random_sources(rng, n):
    out = []
    for _ in range(n):
        r = rng.random()
        if r < 0.2:
            out.append(rng.choice([rng.randint(-50, 50), rng.randint(-8, 8) / 4, D(rng.randint(-99, 99)) / D(rng.choice([1, 2, 4, 10]))]))
        elif r < 0.5:
            out.append(rng.choice(["%d" % rng.randint(-20, 20), "%.2f" % (rng.randint(-400, 400) / 100), " %d" % rng.randint(0, 9), "%de%d" % (rng.randint(1, 9), rng.randint(0, 3)),
                                   rng.choice(["True", "FALSE", "Yes", "ON", "NULL", "nil", "y", "N"]), rng.choice(["x", "1x", "--1", "1.2.3", "٣"])]))
        elif r < 0.65:
            out.append(rng.choice([b"%d" % rng.randint(0, 99), b"\xc3\x28", b"yes", b"1.5"]))
        elif r < 0.85:
            out.append([rng.choice([1, "2", 2.5, "x", None, True]) for _ in range(rng.randint(0, 3))])
        else:
            out.append(rng.choice([(1, "2"), {"a": "1"}, {"a": 1, "zz": 2}, {"k"}, datetime.datetime(2020, 1, 1, 0, 0, rng.randint(0, 1)),
                                   "2020-01-01 00:00:0%d" % rng.randint(0, 1), "2020-01-01 00:00:00.%d" % rng.randint(0, 5)]))
    return out


def concretise(x):
    """a real Python value for a source record of MC_Convert"""
    k = x["k"]
    if k == "none":
        return None
    if k == "bool":
        return bool(x["n"])
    if k == "int":
        return x["n"]
    if k == "float":
        return x["n"] / x["d"]
    if k == "dec":
        return D((1 if x["n"] < 0 else 0, tuple(x["dg"]), x["ex"]))
    if k == "str":
        return x["s"]
    if k == "bytes":
        return b"\xff" + x["s"][4:].encode() if x["s"].startswith("\\xff") else x["s"].encode()
    items = [concretise(i) for i in x["items"]]
    return {"list": list, "tuple": tuple, "set": set}[k](items)


def model_stage(ck, tg):
    """MC_Convert: the converters as transcribed keep the flags' promises on every abstract source (and every antecedent is
    reachable); the sources, exported by TLC, become cells of the real converters, judged with the others (JudgeP, JudgeM)"""
    import os
    import shutil
    mc = tlc.run("MC_Convert", "MC_Convert.cfg")
    ck.mc(mc, "MC converters")
    if mc.invariant_violated:
        ck.count("model_only_counterexamples")
        ck.note("model-level counterexample: Convert.tla violates %s" % mc.invariant_violated)
    wit = tlc.run("MC_Convert", "MC_Convert_witness.cfg", workers=1, extra=("-continue",))
    names = ["W_Restrict", "W_NoLossInt", "W_NoLossIntRejects", "W_NoLossBool", "W_NoLossBoolRejects", "W_NoCollapse", "W_StrictBytes", "W_Group", "W_GroupRejects"]
    missing = [w for w in names if "Invariant %s is violated" % w not in wit.output]
    if missing:
        raise MachineryError("vacuity: the antecedents %s are unreachable in MC_Convert" % missing)
    ck.count("model_antecedents_witnessed", len(names))
    d = tlc.scratch("cv-")
    try:
        out = os.path.join(d, "sources.ndjson")
        tlc.run("Export_Convert", "Export_Convert.cfg", env={"OUT_CASES": out}, workers=1)
        srcs = [json.loads(l) for l in open(out) if l.strip()]
    finally:
        shutil.rmtree(d, ignore_errors=True)
    cells = []
    for i, sr in enumerate(srcs):
        x = concretise(sr["x"])
        for tname, T, tgroup, tscalar in tg:
            if tname not in ("int", "float", "bool", "none", "str"):
                continue
            c = cell(x, tname, T, tgroup, tscalar)
            if sr["x"]["k"] != "set":           # the iteration order of a set is not the model's
                if c["fx"] != sr["fx"] or (c["x"]["k"], c["x"]["n"], c["x"]["d"], len(c["x"]["items"])) != (sr["x"]["k"], sr["x"]["n"], sr["x"]["d"], len(sr["x"]["items"])):
                    raise MachineryError("universe source %r: the facts the harness computes %r differ from the model's %r" % (x, c["fx"], sr["fx"]))
            c["id"] = "u%d-%s" % (i, tname)
            cells.append(c)
    ck.count("universe_cells_replayed_into_code", len(cells))
    return cells


def options_flow(ck):
    """beyond the property: OptionsFlow.tla (which options govern a nested data class) model-checked, exported and bound to the code by
    probing every level of every chain of nested classes; divergences are notes"""
    import os
    import shutil
    from utype import Options
    mc = tlc.run("MC_OptionsFlow", "MC_OptionsFlow.cfg")
    ck.mc(mc, "MC options flow")
    if mc.invariant_violated:
        ck.note("model-level counterexample: OptionsFlow violates %s" % mc.invariant_violated)
    rf = tlc.run("MC_OptionsFlow", "MC_OptionsFlow_reach.cfg")
    if rf.invariant_violated != "M_FlagsReach":
        raise MachineryError("OptionsFlow: 'the caller's flags reach every nested class' should be refuted (the design behind the C12 / C18 findings)")
    d = tlc.scratch("of-")
    try:
        out = os.path.join(d, "cases.ndjson")
        tlc.run("Export_OptionsFlow", "Export_OptionsFlow.cfg", env={"OUT_CASES": out}, workers=1)
        cases = [json.loads(l) for l in open(out) if l.strip()]
    finally:
        shutil.rmtree(d, ignore_errors=True)
    if len(cases) != mc.distinct:
        raise MachineryError("exported universe (%d) is not the one TLC explored (%d)" % (len(cases), mc.distinct))
    FLAG = {"ne": "no_explicit_cast", "ndl": "no_data_loss"}

    def opts(o):
        kw = {FLAG[f]: True for f in o["flags"]}
        if o["override"]:
            kw["override"] = True
        return Options(**kw)
    chains = {}

    def chain(cl):
        key = json.dumps(cl, sort_keys=True)
        if key not in chains:
            ns = {"Options": Options}
            import utype
            ns["Schema"] = utype.Schema
            ns["Optional"] = __import__("typing").Optional
            src = ""
            for i in range(len(cl), 0, -1):
                ns["O%d" % i] = opts(cl[i - 1])
                nxt = "    nxt: Optional[K%d] = None\n" % (i + 1) if i < len(cl) else ""
                src += "class K%d(Schema):\n    __options__ = O%d\n    v: int = 0\n%s" % (i, i, nxt)
            exec(src, ns)
            chains[key] = ns["K1"]
        return chains[key]

    def data(n, level, probe):
        dd = None
        for i in range(n, 0, -1):
            cur = {"v": probe if i == level else 1}
            if dd is not None:
                cur["nxt"] = dd
            dd = cur
        return dd
    recs = []
    for ci, c in enumerate(cases):
        K = chain(c["cls"])
        ro = opts(c["runtime"])
        obs = []
        for level in range(1, len(c["cls"]) + 1):
            seen = []
            for flag, probe in (("ne", "3"), ("ndl", 2.5)):
                try:
                    K.__from__(data(len(c["cls"]), level, probe), options=ro)
                except Exception:
                    seen.append(flag)
            obs.append(seen)
        recs.append({"id": "of%d" % ci, "cls": c["cls"], "runtime": c["runtime"], "obs": obs})
    res = tlc.judge("Trace_OptionsFlow", "Trace_OptionsFlow.cfg", recs, workers=4)
    ck.mc(res, "Trace options flow")
    if res.distinct != len(recs):
        raise MachineryError("trace acceptance (options flow): TLC visited %d states, expected %d" % (res.distinct, len(recs)))
    ck.count("options_flow_chains_probed", len(recs))
    dv = res.tagged("DIV")
    if dv:
        ck.count("options_flow_divergences", len(dv))
        byid = {r["id"]: r for r in recs}
        for t in dv[:5]:
            r = byid[t[1]]
            ck.note("divergence (beyond the property): OptionsFlow predicts other governing options for classes %s under runtime %s; observed %s" % (r["cls"], r["runtime"], r["obs"]))


def main():
    ck = Check("C12")
    thorough = ck.tier == "thorough"
    rng = random.Random(ck.seed)
    tg = targets()
    records, n = [], 0
    sources = list(SOURCES) + random_sources(rng, 1500 if thorough else 120)
    for x in sources:
        for tname, T, tgroup, tscalar in tg:
            n += 1
            try:
                c = cell(x, tname, T, tgroup, tscalar)
            except Exception as e:
                ck.count("not_judged: %s" % type(e).__name__)
                continue
            if not encodable(c):
                ck.count("not_judged: outside the exact universe")
                continue
            c["id"] = "c12-%d" % n
            records.append(c)
    records += model_stage(ck, tg)
    options_flow(ck)
    byid = {c["id"]: c for c in records}
    r = tlc.judge("Trace_Convert", "Trace_Convert.cfg", records, workers=8)
    ck.mc(r, "Trace")
    if r.distinct != len(records):
        raise MachineryError("trace acceptance: TLC visited %d states, expected %d" % (r.distinct, len(records)))
    ck.judged(len(records))
    for c in records:
        ck.keys.add("%s|%s|%s|%s" % (c["x"]["t"][0], c["fx"]["word"] or ("numlit" if c["fx"]["numlit"] else ""), c["T"], "".join("1" if o["ok"] else "0" for o in c["out"])))
    for c in records[:3] + records[-2:]:
        ck.sample({"id": c["id"], "source": c["repr"], "target": c["T"], "ok(none, ne, ndl, both)": [o["ok"] for o in c["out"]]})
    for t in r.tagged("VIOL"):
        c = byid[t[1]]
        items = "[%s]" % ",".join(sorted({i["k"] for i in c["x"]["items"]})) if c["x"]["items"] else ""
        key = "C12|%s@%s|%s->%s" % (t[2], t[3], c["x"]["k"] + items + ("/" + c["fx"]["word"] if c["fx"]["word"] else "/numlit" if c["fx"]["numlit"] else ""), c["T"])
        if c["fx"].get("mapkeys") and t[2] == "Restrict":
            key = "C12|Restrict|sequence-holding-one-mapping-read-as-pairs"
        ck.violation(key, t[2], {k: c[k] for k in ("repr", "T", "out", "fx", "x")})
    dv = r.tagged("DIV")
    if dv:
        ck.count("divergences", len(dv))
        seen = set()
        for t in dv:
            c = byid[t[1]]
            k = (c["x"]["k"], c["T"], t[2])
            if k not in seen and len(seen) < 12:
                seen.add(k)
                ck.note("divergence: Convert.tla predicts a different verdict for %s -> %s under flags %s (real %s)" % (c["repr"], c["T"], t[2], [o["ok"] for o in c["out"]]))
    ck.exhaustive = True
    ck.rule = ("cells = 110 source representatives of every class of the catalogue (None, booleans, ints, floats incl. inf/nan, Decimals, complex, "
               "numeric / boolean / null words and other text, bytes incl. undecodable, collections of 0-3 elements, mappings, dates, UUID, Enum, "
               "int subclass, a class object) + seeded random sources x 24 targets (builtins, stdlib, subclass, Enum, Tuple[int,int], a data class) x "
               "the four flag sets; distinct_nontrivial = distinct (source type, text class, target, verdict vector)")
    ck.trusted = ["TLC 1.8", "harness/alpha.py", "harness/drivers/c12.py facts (Decimal() for numeric text, strict utf-8 decoding, time-part regex)"]
    ck.assumptions = ["value preservation judged on exact rationals of encodable values", "targets without a primitive group (UUID, Enum) are not "
                      "judged by the group clause"]
    return ck.finish()


def replay(path):
    d = json.load(open(path))
    print(json.dumps({k: d["record"][k] for k in ("repr", "T", "out")})[:800])
    return main()
