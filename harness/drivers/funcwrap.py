"""The universe stage of C08: MC_FuncWrap (what a decorated function does with a call before the body runs, transcribed step by step, composed
with Python's own binding rules) is model-checked over its universe of signatures x calls, the universe is exported by TLC (Export_FuncWrap),
every call is made for real on a generated decorated function and on its undecorated twin, and Trace_FuncWrap judges every record: against the
property (VIOL), against the model (DIV) and the TLA+ binding reference against Python itself (MVIOL)."""
import json
import os
import shutil

from .. import tlc
from ..core import MachineryError
from . import c08
from .. import looptrace
from .dataloops import Merged

CHUNK = 30000


def pyval(v):
    return v["n"] if v["k"] == "int" else v["s"] if v["k"] in ("lit", "str") else None


def stage(ck, thorough):
    tier = "thorough" if thorough else "quick"
    mc = tlc.run("MC_FuncWrap", "MC_FuncWrap_%s.cfg" % tier, coverage=True, timeout=7200)
    ck.mc(mc, "MC wrapper")
    ck.count("universe_model_states", mc.distinct)
    if mc.invariant_violated:
        ck.count("model_only_counterexamples")
        ck.note("model-level counterexample: the transcribed wrapper violates %s over the universe" % mc.invariant_violated)
    op = tlc.run("MC_FuncWrap", "MC_FuncWrap_open.cfg")
    if op.invariant_violated != "M_Bind":
        raise MachineryError("MC_FuncWrap_open.cfg: the recorded finding (omitted private positional-only default) is not reproduced at model level")
    ck.count("open_point_reproduced_at_model_level (C08 known finding: omitted private positional-only default)")
    if thorough:
        lv = tlc.run("MC_FuncWrap", "MC_FuncWrap_live.cfg")
        ck.mc(lv, "MC wrapper liveness")
        if lv.invariant_violated:
            ck.count("model_only_counterexamples")
            ck.note("model-level counterexample: Termination of the wrapper refuted")
    d = tlc.scratch("fw-")
    try:
        env = {"OUT_CASES": os.path.join(d, "cases.ndjson")}
        tlc.run("Export_FuncWrap", "Export_FuncWrap_%s.cfg" % tier, env=env, workers=1)
        sigs = [json.loads(l) for l in open(env["OUT_CASES"]) if l.strip()]
    finally:
        shutil.rmtree(d, ignore_errors=True)
    ncases = sum(len(s["calls"]) for s in sigs)
    if mc.coverage.get("FInit") and mc.coverage["FInit"][0] != ncases:
        raise MachineryError("exported universe (%d calls) is not the universe TLC explored (%d initial states)" % (ncases, mc.coverage["FInit"][0]))
    merged, flagged, records, k, first = Merged(), {}, [], 0, [True]

    def flush():
        if not records:
            return
        res = tlc.judge("Trace_FuncWrap", "Trace_FuncWrap.cfg", records, workers=16)
        if res.distinct != len(records):
            raise MachineryError("trace acceptance (universe): TLC visited %d states, expected %d" % (res.distinct, len(records)))
        if first[0]:
            ck.mc(res, "Trace wrapper")
            first[0] = False
        else:
            ck.states += res.distinct
            ck.transitions += res.generated
        ck.judged(len(records))
        byid = {r["id"]: r for r in records}
        for t in res.tuples:
            merged.tuples.append(t)
            if t[0] in ("VIOL", "DIV", "MVIOL"):
                flagged[t[1]] = byid[t[1]]
        del records[:]

    every, step_recs = (9 if thorough else 3), []
    for si, s in enumerate(sigs):
        # every other declaration states its defaults through utype.Param(...) instead of a literal: the same meaning
        sig = [dict(p, _default=p["def"]["n"] if p["hasdef"] else None, _alias=None, viaparam=bool(p["hasdef"] and si % 2 and not p["priv"])) for p in s["sig"]]
        try:
            fdec, fraw, dlog, rlog, dsrc = c08.build(sig, "function")
        except Exception as e:
            ck.count("not_judged: universe declaration refused (%s)" % type(e).__name__, len(s["calls"]))
            k += len(s["calls"])
            continue
        own = {key: p["name"] for p in s["sig"] if p["kind"] in ("pk", "ko") and not p["priv"] for key in p["keys"]}
        src = dsrc.splitlines()[1].strip()[:160]
        for cl in s["calls"]:
            k += 1
            pos = [pyval(v) for v in cl["pos"]]
            kw = {e["k"]: pyval(e["v"]) for e in cl["kw"]}
            kwreal = {own.get(a, a): b for a, b in kw.items()}
            r = c08.one_call(sig, "function", fdec, fraw, dlog, rlog, pos, kw, kwreal)
            ck.keys.add("U|%s|%d|%s|%s" % (src, len(pos), ",".join(sorted(kw)), r["ok"]))
            if k % every == 0:
                steps = looptrace.observe_steps(lambda: fdec(*pos, **kw), c08.val, lambda e: type(e).__name__, names=("parse_params",))
                if steps:
                    step_recs.append({"id": "ws%d" % k, "sig": s["sig"], "call": cl, "steps": steps})
            records.append({"id": "u%d" % k, "kind": "call", "sig": s["sig"], "ctx": "function", "call": cl, "r": r, "src": src,
                            "callrepr": "f(%s)" % ", ".join([repr(v) for v in pos] + ["%s=%r" % kv for kv in kw.items()])})
        if len(records) >= CHUNK:
            flush()
    flush()
    ck.count("universe_calls_replayed_into_code", k)
    if not step_recs:
        ck.note("step-level binding skipped: the loop heads of parse_params were not found (restructured code)")
        return merged, flagged
    sres = tlc.judge("Trace_WrapSteps", "Trace_WrapSteps.cfg", step_recs, workers=16)
    nsnap = sum(len(r["steps"]) for r in step_recs)
    if sres.distinct != nsnap:
        raise MachineryError("trace acceptance (wrapper steps): TLC visited %d states, expected %d" % (sres.distinct, nsnap))
    ck.states += sres.distinct
    ck.transitions += sres.generated
    ck.count("wrapper_snapshots_validated_against_FuncWrap_actions", nsnap)
    sdv = sres.tagged("DIV")
    if sdv:
        ck.count("wrapper_step_divergences", len(sdv))
        byid = {r["id"]: r for r in step_recs}
        for t in sdv[:5]:
            r = byid[t[1]]
            ck.note("divergence at step %s of %s: FuncWrap differs from parse_params on %s" % (t[3], t[2], json.dumps(r["call"])[:160]))
    return merged, flagged
