"""C14 -- JSON encoding round-trips through the parser.

MC:   Codec.tla: for every kind and value shape, the reader accepts the lexical form the encoder emits and keeps what
      must survive (P_FormsRoundTrip); the pinned-commit variant (offsets retried only when the text contains '+')
      must be refuted.
C->S: data classes over the listed field types; instances drawn from the JSON-faithful domain (negative and positive
      UTC offsets, negative and microsecond durations, large and tiny numbers, empty containers, nested classes) are
      encoded with the library's JSON encoder, the text is re-read as standard JSON (constants such as NaN rejected) and
      parsed with the same class.  Each emitted field is classified into its lexical form (binding Codec!Enc to the
      code); TLC (Trace_Codec) judges P_RoundTrip on canonical texts of the instance before and after.
Level claimed: exploration (the model check covers forms only; value-level fidelity is judged on sampled executions).
"""
import datetime
import decimal
import enum
import json
import math
import random
import re
import uuid

import utype

from .. import tlc
from ..core import Check, MachineryError

D = decimal.Decimal
PRELUDE = '''
import utype, decimal, datetime, enum, uuid, typing
from decimal import Decimal
from datetime import date, time, timedelta
from datetime import datetime as _dt
datetime = _dt
from uuid import UUID
from typing import *
from utype import Schema, Field, Options
class Color(str, enum.Enum):
    red = 'r'
    green = 'g'
class Level(int, enum.Enum):
    low = 1
    high = 2
class Kind(enum.Enum):
    a = 'a'
    b = 'b'
    c = 'c'
class Rank(enum.Enum):
    lo = 1
    hi = 2
class Swap(enum.Enum):
    A = 'B'
    B = 'A'
    C = 'C'
class Sub(Schema):
    n: int
    when: Optional[datetime] = None
    tags: List[str] = Field(default_factory=list)
'''
FIELD_TYPES = ["int", "float", "str", "bool", "Optional[int]", "bytes", "Decimal", "date", "datetime", "time", "timedelta", "UUID", "Color", "Level",
               "List[int]", "List[datetime]", "Set[int]", "Set[Color]", "Tuple[int, str]", "Tuple[datetime, ...]", "Dict[str, int]", "Dict[str, timedelta]",
               "Sub", "List[Sub]", "Optional[Sub]", "Dict[str, Decimal]", "List[Optional[float]]",
               "Dict[int, str]", "Optional[datetime]", "List[List[int]]", "Dict[str, List[date]]", "List[time]", "Dict[str, Sub]", "List[UUID]", "Tuple[date, time, timedelta]",
               "List[bytes]", "Set[str]", "List[Decimal]", "Kind", "Rank", "Set[Kind]", "Set[Rank]", "Set[Optional[int]]", "Set[date]", "Set[UUID]", "Dict[str, Kind]", "Swap", "List[Swap]"]


def tzs(rng):
    return rng.choice([None, None, datetime.timezone.utc, datetime.timezone(datetime.timedelta(hours=8)), datetime.timezone(datetime.timedelta(hours=-5)),
                       datetime.timezone(datetime.timedelta(hours=-9, minutes=-30)), datetime.timezone(datetime.timedelta(hours=5, minutes=45))])


def gen_value(rng, ann, ns):
    if ann == "int":
        return rng.choice([0, 1, -1, rng.randint(-10 ** 6, 10 ** 6), 2 ** 53, -2 ** 60, 10 ** 20])
    if ann == "float":
        return rng.choice([0.0, -0.0, 1.5, -2.25, 1e-7, 1e20, 3.141592653589793, rng.uniform(-1e6, 1e6), 5e-324, 1.7976931348623157e308])
    if ann == "str":
        return rng.choice(["", "a", "x y", "é中", "\u2028", "null", "1", '"q"', "a\\b", "\x00"])
    if ann == "bool":
        return rng.choice([True, False])
    if ann == "Optional[int]":
        return rng.choice([None, 5])
    if ann == "bytes":
        return rng.choice([b"", b"abc", "é".encode(), b"1"])
    if ann == "Decimal":
        return rng.choice([D("0"), D("1.5"), D("-2.50"), D("123456789.123456"), D("1E+3"), D("0.000001"), D("900719925474099"), D("-0.000123456789012345"), D("1E-7"),
                           D(rng.randint(-10 ** 9, 10 ** 9)) / D(rng.choice([1, 10, 1000]))])
    if ann == "date":
        return datetime.date(rng.randint(1, 9999), rng.randint(1, 12), rng.randint(1, 28))
    if ann == "datetime":
        tz = tzs(rng)
        year = rng.randint(1971, 2100) if tz is not None or rng.random() < 0.7 else rng.choice([1, 999, 1000, 1582, 1900, 1969, 1970, 9999])
        return datetime.datetime(year, rng.randint(1, 12), rng.randint(1, 28), rng.randint(0, 23), rng.randint(0, 59), rng.randint(0, 59),
                                 rng.choice([0, 0, 500000, 123456, 1, 999999]), tzinfo=tz)
    if ann == "time":
        return datetime.time(rng.randint(0, 23), rng.randint(0, 59), rng.randint(0, 59), rng.choice([0, 0, 500000, 123000, 1000]))
    if ann == "timedelta":
        return rng.choice([1, -1]) * datetime.timedelta(days=rng.choice([0, 0, 1, 400]), seconds=rng.randint(0, 86399), microseconds=rng.choice([0, 0, 7, 500000, 999999]))
    if ann == "UUID":
        return uuid.UUID(int=rng.getrandbits(128))
    if ann == "Color":
        return rng.choice(list(ns["Color"]))
    if ann in ("Level", "Kind", "Rank", "Swap"):
        return rng.choice(list(ns[ann]))
    if ann == "List[Swap]":
        return [rng.choice(list(ns["Swap"])) for _ in range(rng.randint(0, 3))]
    if ann in ("Set[Kind]", "Set[Rank]"):
        return set(rng.sample(list(ns[ann[4:-1]]), rng.randint(0, 2)))
    if ann == "Set[Optional[int]]":
        return set(rng.sample([None, 0, 1, -7], rng.randint(0, 3)))
    if ann in ("Set[date]", "Set[UUID]"):
        return {gen_value(rng, ann[4:-1], ns) for _ in range(rng.randint(0, 2))}
    if ann == "Dict[str, Kind]":
        return {k: rng.choice(list(ns["Kind"])) for k in rng.sample(["a", "b"], rng.randint(0, 2))}
    if ann == "List[int]":
        return [rng.randint(-5, 5) for _ in range(rng.randint(0, 3))]
    if ann == "List[datetime]":
        return [gen_value(rng, "datetime", ns) for _ in range(rng.randint(0, 2))]
    if ann == "Set[int]":
        return set(rng.sample(range(10), rng.randint(0, 3)))
    if ann == "Set[Color]":
        return set(rng.sample(list(ns["Color"]), rng.randint(0, 2)))
    if ann == "Tuple[int, str]":
        return (rng.randint(0, 9), rng.choice(["a", ""]))
    if ann == "Tuple[datetime, ...]":
        return tuple(gen_value(rng, "datetime", ns) for _ in range(rng.randint(0, 2)))
    if ann == "Dict[str, int]":
        return {rng.choice(["a", "b", "", "é"]): rng.randint(0, 9) for _ in range(rng.randint(0, 2))}
    if ann == "Dict[str, timedelta]":
        return {k: gen_value(rng, "timedelta", ns) for k in rng.sample(["a", "b"], rng.randint(0, 2))}
    if ann == "Dict[str, Decimal]":
        return {k: gen_value(rng, "Decimal", ns) for k in rng.sample(["a", "b"], rng.randint(0, 2))}
    if ann == "List[Optional[float]]":
        return [rng.choice([None, 1.5, -0.25]) for _ in range(rng.randint(0, 3))]
    if ann == "Dict[int, str]":
        return {k: rng.choice(["", "v"]) for k in rng.sample([0, 1, -3, 10 ** 12], rng.randint(0, 2))}
    if ann == "Optional[datetime]":
        return rng.choice([None, gen_value(rng, "datetime", ns)])
    if ann == "List[List[int]]":
        return [[rng.randint(0, 3) for _ in range(rng.randint(0, 2))] for _ in range(rng.randint(0, 2))]
    if ann == "Dict[str, List[date]]":
        return {k: [gen_value(rng, "date", ns) for _ in range(rng.randint(0, 2))] for k in rng.sample(["a", "b"], rng.randint(0, 2))}
    if ann == "Dict[str, Sub]":
        return {k: gen_value(rng, "Sub", ns) for k in rng.sample(["a", "b"], rng.randint(0, 2))}
    if ann in ("List[time]", "List[UUID]", "List[bytes]", "List[Decimal]"):
        return [gen_value(rng, ann[5:-1], ns) for _ in range(rng.randint(0, 3))]
    if ann == "Set[str]":
        return set(rng.sample(["", "a", "é", "1"], rng.randint(0, 3)))
    if ann == "Tuple[date, time, timedelta]":
        return (gen_value(rng, "date", ns), gen_value(rng, "time", ns), gen_value(rng, "timedelta", ns))
    if ann == "Sub":
        return ns["Sub"](n=rng.randint(0, 9), when=rng.choice([None, gen_value(rng, "datetime", ns)]), tags=rng.choice([[], ["t"]]))
    if ann == "List[Sub]":
        return [gen_value(rng, "Sub", ns) for _ in range(rng.randint(0, 2))]
    if ann == "Optional[Sub]":
        return rng.choice([None, gen_value(rng, "Sub", ns)])
    raise KeyError(ann)


def canon(v):
    """canonical text of a value: equal texts <=> equal values (numbers by exact value, aware datetimes by instant)"""
    import utype
    import fractions
    if isinstance(v, utype.Schema):
        return "S{" + ",".join("%s:%s" % (k, canon(x)) for k, x in sorted(dict.items(v))) + "}"
    if isinstance(v, bool) or v is None:
        return repr(v)
    if isinstance(v, enum.Enum):
        return "E(%s.%s)" % (type(v).__name__, v.name)
    if isinstance(v, (int, D)):
        return "N" + str(fractions.Fraction(v))
    if isinstance(v, float):
        return "F" + (str(fractions.Fraction(v)) if math.isfinite(v) else repr(v)) + ("-" if v == 0 and math.copysign(1, v) < 0 else "")
    if isinstance(v, datetime.datetime):
        if v.tzinfo is not None:
            return "DT@" + v.astimezone(datetime.timezone.utc).replace(tzinfo=None).isoformat()
        return "DT" + v.isoformat()
    if isinstance(v, (datetime.date, datetime.time)):
        return "T" + v.isoformat()
    if isinstance(v, datetime.timedelta):
        return "TD%d" % (v.days * 86400 * 10 ** 6 + v.seconds * 10 ** 6 + v.microseconds)
    if isinstance(v, uuid.UUID):
        return "U" + str(v)
    if isinstance(v, bytes):
        return "B" + v.hex()
    if isinstance(v, str):
        return "s" + json.dumps(v)
    if isinstance(v, (set, frozenset)):
        return "set{" + ",".join(sorted(canon(x) for x in v)) + "}"
    if isinstance(v, (list, tuple)):
        return ("[%s]" if isinstance(v, list) else "(%s)") % ",".join(canon(x) for x in v)
    if isinstance(v, dict):
        return "{" + ",".join("%s:%s" % (json.dumps(k), canon(x)) for k, x in sorted(v.items())) + "}"
    return "?" + repr(v)


FORMS = [("iso-datetime", r"^\d{4}-\d\d-\d\dT\d\d:\d\d:\d\d(\.\d+)?([+-]\d\d:\d\d(:\d\d)?)?$"), ("iso-date", r"^\d{4}-\d\d-\d\d$"), ("iso-time", r"^\d\d:\d\d:\d\d(\.\d{1,6})?$"),
         ("-PnDTnHnMnS", r"^-P\d+DT\d\dH\d\dM\d\d(\.\d+)?S$"), ("PnDTnHnMnS", r"^P\d+DT\d\dH\d\dM\d\d(\.\d+)?S$")]


def lexical(kind, raw):
    """classify the JSON value an encoder emitted into the form classes of Codec.tla"""
    if isinstance(raw, bool) or raw is None:
        return {"lex": "json-native", "offset": "none", "frac": False}
    if isinstance(raw, int):
        return {"lex": "json-int" if kind == "decimal" else "json-native", "offset": "none", "frac": False}
    if isinstance(raw, float):
        return {"lex": "json-float" if kind == "decimal" else "json-native", "offset": "none", "frac": False}
    if isinstance(raw, list):
        return {"lex": "json-array", "offset": "none", "frac": False}
    if isinstance(raw, dict):
        return {"lex": "json-object", "offset": "none", "frac": False}
    if kind in ("datetime", "date", "time", "timedelta"):
        for name, rx in FORMS:
            m = re.match(rx, raw)
            if m:
                off = "none"
                if name == "iso-datetime" and m.group(2):
                    off = m.group(2)[0]
                return {"lex": name, "offset": off, "frac": "." in raw}
        return {"lex": "unknown:" + raw[:20], "offset": "none", "frac": False}
    if kind == "decimal":
        return {"lex": "numeric-string", "offset": "none", "frac": False}
    if kind == "enum" and raw in ("A", "B"):        # Swap: the value written is the name of the other member
        return {"lex": "json-string-naming-another-member", "offset": "none", "frac": False}
    return {"lex": "json-string", "offset": "none", "frac": False}


def shape_of(kind, v):
    if kind == "datetime":
        off = v.utcoffset()
        tz = "naive" if off is None else "utc" if off == datetime.timedelta(0) else "plus" if off > datetime.timedelta(0) else "minus"
        return {"tz": tz, "frac": v.microsecond != 0}
    if kind == "time":
        return {"tz": "naive", "frac": "ms" if v.microsecond else "none"}
    if kind == "timedelta":
        return {"sign": "neg" if v < datetime.timedelta(0) else "pos", "days": abs(v).days != 0, "frac": abs(v).microseconds != 0}
    if kind == "enum":
        return {"form": "value-names-another-member" if type(v).__name__ == "Swap" and v.value != v.name else "plain"}
    if kind == "decimal":
        return {"form": "beyond53" if abs(v) > 9007199254740991 else "integral" if v.as_tuple().exponent == 0 else "fractional"}
    return {"form": "plain"}


KIND_OF = {"int": "int", "float": "float", "str": "str", "bool": "bool", "bytes": "bytes", "Decimal": "decimal", "date": "date", "datetime": "datetime", "time": "time",
           "timedelta": "timedelta", "UUID": "uuid", "Color": "enum", "Level": "enum", "Kind": "enum", "Rank": "enum", "Swap": "enum"}


def values_of_shape(kind, sh, rng):
    """concrete values of one (kind, value shape) pair of Codec.tla"""
    out = []
    for _ in range(6):
        if kind == "datetime":
            tz = {"naive": None, "utc": datetime.timezone.utc, "plus": datetime.timezone(datetime.timedelta(hours=rng.choice([1, 8]), minutes=rng.choice([0, 45]))),
                  "minus": datetime.timezone(datetime.timedelta(hours=-rng.choice([1, 9]), minutes=-rng.choice([0, 30])))}[sh["tz"]]
            out.append(datetime.datetime(rng.randint(1971, 2100), rng.randint(1, 12), rng.randint(1, 28), rng.randint(0, 23), rng.randint(0, 59), rng.randint(0, 59),
                                         rng.choice([1, 500000, 999999]) if sh["frac"] else 0, tzinfo=tz))
        elif kind == "time":
            out.append(datetime.time(rng.randint(0, 23), rng.randint(0, 59), rng.randint(0, 59), rng.choice([1000, 500000, 999000]) if sh["frac"] == "ms" else 0))
        elif kind == "timedelta":
            td = datetime.timedelta(days=rng.randint(1, 500) if sh["days"] else 0, seconds=rng.randint(1, 86399), microseconds=rng.choice([1, 500000]) if sh["frac"] else 0)
            out.append(-td if sh["sign"] == "neg" else td)
        elif kind == "decimal":
            out.append({"integral": D(rng.randint(-10 ** 9, 10 ** 9)), "fractional": D(rng.randint(-10 ** 9, 10 ** 9)) / D(1000) + D("0.0005"),
                        "beyond53": D(2 ** 53 + rng.randint(1, 10 ** 6))}[sh["form"]])
        else:
            out.append(datetime.date(rng.randint(1, 9999), rng.randint(1, 12), rng.randint(1, 28)))
    return out


def shape_replay(ck, rng, JSONEncoder):
    """spec -> code: every (kind, shape) pair of MC_Codec, exported by TLC, is exercised with concrete values through the real encoder and
    parser; the emitted form must be the one Codec!Enc names (checked again by TLC in Trace_Codec)"""
    import os
    import shutil
    d = tlc.scratch("cd-")
    try:
        out = os.path.join(d, "pairs.ndjson")
        tlc.run("Export_Codec", "Export_Codec.cfg", env={"OUT_CASES": out}, workers=1)
        pairs = [json.loads(l) for l in open(out) if l.strip()]
    finally:
        shutil.rmtree(d, ignore_errors=True)
    ann = {"datetime": "datetime", "time": "time", "timedelta": "timedelta", "decimal": "Decimal", "date": "date", "enum": "Swap"}
    recs = []
    for pi, p in enumerate(pairs):
        ns = {}
        exec(PRELUDE, ns)
        exec("class T(Schema):\n    f0: %s\n" % ann[p["kind"]], ns)
        T = ns["T"]
        if p["kind"] == "enum":
            values = [ns["Swap"].C] if p["shape"]["form"] == "plain" else [ns["Swap"].A, ns["Swap"].B]
        else:
            values = values_of_shape(p["kind"], p["shape"], rng)
        for vi, v in enumerate(values):
            if shape_of(p["kind"], v) != p["shape"]:
                raise MachineryError("concretisation of %s %s produced a value of shape %s" % (p["kind"], p["shape"], shape_of(p["kind"], v)))
            inst = T(f0=v)
            r = {"encoded": True, "stdjson": True, "decoded": True, "cin": canon(inst), "cout": "", "exc": ""}
            forms, text = [], ""
            try:
                text = json.dumps(inst, cls=JSONEncoder)
                raw = json.loads(text)
                forms.append({"kind": p["kind"], "shape": p["shape"], "form": lexical(p["kind"], raw["f0"])})
                r["cout"] = canon(T.__from__(text))
            except Exception as e:
                r["decoded"], r["exc"] = False, type(e).__name__ + ": " + str(e)[:80]
            recs.append({"id": "c14-s%d-%d" % (pi, vi), "r": r, "forms": forms, "types": [ann[p["kind"]]], "text": text[:300]})
    ck.count("model_shapes_replayed_into_code", len(pairs))
    return recs


def bad_const_(c):
    raise ValueError("non-standard JSON constant " + c)


def main():
    ck = Check("C14", level="exploration")
    thorough = ck.tier == "thorough"
    rng = random.Random(ck.seed)
    mc = tlc.run("MC_Codec", "MC_Codec_fixed.cfg")
    ck.mc(mc, "MC forms")
    if mc.invariant_violated:
        ck.note("model-level counterexample: Codec (Variant=fixed) violates P_ShapeRoundTrips")
        ck.count("model_only_counterexamples")
    mo = tlc.run("MC_Codec", "MC_Codec_orig.cfg")
    if not mo.invariant_violated:
        raise MachineryError("P_ShapeRoundTrips not refuted on Variant=orig")
    mn = tlc.run("MC_Codec", "MC_Codec_namefirst.cfg")
    if not mn.invariant_violated:
        raise MachineryError("P_ShapeRoundTrips not refuted on EnumLookup=name-first")
    ck.count("orig_variant_refuted_by_TLC", 2)
    from utype import JSONEncoder
    records, n = shape_replay(ck, rng, JSONEncoder), 0
    for ci in range(2500 if thorough else 90):
        anns = [rng.choice(FIELD_TYPES) for _ in range(rng.randint(1, 4))]
        ns = {}
        exec(PRELUDE, ns)
        src = "class T(Schema):\n" + "".join("    f%d: %s\n" % (i, a) for i, a in enumerate(anns))
        exec(src, ns)
        T = ns["T"]
        for _ in range(16 if thorough else 8):
            vals = {"f%d" % i: gen_value(rng, a, ns) for i, a in enumerate(anns)}
            try:
                inst = T(**vals)
            except Exception:
                ck.count("not_judged: instance outside what the class itself accepts")
                continue
            n += 1
            r = {"encoded": True, "stdjson": True, "decoded": True, "cin": canon(inst), "cout": "", "exc": ""}
            forms = []
            text = ""
            try:
                text = json.dumps(inst, cls=JSONEncoder)
            except Exception as e:
                r["encoded"], r["exc"] = False, type(e).__name__ + ": " + str(e)[:60]
            if r["encoded"]:
                def bad_const(c):
                    raise ValueError("non-standard JSON constant " + c)
                try:
                    raw = json.loads(text, parse_constant=bad_const)
                except Exception as e:
                    r["stdjson"], r["exc"] = False, str(e)[:60]
                    raw = None
            if r["encoded"] and r["stdjson"]:
                for i, a in enumerate(anns):
                    k = KIND_OF.get(a)
                    if k and ("f%d" % i) in raw:
                        forms.append({"kind": k, "shape": shape_of(k, getattr(inst, "f%d" % i)), "form": lexical(k, raw["f%d" % i])})
                try:
                    back = T.__from__(text)
                    r["cout"] = canon(back)
                except Exception as e:
                    r["decoded"], r["exc"] = False, type(e).__name__ + ": " + str(e)[:80]
            records.append({"id": "c14-%d" % n, "r": r, "forms": [f for f in forms if f["kind"] in ("datetime", "time", "timedelta", "decimal", "date")],
                            "types": anns, "text": text[:300]})
    # attribute-based data classes (DataClass, @utype.dataclass): the statement says "every data-class instance"; fixed witnesses
    ns = {}
    exec(PRELUDE + "from utype import DataClass\nclass WA(DataClass):\n    n: int\n    when: Optional[date] = None\n"
                   "@utype.dataclass\nclass WB:\n    n: int\n    when: Optional[date] = None\n", ns)
    for wname in ("WA", "WB"):
        inst = ns[wname](n=3, when=datetime.date(2020, 1, 2))
        n += 1
        r = {"encoded": True, "stdjson": True, "decoded": True, "cin": "W{n:N3,when:T2020-01-02}", "cout": "", "exc": ""}
        text = ""
        try:
            text = json.dumps(inst, cls=JSONEncoder)
            back = utype.type_transform(text, ns[wname]) if False else ns[wname].__from__(text) if hasattr(ns[wname], "__from__") else None
            r["cout"] = "W{n:%s,when:%s}" % (canon(getattr(back, "n", None)), canon(getattr(back, "when", None)))
        except Exception as e:
            r["encoded"], r["exc"] = bool(text), type(e).__name__ + ": " + str(e)[:60]
            r["decoded"] = False
        records.append({"id": "c14-%d" % n, "r": r, "forms": [], "types": ["int", "Optional[date]"], "text": text[:300],
                        "witness": "attribute-based-data-class"})
    # the domain of the statement is "float except NaN": the infinities belong to it; fixed witnesses
    exec("class WF(Schema):\n    f0: float\n", ns)
    for v in (float("inf"), float("-inf")):
        inst = ns["WF"](f0=v)
        n += 1
        r = {"encoded": True, "stdjson": True, "decoded": True, "cin": canon(inst), "cout": "", "exc": ""}
        text = json.dumps(inst, cls=JSONEncoder)
        try:
            json.loads(text, parse_constant=bad_const_)
            r["cout"] = canon(ns["WF"].__from__(text))
        except ValueError as e:
            r["stdjson"], r["exc"] = False, str(e)[:60]
        records.append({"id": "c14-%d" % n, "r": r, "forms": [], "types": ["float"], "text": text[:300], "witness": "float-infinity"})
    byid = {x["id"]: x for x in records}
    res = tlc.judge("Trace_Codec", "Trace_Codec.cfg", [{k: v for k, v in x.items() if k not in ("text", "witness")} for x in records], workers=8)
    ck.mc(res, "Trace")
    if res.distinct != len(records):
        raise MachineryError("trace acceptance: TLC visited %d states, expected %d" % (res.distinct, len(records)))
    ck.judged(len(records))
    for x in records:
        ck.keys.add(x["r"]["cin"][:200])
    for x in records[:3]:
        ck.sample({"id": x["id"], "field_types": x["types"], "json": x["text"][:160], "round_trip_equal": x["r"]["cin"] == x["r"]["cout"]})
    for t in res.tagged("VIOL"):
        x = byid[t[1]]
        cause = t[2]
        feat = sorted({"%s/%s" % (f["kind"], "offset" + f["form"]["offset"] if f["kind"] == "datetime" else f["form"]["lex"]) for f in x["forms"]})
        key = "C14|%s|%s" % (cause, x.get("witness") or "+".join(sorted(set(x["types"]))))
        ck.violation(key, cause, x)
    dv = res.tagged("DIV")
    if dv:
        ck.count("divergences", len(dv))
        ck.note("divergence: an emitted form is not the one Codec!Enc predicts for the value's shape: %s e.g. %s" % (len(dv), byid[dv[0][1]]["text"][:120]))
    ck.rule = ("instances = data classes of 1-4 fields over 46 field types (scalars, bytes, Decimal, date, datetime naive / UTC / positive / negative "
               "offsets, time to ms, timedelta incl. negative and microseconds, UUID, str- and int-Enum, lists, sets, tuples, dicts, nested classes), "
               "8-12 random instances each from the JSON-faithful domain; distinct_nontrivial = distinct instances (canonical text)")
    ck.trusted = ["TLC 1.8", "canonical text of instances (harness/drivers/c14.py: exact fractions, UTC instants)", "json.loads with parse_constant as the "
                  "check for standard JSON", "form classification regexes"]
    ck.assumptions = ["JSON-faithful domain of the statement; random floats are finite (the infinities are two fixed witnesses: known finding), Decimal up to 15 significant digits or integral, time to millisecond precision"]
    return ck.finish()


def replay(path):
    d = json.load(open(path))
    x = d["record"]
    print(x["types"], x["text"], x["r"])
    return main()
