"""C05 -- data-class parsing implements the declared field contract  (and the machinery shared with C06).

Declarations are generated from descriptors (fields with alias / alias_from / case-insensitivity / required / default /
defer_default / no_input / no_output / mode / dependencies; class options), built as real Schema classes, parsed on
inputs over the accepted names, their case variants, conflicting and equal duplicates and extra keys, under both lookup
strategies.  TLC judges every observed outcome against DataParse!Admissible (Trace_DataParse) -- C05 -- and the two
strategies against each other (SameOutcome) -- C06 --, and compares with the two loops as transcribed (M).
"""
import itertools
import json
import random

from .. import tlc
from ..core import Check, MachineryError

UNPROV = {"k": "UNPROVIDED", "n": 0, "s": ""}


def val(x):
    if isinstance(x, bool):
        return {"k": "other", "n": int(x), "s": "bool"}
    if isinstance(x, int):
        return {"k": "int", "n": x, "s": ""}
    if isinstance(x, str):
        if x.lstrip("-").isdigit() and str(int(x)) == x:
            return {"k": "lit", "n": int(x), "s": x}
        return {"k": "str", "n": 0, "s": x}
    if x is None:
        return {"k": "none", "n": 0, "s": ""}
    return {"k": "other", "n": 0, "s": type(x).__name__}


def key(s):
    return {"s": s, "low": s.lower()}


def F(att, out=None, alias_from=(), ci=False, req=True, default=None, defer=False, noin=False, noout=False, fmode="", deps=()):
    out = out or att
    keys = [att] + ([out] if out != att else []) + list(alias_from)
    return {"att": att, "out": out, "keys": [key(k) for k in keys], "ci": ci, "req": req and default is None, "hasdef": default is not None,
            "def": val(default) if default is not None else UNPROV, "defer": defer, "noin": noin, "noout": noout,
            "fmode": list(fmode), "deps": list(deps)}


def O(mode="", addition="none", ignore_required=False, no_default=False, force=None, defer_default=False, ignore_conflicts=False,
      ci=False, minp=0, maxp=0, exclude=False):
    return {"mode": mode, "addition": addition, "ignore_required": ignore_required, "no_default": no_default,
            "hasforce": force is not None, "force": val(force) if force is not None else UNPROV, "defer_default": defer_default,
            "ignore_conflicts": ignore_conflicts, "ci": ci, "minp": minp, "maxp": maxp, "exclude": exclude}


SHAPES = {
    "req": lambda a: F(a),
    "def": lambda a: F(a, default=7),
    "opt": lambda a: F(a, req=False),
    "alias": lambda a: F(a, out=a.upper() + "L", alias_from=[a + "2"], req=False),
    "aliasreq": lambda a: F(a, alias_from=[a + "2", a + "3"]),
    "ci": lambda a: F(a, alias_from=[a.upper() + "x"], ci=True, req=False),
    "cidef": lambda a: F(a, ci=True, default=8),
    "noin": lambda a: F(a, noin=True, default=6),
    "noinreq": lambda a: F(a, noin=True),
    "noout": lambda a: F(a, noout=True, req=False),
    "moder": lambda a: F(a, fmode="r", default=5),
    "modew": lambda a: F(a, fmode="w"),
    "defer": lambda a: F(a, default=4, defer=True),
    "dep": lambda a: F(a, req=False, deps=["a" if a != "a" else "b"]),
    "depalias": lambda a: F(a, req=False, out=a.upper() + "D", deps=["a" if a != "a" else "b"]),
}


def build(decl, opts, dfs, base="Schema"):
    import utype
    from utype import Field, Options
    ann, ns = {}, {}
    for f in decl["fields"]:
        kw = {}
        if f["out"] != f["att"]:
            kw["alias"] = f["out"]
        af = [k["s"] for k in f["keys"] if k["s"] not in (f["att"], f["out"])]
        if af:
            kw["alias_from"] = af
        if f["ci"]:
            kw["case_insensitive"] = True
        if f["hasdef"]:
            kw["default"] = f["def"]["n"]
        elif not f["req"]:
            kw["required"] = False
        if f["defer"]:
            kw["defer_default"] = True
        if f["noin"]:
            kw["no_input"] = True
        if f["noout"]:
            kw["no_output"] = True
        if f["fmode"]:
            kw["mode"] = "".join(f["fmode"])
        if f["deps"]:
            kw["dependencies"] = list(f["deps"])
        ann[f["att"]] = int
        ns[f["att"]] = Field(**kw)
    ns["__annotations__"] = ann
    okw = {"data_first_search": dfs}
    if opts["mode"]:
        okw["mode"] = opts["mode"]
    # the type extra values are converted to is spelled as a class or, for every other declaration, as a typing construct
    # with the same meaning on the extra values used here (none of them is None)
    import typing
    okw["addition"] = {"none": None, "any": True, "forbid": False,
                       "int": typing.Optional[int] if len(decl["fields"]) % 2 else int}[opts["addition"]]
    for a, b in (("ignore_required", "ignore_required"), ("no_default", "no_default"), ("defer_default", "defer_default"),
                 ("ignore_conflicts", "ignore_alias_conflicts"), ("ci", "case_insensitive")):
        if opts[a]:
            okw[b] = True
    if opts["hasforce"]:
        okw["force_default"] = opts["force"]["n"]
    if opts["exclude"]:
        okw["invalid_values"] = "exclude"
    if opts["minp"]:
        okw["min_params"] = opts["minp"]
    if opts["maxp"]:
        okw["max_params"] = opts["maxp"]
    ns["__options__"] = Options(**okw)
    root = utype.Schema if base == "Schema" else utype.DataClass
    split = decl.get("_split", 0)
    if split:
        # the same declaration spread over a base class (the first `split` fields, and the class options when _optbase) and a subclass
        names = [f["att"] for f in decl["fields"]]
        bns = {k: v for k, v in ns.items() if k in names[:split]}
        bns["__annotations__"] = {k: v for k, v in ann.items() if k in names[:split]}
        sns = {k: v for k, v in ns.items() if k in names[split:]}
        sns["__annotations__"] = {k: v for k, v in ann.items() if k in names[split:]}
        (bns if decl.get("_optbase") else sns)["__options__"] = ns["__options__"]
        Base = type("TB", (root,), bns)
        return type("T", (Base,), sns), okw
    return type("T", (root,), ns), okw


KINDS = [("DependenciesAbsenceError", "deps"), ("AbsenceError", "absence"), ("AliasConflictError", "alias"), ("ParamsExceedError", "params"),
         ("ParamsLackError", "params"), ("ExceedError", "exceed")]


def kind_of(e):
    names = [c.__name__ for c in type(e).__mro__]
    for n, k in KINDS:
        if n in names:
            return k
    if "ParseError" in names:
        return "parse"
    return "crash:" + names[0]


def observe(cls, decl, data, okw=None, collect=False):
    from utype import Options
    try:
        if collect:
            inst = cls.__from__(dict(data), options=Options(**dict(okw, collect_errors=True)))
        else:
            inst = cls(**dict(data))
    except Exception as e:
        errs = getattr(e, "errors", None)
        if errs:
            return {"ok": False, "kind": kind_of(errs[0]), "allkinds": sorted({kind_of(x) for x in errs}), "data": [], "attrs": []}
        return {"ok": False, "kind": kind_of(e), "allkinds": [kind_of(e)], "data": [], "attrs": []}
    attrs = []
    for f in decl["fields"]:
        try:
            attrs.append({"k": f["att"], "v": val(getattr(inst, f["att"]))})
        except AttributeError:
            attrs.append({"k": f["att"], "v": UNPROV})
        except Exception as e:
            attrs.append({"k": f["att"], "v": {"k": "other", "n": 0, "s": type(e).__name__}})
    return {"ok": True, "kind": "none", "allkinds": [], "data": [{"k": str(k), "v": val(v)} for k, v in dict.items(inst)], "attrs": attrs}


def legal(decl, opts):
    """declarations the model excludes: a dependency must name another field of the class"""
    atts = [f["att"] for f in decl["fields"]]
    return all(d in atts and d != f["att"] for f in decl["fields"] for d in f["deps"])


def gen_decl(rng, names=("a", "b", "c")):
    n = rng.choice([1, 2, 2, 3])
    shapes = [rng.choice(sorted(SHAPES)) for _ in range(n)]
    fields = [SHAPES[s](a) for s, a in zip(shapes, names)]
    decl = {"fields": fields}
    if n > 1 and rng.random() < 0.3:
        decl["_split"], decl["_optbase"] = rng.randint(1, n - 1), rng.random() < 0.5      # declared through inheritance
    return decl, "+".join(shapes)


def gen_opts(rng):
    o = O()
    r = rng.random()
    if r < 0.35:
        return o, "default"
    tags = []
    for name, p, vals in (("mode", 0.25, ["r", "w"]), ("addition", 0.4, ["any", "forbid", "int"])):
        if rng.random() < p:
            o[name] = rng.choice(vals)
            tags.append("%s=%s" % (name, o[name]))
    for name in ("ignore_required", "no_default", "defer_default", "ignore_conflicts", "ci", "exclude"):
        if rng.random() < 0.15:
            o[name] = True
            tags.append(name)
    if rng.random() < 0.12:
        o["hasforce"], o["force"] = True, val(9)
        tags.append("force_default")
    if rng.random() < 0.1:
        o["minp"] = rng.choice([1, 2])
        tags.append("minp")
    if rng.random() < 0.1:
        o["maxp"] = rng.choice([1, 2, 3])
        tags.append("maxp")
    return o, ",".join(tags) or "default"


VALS = [3, 4, "5", "x"]


def gen_input(rng, decl, opts):
    x = []
    for f in decl["fields"]:
        r = rng.random()
        ks = [k["s"] for k in f["keys"]]
        variants = ks + [k.upper() for k in ks] + [k.capitalize() for k in ks]
        if r < 0.25:
            continue
        if r < 0.75:
            x.append((rng.choice(variants if rng.random() < 0.4 else ks), rng.choice(VALS)))
        else:
            k1, k2 = rng.choice(ks), rng.choice(variants)
            v1 = rng.choice(VALS)
            v2 = rng.choice([v1, v1, rng.choice(VALS), str(v1) if isinstance(v1, int) else v1])
            if k1 != k2:
                x.append((k1, v1))
                x.append((k2, v2))
            else:
                x.append((k1, v1))
    r = rng.random()
    if r < 0.3:
        x.append(("zz", rng.choice([1, "2", "x"])))
    elif r < 0.4:
        x.append(("zz", 1))
        x.append(("ZZ", "x"))
    rng.shuffle(x)
    # a python dict cannot hold one key twice
    seen, out = set(), []
    for k, v in x:
        if k not in seen:
            seen.add(k)
            out.append((k, v))
    return out


def cases(rng, n):
    # fixed witness of a recorded finding: class-level case_insensitive on a subclass, an inherited field with an upper-case alias
    w = {"fields": [SHAPES["alias"]("a"), SHAPES["def"]("b")], "_split": 1, "_optbase": False}
    yield w, "alias+def", O(addition="any", ci=True), "addition=any,ci"
    for _ in range(n):
        decl, shape = gen_decl(rng)
        if not legal(decl, None):
            continue
        opts, otag = gen_opts(rng)
        yield decl, shape, opts, otag


def collect_records(ck, rng, ncases, ninputs):
    records = []
    k = 0
    for decl, shape, opts, otag in cases(rng, ncases):
        built = {}
        try:
            for dfs in (False, True):
                built[dfs] = build(decl, opts, dfs)
        except Exception as e:
            ck.count("not_judged: declaration refused (%s)" % type(e).__name__)
            continue
        for ii in range(ninputs):
            x = gen_input(rng, decl, opts)
            if k == 0 and ii == 0 and decl.get("_split") and opts["ci"]:
                x = [("Al", 4)]          # the witness input of the fixed first case
            k += 1
            runs = {}
            for dfs in (False, True):
                cls, okw = built[dfs]
                r = observe(cls, decl, x)
                if not r["ok"]:
                    r["allkinds"] = observe(cls, decl, x, okw, collect=True)["allkinds"] or r["allkinds"]
                runs["dfs" if dfs else "ffs"] = r
            records.append({"id": "c05-%d" % k, "d": {"fields": decl["fields"]}, "o": opts, "x": [{"k": key(a), "v": val(b)} for a, b in x],
                            "ffs": runs["ffs"], "dfs": runs["dfs"], "shape": shape + ("/inherited" if decl.get("_split") else ""), "split": decl.get("_split", 0), "optbase": bool(decl.get("_optbase")), "otag": otag, "input": repr(x)[:90]})
    return records


def features(rec):
    """abstract scenario features, computed by the projection (finite)"""
    d, x = rec["d"], rec["x"]
    f = set()
    for fl in d["fields"]:
        prov = [e for e in x if any((e["k"]["low"] == k["low"]) if (fl["ci"] or rec["o"]["ci"]) else (e["k"]["s"] == k["s"]) for k in fl["keys"])]
        if len(prov) > 1:
            f.add("dup-equal" if len({json.dumps(e["v"]) for e in prov}) == 1 else "dup-differ")
        if prov and any(e["k"]["s"] not in [k["s"] for k in fl["keys"]] for e in prov):
            f.add("case-variant")
        if prov and fl["noin"]:
            f.add("noin-provided")
        if prov and fl["fmode"]:
            f.add("mode-field")
        if prov and any(e["v"]["k"] == "str" for e in prov):
            f.add("invalid-value")
    return "+".join(sorted(f)) or "plain"


def main_common(pid):
    ck = Check(pid)
    thorough = ck.tier == "thorough"
    rng = random.Random(ck.seed)
    records = collect_records(ck, rng, 6000 if thorough else 500, 8 if thorough else 6)
    byid = {r["id"]: r for r in records}
    cfg = "Trace_DataParse_%s.cfg" % pid
    r = tlc.judge("Trace_DataParse", cfg, records, workers=16)
    ck.mc(r, "Trace")
    if r.distinct != len(records):
        raise MachineryError("trace acceptance: TLC visited %d states, expected %d" % (r.distinct, len(records)))
    ck.judged(len(records))
    for rec in records:
        ck.keys.add("%s|%s|%s|%s" % (rec["shape"], rec["otag"], features(rec), rec["ffs"]["ok"]))
    for rec in records[:3] + records[-2:]:
        ck.sample({"id": rec["id"], "fields": rec["shape"], "options": rec["otag"], "input": rec["input"],
                   "field_first": [rec["ffs"]["ok"], rec["ffs"]["kind"], {e["k"]: e["v"]["n"] for e in rec["ffs"]["data"]}],
                   "data_first": [rec["dfs"]["ok"], rec["dfs"]["kind"], {e["k"]: e["v"]["n"] for e in rec["dfs"]["data"]}]})
    return ck, r, byid


def universe(ck, pid):
    """the exhaustive universe of MC_DataLoops, replayed into the code (harness/drivers/dataloops.py); records get the fields the
    scenario keys are computed from"""
    from . import dataloops
    res, byid, decls, opts = dataloops.stage(ck, pid, ck.tier == "thorough")
    for rec in byid.values():
        rec["d"], rec["o"] = decls[tuple(rec["sh"])], opts[tuple(sorted(rec["st"]))]
        rec["shape"], rec["otag"] = "+".join(rec["sh"]), ",".join(sorted(rec["st"])) or "default"
        rec["input"] = repr([(e["k"]["s"], e["v"]["s"] if e["v"]["k"] in ("lit", "str") else e["v"]["n"]) for e in rec["x"]])[:90]
    return res, byid


def subclass_ci_case(rec):
    """class-level case_insensitive set on a subclass; a field inherited from the base class has an alias with upper-case letters and the
    input names it in another letter case"""
    if not (rec.get("split") and not rec.get("optbase") and rec["o"]["ci"]):
        return False
    for f in rec["d"]["fields"][:rec["split"]]:
        if f["ci"]:
            continue
        for k in f["keys"]:
            if k["s"] != k["low"] and any(e["k"]["low"] == k["low"] and e["k"]["s"] != k["s"] for e in rec["x"]):
                return True
    return False


def main():
    ck, r, byid = main_common("C05")
    ru, byu = universe(ck, "C05")
    for res, ids in ((r, byid), (ru, byu)):
        for t in res.tagged("VIOL"):
            rec = ids[t[1]]
            key_ = "C05|%s|%s|%s|%s" % (t[2], t[3], features(rec), ",".join(sorted(set(rec["otag"].split(",")) - {"default"})) or "default")
            if subclass_ci_case(rec):
                key_ = "C05|subclass-case_insensitive-inherited-uppercase-alias"        # whatever clause it surfaces through
            ck.violation(key_, t[2], rec)
    finish_notes(ck, r, byid)
    finish_notes(ck, ru, byu)
    ck.rule = RULE
    ck.trusted = TRUSTED
    ck.assumptions = ASSUME
    return ck.finish()


def finish_notes(ck, r, byid):
    dv = r.tagged("DIV")
    if dv:
        ck.count("divergences", len(dv))
        seen = set()
        for t in dv:
            rec = byid[t[1]]
            k = (t[2], rec["shape"], rec["otag"])
            if k not in seen and len(seen) < 8:
                seen.add(k)
                ck.note("divergence: M (%s loop as transcribed in DataLoops.tla) differs from the code on %s [%s] %s" % (t[2], rec["shape"], rec["otag"], rec["input"]))


RULE = ("declarations = 1-3 fields drawn from 15 field shapes (required, default, optional, alias+alias_from, case-insensitive, no_input, "
        "no_output, mode r/w, defer_default, dependencies incl. on an aliased field) x class options (mode, addition x4, ignore_required, "
        "no_default, force_default, defer_default, ignore_alias_conflicts, case_insensitive, min/max_params) x inputs over accepted names, "
        "case variants, equal / conflicting duplicates, extra keys with valid / convertible / invalid values; each under both strategies; "
        "distinct_nontrivial = distinct (field shapes, options, input features, verdict)")
TRUSTED = ["TLC 1.8", "harness/drivers/c05.py: class generator from descriptors, projection of the instance (mapping, getattr per field), "
           "mapping of exception classes to error kinds"]
ASSUME = ["all fields are int fields (conversion itself is C01/C12)", "static no_input / no_output / mode forms (callables are not generated)",
          "which alias wins under ignore_alias_conflicts is left open, as in the documentation"]


def replay(path):
    d = json.load(open(path))
    rec = d["record"]
    print(json.dumps({k: rec[k] for k in ("shape", "otag", "input", "ffs", "dfs")})[:900])
    out = []
    for dfs in (False, True):
        cls, okw = build(rec["d"], rec["o"], dfs)
        out.append(observe(cls, rec["d"], [(e["k"]["s"], e["v"]["s"] if e["v"]["k"] in ("lit", "str") else e["v"]["n"]) for e in rec["x"]]))
    rec2 = dict(rec, ffs=out[0], dfs=out[1], id="replay")
    for o in out:
        o.setdefault("allkinds", [o["kind"]])
    pid = d["property"]
    r = tlc.judge("Trace_DataParse", "Trace_DataParse_%s.cfg" % pid, [rec2], workers=1)
    v = r.tagged("VIOL")
    print("now:", out)
    print("VIOLATION property=%s replay=%s" % (pid, path) if v else "replay: property holds now")
    return 1 if v else 0
