"""C18 -- the depth limit is exact and parse cost stays bounded.

MC:   Depth.tla (context depth / route accounting as coded) |= P_Exact over all chains of class / container links
      with truthy and falsy routes x limits; the pinned-commit variant (`if route:`) must be refuted.
S->C/C->S: recursive data classes (direct, Optional, List, Dict, Tuple, union of two classes); input trees with the
      nested value at every kind of position (list index 0 and 1, mapping key '' and 'k', tuple position, union
      branch), depth d-1, d, d+1 for d in 1..4, cyclic inputs; chains of depth 1..18 (valid, and with one invalid
      leaf at the bottom) run under a work budget.  Work = calls of a counting leaf converter.  Trace_Depth (TLC)
      judges P_Exact on the projected input tree and P_Cost against the fixed polynomial bound.
"""
import json
import random
import sys
import types

from .. import tlc
from ..core import Check, MachineryError
from .. import looptrace

SRC = '''
from typing import List, Dict, Tuple, Optional, Union
from utype import Schema, Field, Options
from c18leaf import Leaf

class ND(Schema):
    __options__ = OPTS
    leaf: Leaf = Field(required=False)
    nxt: 'ND' = Field(required=False)
class NO(Schema):
    __options__ = OPTS
    leaf: Leaf = Field(required=False)
    nxt: Optional['NO'] = None
class NL(Schema):
    __options__ = OPTS
    leaf: Leaf = Field(required=False)
    nxt: List['NL'] = Field(default_factory=list)
class NM(Schema):
    __options__ = OPTS
    leaf: Leaf = Field(required=False)
    nxt: Dict[str, 'NM'] = Field(default_factory=dict)
class NT(Schema):
    __options__ = OPTS
    leaf: Leaf = Field(required=False)
    nxt: Tuple['NT', ...] = Field(default_factory=tuple)
class Other(Schema):
    __options__ = OPTS
    zzz: int
class NU(Schema):
    __options__ = OPTS
    leaf: Leaf = Field(required=False)
    nxt: Union['Other', 'NU', None] = None
'''


class Abort(BaseException):
    """work budget exhausted (not an Exception, so that no handler of the library swallows it)"""


class Counter:
    def __init__(self):
        self.calls = 0
        self.budget = 10 ** 9


COUNTER = Counter()
_mods = {}


def module(d=0):
    """the declarations with class option max_depth=d (0: no limit)"""
    if d in _mods:
        return _mods[d]
    import utype
    if "c18leaf" in sys.modules:
        return _decl(d)
    leafmod = types.ModuleType("c18leaf")

    class Leaf:
        def __init__(self, v):
            self.v = v
    leafmod.Leaf = Leaf
    sys.modules["c18leaf"] = leafmod

    @utype.register_transformer(Leaf)
    def to_leaf(transformer, data, t):
        COUNTER.calls += 1
        if COUNTER.calls > COUNTER.budget:
            raise Abort()
        if data == "bad":
            raise ValueError("bad leaf")
        return Leaf(data)
    return _decl(d)


def _decl(d):
    from utype import Options
    name = "c18decl_%d" % d
    m = types.ModuleType(name)
    m.OPTS = Options(max_depth=d) if d else Options()
    sys.modules[name] = m
    # class names are unique per module: typing caches Optional['X'] / List['X'] aliases (and their ForwardRef objects)
    # process-wide, so equal names in two modules would share one reference object
    src = SRC
    for c in ("ND", "NO", "NL", "NM", "NT", "NU", "Other"):
        src = src.replace("'%s'" % c, "'%s_%d'" % (c, d)).replace("class %s(" % c, "class %s_%d(" % (c, d))
    exec(compile(src, name, "exec"), m.__dict__)
    for c in ("ND", "NO", "NL", "NM", "NT", "NU", "Other"):
        setattr(m, c, getattr(m, "%s_%d" % (c, d)))
    _mods[d] = m
    return m


POSITIONS = {  # class -> list of (position name, wrap(child) -> value of nxt, falsy route?)
    "ND": [("direct", lambda c: c, False)],
    "NO": [("optional", lambda c: c, False)],
    "NL": [("list[0]", lambda c: [c], True), ("list[1]", lambda c: [{}, c], False)],
    "NM": [("dict['']", lambda c: {"": c}, True), ("dict['k']", lambda c: {"k": c}, False)],
    "NT": [("tuple[0]", lambda c: (c,), True), ("tuple[1]", lambda c: ({}, c), False)],
    "NU": [("union", lambda c: c, False)],
}


def chain(cls, pos, n, leaf="ok", as_bytes=None):
    """input with data-class nesting depth n through position `pos`; also the projected tree.  as_bytes = k: the object at
    level k (counted from the innermost one) is handed over as its JSON text in bytes (same meaning, same depth)"""
    name, wrap, falsy = pos
    node = {"leaf": leaf} if leaf is not None else {}      # leaf None: the innermost object is empty (all defaults)
    tree = {"cls": True, "cyc": False, "falsy": falsy, "kids": []}
    for lvl in range(n - 1):
        if as_bytes == lvl:
            node = json.dumps(node).encode()
        w = wrap(node)
        kids = [tree]
        if isinstance(w, (list, tuple)) and len(w) == 2:
            kids = [{"cls": True, "cyc": False, "falsy": True, "kids": []}, tree]
        node = {"leaf": "ok", "nxt": w}
        tree = {"cls": True, "cyc": False, "falsy": falsy, "kids": kids}
    tree["falsy"] = False      # the top level is reached without a route
    return node, tree


def tree_size(t):
    return 1 + sum(tree_size(k) for k in t["kids"])


def tree_depth(t):
    return (1 if t["cls"] else 0) + max([tree_depth(k) for k in t["kids"]] or [0])


def run(cls, data, d, budget):
    COUNTER.calls, COUNTER.budget = 0, budget
    try:
        cls.__from__(data)
        return True, COUNTER.calls, "none"
    except Abort:
        return False, COUNTER.calls, "BUDGET"
    except RecursionError:
        return False, COUNTER.calls, "RecursionError"
    except Exception as e:
        return False, COUNTER.calls, type(e).__name__


def bound(size, depth):
    return 8 * size * (depth + 1) * (depth + 1) + 64


def main():
    ck = Check("C18")
    thorough = ck.tier == "thorough"
    rng = random.Random(ck.seed)
    mc = tlc.run("MC_Depth", "MC_Depth_fixed.cfg")
    ck.mc(mc, "MC fixed")
    if mc.invariant_violated:
        ck.note("model-level counterexample: Variant=fixed violates P_Exact")
        ck.count("model_only_counterexamples")
    mo = tlc.run("MC_Depth", "MC_Depth_orig.cfg")
    if not mo.invariant_violated:
        raise MachineryError("P_Exact not falsified on Variant=orig")
    ck.count("orig_variant_refuted_by_TLC")
    module(0)
    records, n = [], 0
    blown = set()
    ctx_recs = []

    def add(kind, clsname, posname, data, tree, d, leafkind, budget=10 ** 7):
        nonlocal n
        n += 1
        size, depth = tree_size(tree), (tree_depth(tree) if not any_cyc(tree) else 999)
        if kind == "cost" and (clsname, leafkind) in blown:
            return          # this series already exceeded the bound at a smaller depth
        ok, work, exc = run(getattr(module(d), clsname), data, d, min(budget, bound(size, min(depth, 40)) + 1))
        if kind.startswith("exact") and depth <= 6 and len(ctx_recs) < 400:
            # the same parse once more under the context tracer: every RuntimeContext created, with its parent, route and depth
            COUNTER.calls, COUNTER.budget = 0, 10 ** 7
            ctx = looptrace.observe_contexts(lambda: getattr(module(d), clsname).__from__(data))
            if ctx:
                ctx_recs.append({"id": "c18-%d" % n, "ctx": ctx})
        if kind == "cost" and (exc == "BUDGET" or work > bound(size, depth)):
            blown.add((clsname, leafkind))
        records.append({"id": "c18-%d" % n, "kind": kind, "cls": clsname, "pos": posname, "tree": tree, "d": d, "ok": ok, "work": work,
                        "exc": exc, "size": size, "depth": min(depth, 999), "leaf": leafkind, "judge_exact": leafkind == "ok"})

    def any_cyc(t):
        return t["cyc"] or any(any_cyc(k) for k in t["kids"])

    # ---- exactness: depth d-1, d, d+1 at every position --------------------------------------------------------------
    for clsname, poss in POSITIONS.items():
        for pos in poss:
            for d in ((1, 2, 3, 4, 5, 6, 7, 8, 12) if thorough else (1, 2, 3, 4)):
                for depth in (d - 1, d, d + 1, d + 3):
                    if depth < 1:
                        continue
                    data, tree = chain(clsname, pos, depth)
                    add("exact", clsname, pos[0], data, tree, d, "ok")
                    data, tree = chain(clsname, pos, depth, leaf=None)
                    add("exact-empty", clsname, pos[0], data, tree, d, "ok")
                    if depth >= 2:
                        try:
                            data, tree = chain(clsname, pos, depth, as_bytes=rng.randrange(depth - 1))
                        except TypeError:
                            continue        # this position wraps its value in something JSON cannot carry
                        add("exact-bytes", clsname, pos[0], data, tree, d, "ok")
            for depth in (1, 3, 6):
                data, tree = chain(clsname, pos, depth)
                add("exact", clsname, pos[0], data, tree, 0, "ok")
    # mixed positions inside one input (random trees over NL / NM)
    for _ in range(4000 if thorough else 60):
        clsname = rng.choice(["NL", "NM", "NT"])
        depth = rng.randint(1, 8 if thorough else 5)
        pos = rng.choice(POSITIONS[clsname])
        data, tree = chain(clsname, pos, depth)
        # graft a second, shallower branch next to the deep one at the top level
        other_pos = rng.choice(POSITIONS[clsname])
        side, stree = chain(clsname, other_pos, rng.randint(1, depth))
        if clsname == "NL":
            data["nxt"] = list(data.get("nxt", [])) + [side]
        elif clsname == "NT":
            data["nxt"] = tuple(data.get("nxt", ())) + (side,)
        else:
            data["nxt"] = dict(data.get("nxt", {}), side=side)
        stree = dict(stree, falsy=False if (clsname == "NM" or data["nxt"] and len(data["nxt"]) > 1) else True)
        if clsname in ("NL", "NT") and len(data["nxt"]) == 1:
            stree["falsy"] = True
        tree = dict(tree, kids=tree["kids"] + [stree])
        add("exact-tree", clsname, pos[0] + "+" + other_pos[0], data, tree, rng.randint(1, 9 if thorough else 5), "ok")
    # cyclic inputs: always rejected under a limit
    for clsname, poss in POSITIONS.items():
        for pos in poss:
            name, wrap, falsy = pos
            data = {"leaf": "ok"}
            w = wrap(data)
            data["nxt"] = w
            tree = {"cls": True, "cyc": False, "falsy": False, "kids": [{"cls": True, "cyc": True, "falsy": falsy, "kids": []}]}
            for d in (1, 3, 6):
                add("cyclic", clsname, name, data, tree, d, "ok")
    # ---- cost: chains of growing depth, valid and with one invalid leaf at the bottom -----------------------------------
    depths = list(range(1, 19)) if thorough else [1, 2, 4, 6, 8, 10, 12, 14, 16, 18]
    for clsname, poss in POSITIONS.items():
        for pos in poss[-1:]:
            for depth in depths:
                for leaf in ("ok", "bad"):
                    data, tree = chain(clsname, pos, depth, leaf=leaf)
                    add("cost", clsname, pos[0], data, tree, 0, leaf)
    if not ctx_recs:
        ck.note("step-level binding skipped: no RuntimeContext creation was observed (restructured code)")
    else:
        cres = tlc.judge("Trace_DepthSteps", "Trace_DepthSteps.cfg", ctx_recs, workers=4)
        nctx = sum(len(x["ctx"]) for x in ctx_recs)
        if cres.distinct != nctx:
            raise MachineryError("trace acceptance (context steps): TLC visited %d states, expected %d" % (cres.distinct, nctx))
        ck.mc(cres, "Trace context steps")
        ck.count("context_creations_validated_against_Depth_CtxDepth", nctx)
        if cres.tagged("DIV"):
            ck.count("context_step_divergences", len(cres.tagged("DIV")))
            ck.note("divergence: a context's depth is not one Depth!CtxDepth step from its parent's: %s" % cres.tagged("DIV")[:3])
    byid = {x["id"]: x for x in records}
    r = tlc.judge("Trace_Depth", "Trace_Depth.cfg", records, workers=8)
    ck.mc(r, "Trace")
    if r.distinct != len(records):
        raise MachineryError("trace acceptance: TLC visited %d states, expected %d" % (r.distinct, len(records)))
    ck.judged(len(records))
    for x in records:
        ck.keys.add("%s|%s|%s|d=%d|depth=%d|%s|%s" % (x["kind"], x["cls"], x["pos"], x["d"], x["depth"], x["leaf"], x["ok"]))
    for x in records[:3] + records[-3:]:
        ck.sample({k: x[k] for k in ("id", "kind", "cls", "pos", "d", "depth", "size", "leaf", "ok", "work", "exc")})
    for t in r.tagged("VIOL"):
        x = byid[t[1]]
        if t[2] == "Cost":
            key = "C18|Cost|%s|%s-leaf" % ("union" if x["cls"] in ("NO", "NU") else "plain", "invalid" if x["leaf"] == "bad" else "valid")
        else:
            key = "C18|%s|%s|%s" % (t[2], x["pos"], "accepted-too-deep" if x["ok"] else "rejected-within-limit")
        ck.violation(key, t[2], {k: v for k, v in x.items() if k != "tree"})
    dv = r.tagged("DIV")
    if dv:
        ck.count("divergences", len(dv))
        ck.note("divergence: M (Depth.tla, Variant=fixed) predicts a different verdict for %d inputs, e.g. %s at %s d=%d depth=%d" % (
            len(dv), byid[dv[0][1]]["cls"], byid[dv[0][1]]["pos"], byid[dv[0][1]]["d"], byid[dv[0][1]]["depth"]))
    ck.exhaustive = True
    ck.rule = ("inputs = for each of 6 recursive declarations and each position kind (list index 0/1, mapping key ''/'k', tuple position "
               "0/1, Optional, union of two classes, direct): depth d-1, d, d+1, d+3 for d in 1..4 and no limit; random two-branch trees; "
               "cyclic inputs; chains of depth up to 18 valid / with one invalid leaf under the work budget Bound(size, depth) = "
               "8*size*(depth+1)^2 + 64; distinct_nontrivial = distinct (kind, class, position, limit, depth, leaf, verdict)")
    ck.trusted = ["TLC 1.8", "the counting leaf converter registered by the harness as the work measure", "the projection of the input tree"]
    ck.assumptions = ["'polynomial' is decided against the fixed bound up to depth 18, not asymptotically"]
    return ck.finish()


def replay(path):
    d = json.load(open(path))
    print(json.dumps(d["record"])[:600])
    return main()
