"""C15 -- types built from a JSON Schema never crash nor emit what the schema forbids.

Schemas are composed from the supported keywords (type, format, numeric / length / pattern / enum / const keywords,
items / prefixItems, properties / required / additionalProperties / dependentRequired, min/maxProperties,
anyOf / oneOf / allOf), nested to bounded depth, with and without an explicit type, with property names that are keywords,
non-identifiers, mapping-method names or collide after sanitising.  For every schema: building the type must succeed
(P_Builds); every JSON instance is converted under strict options (no_explicit_cast, no_data_loss) and every value the type
returns must validate against the source schema (JsonSchema!Val evaluated by TLC: P_Sound).
"""
import json
import random

from .. import tlc
from ..core import Check, MachineryError, Timeout, watchdog
from ..jsonv import jv, regex_facts, has_big

PROP_NAMES = ["a", "b", "name", "class", "def", "a-b", "a_b", "1x", "@p", "items", "keys", "update", "get", "values", "pop", "copy", "x y", "A", "a.b", "type", "self",
              "class_value", "def_value"]      # what a keyword-named property is renamed to
INSTANCES = [None, True, False, 0, 1, 2, 3, 4, 5, 10, -1, -2, -5, 1.5, 2.5, 0.5, 3.0, -0.5, 1.25, "", "a", "ab", "abc", "abcd", "1", "2022-03-04", "x1", "A",
             [], [1], [1, 2], [1, "a"], ["a"], [1, 1], [1, 2, 3], [[1]], [None], [1.5],
             {}, {"a": 1}, {"a": "x"}, {"a": 1, "b": 2}, {"b": 2}, {"a": 1, "zz": 3}, {"a": [1]}, {"a": {"b": 1}}, {"name": "n", "class": 1}, {"class": 1, "class_value": "s"}, {"class_value": "s"}, {"class": 1},
             {"items": 1}, {"a-b": 1, "a_b": 2}, {"keys": "k", "update": 1}, {"1x": 1, "@p": 2}, {"a": None}, {"a": 1.5}, {"x y": 1, "A": 2}]


def leaf(rng, typed=True):
    """a typed leaf schema of the core fragment (the categories in which the translator is known to be unsound are kept
    out of the random space and represented by the WITNESS schemas below)"""
    t = rng.choice(["integer", "number", "string", "boolean", "null", "array", "object"])
    s = {"type": t}
    if t in ("integer", "number"):
        lo = rng.choice([None, 0, 1, -2])
        hi = rng.choice([None, 3, 10])
        if lo is not None:
            s[rng.choice(["minimum", "exclusiveMinimum"])] = lo
        if hi is not None:
            s[rng.choice(["maximum", "exclusiveMaximum"])] = hi
        if rng.random() < 0.3:
            s["multipleOf"] = rng.choice([2, 3] if t == "integer" else [2, 0.5])
        if rng.random() < 0.12:
            return {"type": t, "enum": [1, 2] if rng.random() < 0.5 else [2, 3, 5]}
        if rng.random() < 0.08:
            return {"type": t, "const": rng.choice([1, 2, 0])}
    elif t == "string":
        lo = rng.choice([None, 1, 2])
        hi = rng.choice([None, 1, 3])
        if lo is not None:
            s["minLength"] = lo
        if hi is not None and (lo is None or hi >= lo + 1):
            s["maxLength"] = hi
        if rng.random() < 0.3:
            s["pattern"] = rng.choice(["^a", "b$", "^[0-9]+$"])
        if rng.random() < 0.12:
            return {"type": t, "enum": ["a", "b"]}
        if rng.random() < 0.08:
            return {"type": t, "const": rng.choice(["a", ""])}
    elif t == "array":
        if rng.random() < 0.3:
            s["minItems"] = rng.choice([1, 2])
        if rng.random() < 0.3:
            s["maxItems"] = rng.choice([2, 3])
        if rng.random() < 0.2:
            s["uniqueItems"] = True
    return s


def gen_schema(rng, depth, typed=None):
    if depth == 0:
        return leaf(rng)
    r = rng.random()
    if r < 0.25:
        return leaf(rng)
    if r < 0.45:
        s = {"type": "array"}
        k = rng.random()
        if k < 0.6:
            s["items"] = gen_schema(rng, depth - 1)
        if k > 0.4:
            s["prefixItems"] = [gen_schema(rng, depth - 1) for _ in range(rng.randint(1, 2))]
        if rng.random() < 0.25:
            s["minItems"] = rng.choice([1, 2])
        if rng.random() < 0.25:
            s["maxItems"] = rng.choice([2, 3])
        if rng.random() < 0.15:
            s["uniqueItems"] = True
        return s
    if r < 0.8:
        s = {"type": "object"}
        names = rng.sample(PROP_NAMES, rng.randint(1, 3))
        s["properties"] = {n: gen_schema(rng, depth - 1) for n in names}
        if rng.random() < 0.6:
            s["required"] = rng.sample(names, rng.randint(1, len(names)))
        ap = rng.random()
        if ap < 0.6:
            s["additionalProperties"] = rng.choice([True, False, {"type": "integer"}, {"type": "string", "minLength": 1}])
        if rng.random() < 0.2 and len(names) > 1:
            s["dependentRequired"] = {names[0]: [names[1]]}
        if "additionalProperties" in s and rng.random() < 0.25:
            s["maxProperties"] = rng.choice([2, 3])
        if s.get("additionalProperties") not in (None, False) and rng.random() < 0.2:
            s["minProperties"] = 1
        return s
    return {"anyOf": [gen_schema(rng, depth - 1) for _ in range(rng.randint(2, 3))]}


FIXED = [
    {"type": "integer", "maximum": 0}, {"type": "integer", "minimum": 0}, {"type": "number", "exclusiveMinimum": 0}, {"const": 0}, {"const": False}, {"const": ""},
    {"minimum": 1}, {"maximum": 3}, {"enum": [1, 2]}, {"const": 1}, {"type": ["integer", "string"]}, {"type": ["integer", "null"], "minimum": 1},
    {"allOf": [{"type": "integer"}, {"minimum": 3}]}, {"oneOf": [{"type": "integer"}, {"type": "number", "minimum": 0}]}, {"anyOf": [{"type": "string"}, {"minimum": 2}]},
    {"type": "object", "properties": {"items": {"type": "integer"}}}, {"type": "object", "properties": {"class": {"type": "integer"}, "content-type": {"type": "string"}}, "required": ["class", "content-type"]},
    {"type": "object", "properties": {"a-b": {"type": "integer"}, "a_b": {"type": "string"}}}, {"type": "object", "properties": {"keys": {"type": "string"}, "update": {"type": "integer"}}, "required": ["keys"]},
    {"type": "object", "properties": {"a": {"type": "integer"}}, "additionalProperties": False}, {"type": "object", "properties": {"a": {"type": "integer"}}, "required": ["a"], "additionalProperties": {"type": "integer"}},
    {"type": "array", "items": {"type": "integer", "maximum": 0}}, {"type": "array", "prefixItems": [{"type": "integer"}, {"type": "string"}]}, {"type": "array", "items": {"type": "object", "properties": {"a": {"const": 0}}, "required": ["a"]}},
    {"type": "string", "maxLength": 0}, {"type": "integer", "minimum": 1, "maximum": 1}, {"type": "object", "minProperties": 1, "maxProperties": 1}, {"type": "object", "dependentRequired": {"a": ["b"]}},
    {"type": "string", "format": "date"}, {"type": "string", "pattern": "^a"}, {}, {"type": "null"}, {"type": "boolean"},
    # witnesses of the categories recorded as known findings (kept out of the random space)
    {"type": "integer", "const": 1, "multipleOf": 3}, {"type": "null", "enum": [0, False]}, {"allOf": [{"const": False}, {"type": "number"}]},
    {"type": "object", "properties": {"b": {"type": "object"}}, "minProperties": 1}, {"type": "object", "required": ["a"]},
    {"type": "boolean", "enum": [1, "a", None]}, {"allOf": [{"type": "boolean"}, {"type": "integer", "maximum": 0}]},
    {"allOf": [{"type": "object", "properties": {"name": {}}, "required": ["name"], "additionalProperties": {}}, {"type": "object", "properties": {"copy": {"type": "boolean"}}}]},
    {"type": "object", "properties": {"class": {"type": "integer"}, "class_value": {"type": "string"}}},
    {"type": "object", "properties": {"class_value": {"type": "string"}, "class": {"type": "integer"}}, "required": ["class_value"]},
    {"type": "integer", "anyOf": [{"minimum": 5}, {"maximum": 0}]}, {"type": "integer", "allOf": [{"minimum": 5}]}, {"type": "number", "format": "date-time"},
]


def keyword_grid():
    """every numeric / length / count keyword of the fragment x two bounds; all INSTANCES (which hold bound - 1, bound, bound + 1 for
    each of them) are run against every schema of the grid"""
    out = []
    for t in ("integer", "number"):
        for kw in ("minimum", "exclusiveMinimum", "maximum", "exclusiveMaximum"):
            for b in (0, 2):
                out.append({"type": t, kw: b})
        out.append({"type": t, "minimum": 1, "exclusiveMaximum": 3})
        out.append({"type": t, "exclusiveMinimum": 1, "maximum": 3})
        out.append({"type": t, "multipleOf": 2})
    out.append({"type": "number", "multipleOf": 0.5})
    for kw in ("minLength", "maxLength"):
        for b in (1, 2, 3):
            out.append({"type": "string", kw: b})
    out.append({"type": "string", "minLength": 2, "maxLength": 3})
    for kw in ("minItems", "maxItems"):
        for b in (1, 2):
            out.append({"type": "array", kw: b})
            out.append({"type": "array", "items": {"type": "integer"}, kw: b})
    out.append({"type": "array", "uniqueItems": True})
    out.append({"type": "array", "items": {"type": "integer"}, "uniqueItems": True, "maxItems": 2})
    for kw in ("minProperties", "maxProperties"):
        for b in (1, 2):
            out.append({"type": "object", "properties": {"a": {"type": "integer"}}, "additionalProperties": True, kw: b})
    out.append({"type": "object", "properties": {"a": {"type": "integer"}, "b": {"type": "integer"}}, "required": ["a"], "additionalProperties": False})
    out.append({"type": "object", "properties": {"a": {"type": "integer"}, "b": {"type": "integer"}}, "dependentRequired": {"b": ["a"]}})
    return out


def to_json(x):
    from utype import JSONEncoder
    return json.loads(json.dumps(x, cls=JSONEncoder))


def object_universe(ck):
    """MC_SchemaTrans: parse_object as transcribed composed with the lookup loop as transcribed (DataLoops!Run), judged by the TLA+ validator
    over every object schema of the fragment x every instance; the universe is exported by TLC, every schema is built by the real
    JsonSchemaParser and run on every instance under strict options, judged by TLC and compared with the model"""
    import os
    import shutil
    from utype import Options, type_transform
    from utype.specs.json_schema.parser import JsonSchemaParser
    mc = tlc.run("MC_SchemaTrans", "MC_SchemaTrans.cfg")
    ck.mc(mc, "MC translator + loop")
    if mc.invariant_violated:
        ck.count("model_only_counterexamples")
        ck.note("model-level counterexample: translator and lookup loop as transcribed violate %s" % mc.invariant_violated)
    wit = tlc.run("MC_SchemaTrans", "MC_SchemaTrans_witness.cfg", workers=1, extra=("-continue",))
    missing = [w for w in ("W_Accepts", "W_RejectsRequired", "W_RejectsExtra", "W_RejectsDependent") if "Invariant %s is violated" % w not in wit.output]
    if missing:
        raise MachineryError("vacuity: %s unreachable in MC_SchemaTrans" % missing)
    d = tlc.scratch("st-")
    try:
        out = os.path.join(d, "cases.ndjson")
        tlc.run("Export_SchemaTrans", "Export_SchemaTrans.cfg", env={"OUT_CASES": out}, workers=1)
        rows = [json.loads(l) for l in open(out) if l.strip()]
    finally:
        shutil.rmtree(d, ignore_errors=True)
    if sum(len(r["insts"]) for r in rows) != mc.distinct:
        raise MachineryError("exported universe is not the one TLC explored (%d states)" % mc.distinct)
    strict = Options(no_explicit_cast=True, no_data_loss=True)
    recs = []
    for si, r in enumerate(rows):
        s = r["s"]
        sch = {"type": "object", "properties": {p: {"type": "integer"} for p in s["props"]}}
        if s["required"]:
            sch["required"] = list(s["required"])
        if s["addl"] != "absent":
            sch["additionalProperties"] = {"true": True, "false": False, "schema": {"type": "integer"}}[s["addl"]]
        if s["dep"]:
            sch["dependentRequired"] = {a: [b] for a, b in s["dep"]}
        T = JsonSchemaParser(sch)()
        for ii, inst in enumerate(r["insts"]):
            j = {e["k"]: (e["v"]["n"] if e["v"]["k"] == "int" else e["v"]["s"]) for e in inst}
            try:
                v = type_transform(j, T, options=strict)
                ok, outj = True, to_json(v)
            except Exception:
                ok, outj = False, None
            recs.append({"id": "t%d-%d" % (si, ii), "s": s, "inst": inst, "ok": ok, "v": jv(outj), "src": json.dumps(sch), "jin": j, "jout": outj})
    res = tlc.judge("Trace_SchemaTrans", "Trace_SchemaTrans.cfg", [{k: v for k, v in x.items() if k not in ("src", "jin", "jout")} for x in recs], workers=8)
    ck.mc(res, "Trace translator universe")
    if res.distinct != len(recs):
        raise MachineryError("trace acceptance (translator universe): TLC visited %d states, expected %d" % (res.distinct, len(recs)))
    ck.judged(len(recs))
    ck.count("universe_cases_replayed_into_code", len(recs))
    byid = {x["id"]: x for x in recs}
    for t in res.tagged("VIOL"):
        x = byid[t[1]]
        ck.violation("C15|Sound|object-universe|%s" % x["src"][:120], "Sound", x)
    dv = res.tagged("DIV")
    if dv:
        ck.count("divergences", len(dv))
        for t in dv[:5]:
            x = byid[t[1]]
            ck.note("divergence: translator + loop as transcribed differ from the built type on %s with %s -> %s" % (x["src"][:140], x["jin"], x["jout"] if x["ok"] else "rejected"))


def main():
    ck = Check("C15")
    thorough = ck.tier == "thorough"
    rng = random.Random(ck.seed)
    from utype import Options, type_transform
    from utype.specs.json_schema.parser import JsonSchemaParser
    FIXED.extend(g for g in keyword_grid() if g not in FIXED)
    schemas = list(FIXED) + [gen_schema(rng, rng.choice([1, 2, 2, 3])) for _ in range(6000 if thorough else 900)]
    records, n = [], 0
    strict = Options(no_explicit_cast=True, no_data_loss=True)
    for s in schemas:
        n += 1
        rid = "c15-%d" % n
        base = {"id": rid, "kind": "build", "schema": jv(s), "v": jv(None), "pm": [], "built": True, "exc": "", "src": json.dumps(s)[:300], "inst": "", "sobj": s}
        try:
            with watchdog(3.0):
                T = JsonSchemaParser(s)()
        except Timeout:
            records.append(dict(base, built=False, exc="TIMEOUT"))
            continue
        except Exception as e:
            records.append(dict(base, built=False, exc=type(e).__name__ + ": " + str(e)[:80]))
            continue
        records.append(base)
        insts = INSTANCES if (thorough or any(s is f for f in FIXED)) else rng.sample(INSTANCES, 22)
        for j in insts:
            try:
                with watchdog(3.0):
                    v = type_transform(j, T, options=strict)
                out = to_json(v)
            except Timeout:
                continue
            except Exception:
                ck.count("rejected_or_not_encodable")
                continue
            n += 1
            rec = {"id": "c15-%d" % n, "kind": "value", "schema": jv(s), "v": jv(out), "pm": regex_facts(s, out), "built": True, "exc": "",
                   "src": json.dumps(s)[:300], "inst": json.dumps(j)[:80] + " -> " + json.dumps(out)[:80], "sobj": s, "jin": j, "jout": out}
            if has_big(rec["v"]) or has_big(rec["schema"]):
                continue
            records.append(rec)
    object_universe(ck)
    byid = {r["id"]: r for r in records}
    res = tlc.judge("Trace_SchemaParse", "Trace_SchemaParse.cfg", [{k: v for k, v in r.items() if k not in ("src", "inst", "sobj", "jin", "jout")} for r in records], workers=16)
    ck.mc(res, "Trace")
    if res.distinct != len(records):
        raise MachineryError("trace acceptance: TLC visited %d states, expected %d" % (res.distinct, len(records)))
    ck.judged(len(records))
    for r in records:
        ck.keys.add("%s|%s" % (r["kind"], r["src"]) if r["kind"] == "build" else "value|%s|%s" % (r["src"], r["inst"]))
    ck.count("schemas", len(schemas))
    ck.count("accepted_values_judged", sum(1 for r in records if r["kind"] == "value"))
    for r in records[:2] + [x for x in records if x["kind"] == "value"][:2] + records[-1:]:
        ck.sample({"id": r["id"], "kind": r["kind"], "schema": r["src"], "built": r["built"], "instance -> returned": r["inst"]})
    for t in res.tagged("VIOL"):
        r = byid[t[1]]
        ck.violation(scenario_key(r, t[2]), t[2], r)
    ck.rule = ("schemas = 46 fixed + a grid of every numeric / length / count keyword x two bounds (all instances, which hold bound - 1, bound, "
               "bound + 1) + random compositions (depth 1-3) of the supported keywords, typed and untyped, with 21 property names incl. "
               "Python keywords, non-identifiers, mapping-method names and names colliding after sanitising; instances = 50 JSON values (22 sampled per "
               "schema in the quick tier) converted under no_explicit_cast + no_data_loss; distinct_nontrivial = distinct schemas built and distinct "
               "(schema, instance -> returned value) pairs judged")
    ck.trusted = ["TLC 1.8", "harness/jsonv.py", "spec/JsonSchema.tla (cross-checked against the jsonschema package)", "the library's JSONEncoder to "
                  "turn a returned value back into JSON"]
    ck.assumptions = ["only values the built type returns are judged (rejecting a valid instance is not a violation of this property)"]
    return ck.finish()


def keywords(s, acc=None):
    acc = set() if acc is None else acc
    if isinstance(s, dict):
        for k, v in s.items():
            acc.add(k)
            if k in ("properties", "dependentRequired"):
                if isinstance(v, dict):
                    for vv in v.values():
                        keywords(vv, acc)
            else:
                keywords(v, acc)
    elif isinstance(s, list):
        for v in s:
            keywords(v, acc)
    return acc


def scenario_key(r, clause):
    """abstract key of a violation: the clause and the cause class computed from the schema"""
    s = r["sobj"]
    if clause == "Builds":
        return "C15|Builds|%s" % r["exc"].split(":")[0] + "|" + cause_of_build(s, r["exc"])
    cause = cause_of_unsound(s)
    if cause == "typed-schema" and lost_method_named_key(r.get("jin"), r.get("jout")) and any("minProperties" in x for x in walk(s) if isinstance(x, dict)):
        cause = "minProperties-with-method-named-key-dropped"
    return "C15|Sound|" + cause


SCHEMA_METHODS = {"update", "pop", "copy", "clear", "setdefault", "popitem"}


def lost_method_named_key(jin, jout):
    """an additional key named like a method the Schema class defines is never kept (BaseParser.exclude_vars), whatever additionalProperties says"""
    if isinstance(jin, dict) and isinstance(jout, dict):
        if any(k in SCHEMA_METHODS and k not in jout for k in jin):
            return True
        return any(lost_method_named_key(v, jout.get(k)) for k, v in jin.items())
    if isinstance(jin, list) and isinstance(jout, list):
        return any(lost_method_named_key(a, b) for a, b in zip(jin, jout))
    return False


def has_untyped_constraint(s):
    if isinstance(s, dict):
        cons = {"minimum", "maximum", "exclusiveMinimum", "exclusiveMaximum", "multipleOf", "minLength", "maxLength", "pattern", "minItems", "maxItems",
                "uniqueItems", "items", "prefixItems", "properties", "required", "additionalProperties", "minProperties", "maxProperties", "dependentRequired"}
        if "type" not in s and (cons & set(s)):
            return True
        return any(has_untyped_constraint(v) for k, v in s.items() if k not in ("enum", "const"))
    if isinstance(s, list):
        return any(has_untyped_constraint(v) for v in s)
    return False


def degenerate_bounds(s):
    """a length / count bound of 0, or a lower bound equal to its upper bound, somewhere in the schema (what the library's Rule refuses)"""
    for x in walk(s):
        if not isinstance(x, dict):
            continue
        if any(x.get(k) == 0 and not isinstance(x.get(k), bool) for k in ("maxLength", "maxItems", "maxProperties")):
            return True
        for lo, hi in (("minLength", "maxLength"), ("minItems", "maxItems"), ("minProperties", "maxProperties"), ("minimum", "maximum")):
            if lo in x and hi in x and x[lo] == x[hi]:
                return True
    return False


def cause_of_build(s, exc):
    kws = keywords(s)
    if "enum" in kws or "const" in kws:
        if "TypeError" in exc:
            return "enum-or-const"
    if "ConfigError" in exc and degenerate_bounds(s):
        return "zero-or-coinciding-bounds"
    return "other"


def walk(s):
    if isinstance(s, dict):
        yield s
        for k, v in s.items():
            if k in ("properties", "patternProperties", "dependentRequired") and isinstance(v, dict):
                for vv in v.values():
                    yield from walk(vv)
            elif k not in ("enum", "const", "default"):
                yield from walk(v)
    elif isinstance(s, list):
        for v in s:
            yield from walk(v)


CONSTRAINT_KWS = {"minimum", "maximum", "exclusiveMinimum", "exclusiveMaximum", "multipleOf", "minLength", "maxLength", "pattern", "minItems", "maxItems",
                  "uniqueItems", "minProperties", "maxProperties"}


def cause_of_unsound(s):
    """primary cause class of an unsound built type, computed from the schema alone (finite)"""
    subs = [x for x in walk(s) if isinstance(x, dict)]
    if any("type" in x and any(k in x for k in ("anyOf", "allOf", "oneOf")) for x in subs):
        return "combinator-beside-type"
    if any(x.get("type") in ("integer", "number", "boolean") and "format" in x for x in subs):
        return "format-of-another-type"
    if has_untyped_constraint(s):
        return "untyped-constraint"
    if any(("const" in x or "enum" in x) and (CONSTRAINT_KWS & set(x)) for x in subs):
        return "const-or-enum-with-other-constraints"
    if any(x.get("type") == "null" and ("enum" in x or "const" in x) for x in subs):
        return "const-or-enum-on-null-type"
    if any(("const" in x or "enum" in x) and "type" not in x for x in subs) and any(k in x for x in subs for k in ("allOf", "anyOf", "oneOf")):
        return "untyped-const-or-enum-inside-combinator"
    if any(x.get("type") == "boolean" and "enum" in x or x.get("type") in ("integer", "number") and any(isinstance(v, bool) for v in x.get("enum", [])) for x in subs):
        return "enum-compared-with-python-equality"
    if any("allOf" in x and sum(1 for y in x["allOf"] if isinstance(y, dict) and y.get("type") == "object") >= 2 for x in subs):
        return "allOf-of-objects"
    if any("allOf" in x and len({y.get("type") for y in x["allOf"] if isinstance(y, dict)} - {None}) >= 2 for x in subs):
        return "allOf-of-different-types"
    if any("oneOf" in x for x in subs):
        return "oneOf"
    if any(x.get("properties") and "additionalProperties" not in x and "minProperties" in x for x in subs):
        return "minProperties-with-unknown-keys-dropped"
    if any("dependentRequired" in x and not x.get("properties") for x in subs):
        return "dependentRequired-without-properties"
    if any(x.get("type") == "object" and not x.get("properties") and ("required" in x or "additionalProperties" in x) for x in subs):
        return "object-keywords-without-properties"
    return "typed-schema"


def replay(path):
    d = json.load(open(path))
    r = d["record"]
    print(r["src"], "|", r["inst"], "|", r["exc"])
    return main()
