"""C03 -- parsing is idempotent; lax constraints converge in one step.

Every case is a double parse on the real type: v1 = T(x), v2 = T(v1).  TLC (Trace_Idem) judges
  P_Idempotent: ok1 => ok2 and v2 == v1 (same kind);  P_LaxStrict: on exact domains the output of a lax
  constraint satisfies its strict form (Values!SatDoc);
and checks the lax validators as transcribed in Constraints.tla (M) for the fixed-point property on every
well-typed grid point, and M's output against the code's.
Cases: the lax grid (every lax constraint x bounds x boundary values incl. values needing two roundings,
truncation, enum fallback, ==-duplicates), logical combinations (|, ^, &, ~ over builtin / constrained / untyped
enum leaves in every order) and data classes x a pool of inputs of all kinds.
"""
import decimal
import itertools
import json
import random

from .. import tlc
from .. import gen
from ..alpha import alpha, exc_names
from ..core import Check, MachineryError
from .c02 import make_rule, encode_case

D = decimal.Decimal
EXACT = {"int", "Decimal", "str", "bytes", "list", "tuple", "set"}
POOL = [0, 1, 5, 6, 7, 8, -3, 12, 100, True, False, None, 0.5, 1.0, 2.5, 6.0, -0.25, 1e16, D("1.5"), D("6"), D("2.345"), D("0.05"),
        "", "0", "6", "7", " 6 ", "6.0", "6.5", "abc", "sat", "true", "null", "1e3", "[1, 2]", "1,2", '{"a": 1}', b"6", b"ab",
        [], [1], ["1", 2], [1, 1], [[1], [1]], [1, "a"], (1, 2), (6,), {1, 2}, {"a": 1}, {"a": "1", "b": 2}, {"v": "3"}, [{"v": 1}],
        [6, 7], ["6"], {"k": [1]}, 1.5, "1.5", [1.5], "ab", "abcd", ["a", "b", "a"]]


def lax_grid():
    def L(c, v):
        return (c, v, True)
    for b in (0, 5, -2):
        yield "int", [L("ge", b)], range(b - 3, b + 4)
        yield "int", [L("le", b)], range(b - 3, b + 4)
    yield "int", [L("ge", 0), L("le", 5)], range(-3, 9)
    yield "int", [L("ge", 2.5)], range(0, 6)
    yield "float", [L("ge", 0.5)], [0.25, 0.5, 0.75, -1.0, 1e16]
    yield "float", [L("le", 0.5)], [0.25, 0.5, 0.75, -1.0, 1e16]
    yield "Decimal", [L("ge", D("1.5"))], [D("1.4"), D("1.5"), D("1.50"), D("2"), D("-3")]
    yield "Decimal", [L("le", D("1.5"))], [D("1.4"), D("1.5"), D("1.51"), D("2"), D("-3")]
    for m in (2, 3, 5):
        yield "int", [L("multiple_of", m)], range(-7, 13)
    yield "int", [L("multiple_of", 3), L("ge", 4)], range(-2, 12)
    yield "int", [L("multiple_of", 3), ("ge", 4, False)], range(-2, 12)
    yield "int", [("ge", 3, False), L("multiple_of", 4)], range(0, 14)
    for m in (0.5, 0.25, 2.0):
        yield "float", [L("multiple_of", m)], [k / 8 for k in range(-9, 18)]
    for m in (0.3, 0.1, 0.7):
        yield "float", [L("multiple_of", m)], [0.3, 0.6, 0.9, 1.0, 1.2, 2.0, 0.35, 5.0, 0.1, 0.7, 1.4]
    yield "Decimal", [L("multiple_of", 2)], [D(k) / D(2) for k in range(-5, 10)]
    strs = ["", "a", "ab", "abc", "abcd", "abcde"]
    for n in (1, 2, 3):
        yield "str", [L("max_length", n)], strs
        yield "str", [L("length", n)], strs
        yield "bytes", [L("max_length", n)], [s.encode() for s in strs]
        yield "list", [L("max_length", n)], [[], [1], [1, 2], [1, 2, 3], [1, 2, 3, 4]]
        yield "list", [L("length", n)], [[], [1], [1, 2], [1, 2, 3], [1, 2, 3, 4]]
        yield "tuple", [L("max_length", n)], [(), (1,), (1, 2), (1, 2, 3)]
        yield "int", [L("max_length", n)], [5, 55, 555]
    yield "str", [L("max_length", 2), ("min_length", 1, False)], strs
    decs = [D("1.5"), D("1.55"), D("1.555"), D("12.345"), D("123.456"), D("0.05"), D("0.005"), D("99.99"), D("9.999"), D("100"),
            D("1E+2"), D("0.996"), D("9.96"), D("-9.96"), D("12345"), D("0"),
            # a carry out of the last decimal place that leaves nothing to drop
            D("99.6"), D("9.5"), D("999.5"), D("-99.6"), D("99.96"), D("0.96")]
    for d in (1, 2, 3, 4):
        yield "Decimal", [L("max_digits", d)], decs
        yield "Decimal", [L("decimal_places", d)], decs
        yield "float", [L("decimal_places", d)], [1.5, 1.55, 1.555, 12.345, 0.05, 0.005, 2.675, 1.005, 99.99, 0.125]
        yield "float", [L("max_digits", d)], [1.5, 1.55, 12.345, 0.05, 99.99, 9.96, 0.996, 123.456, 99.6, 9.5, 999.5, -99.6, 99.96, 0.96, 9999.6]
    yield "Decimal", [L("max_digits", 3), L("decimal_places", 2)], decs
    yield "Decimal", [L("max_digits", 4), ("decimal_places", 2, False)], decs
    yield "int", [L("const", 1)], [0, 1, 2, -5]
    yield "str", [L("const", "a")], ["a", "b", ""]
    yield "int", [L("enum", [1, 2, 3])], [0, 1, 2, 3, 4]
    yield "str", [L("enum", ["a", "b"])], ["a", "b", "c"]
    seqs = [[], [1], [1, 2], [1, 1], [1, True], [1, 1.0], [[1], [1]], [[1], [2], [1]], ["a", "a"], ["a", "b", "a"], [1, 2, 3, 1],
            [{"a": 1}, {"a": 1}], [{1}, {1}], [None, None], [(1,), (1,)]]
    yield "list", [L("unique_items", True)], seqs
    yield "list", [L("unique_items", True), L("max_length", 2)], seqs
    yield "tuple", [L("unique_items", True)], [tuple(tuple(x) if isinstance(x, list) else x for x in s) for s in seqs
                                               if all(not isinstance(e, (dict, set)) for e in s)]


def leaves():
    intwd = gen.rule("int", [gen.con("ge", 1), gen.con("le", 7)])
    weekend = gen.rule("", [gen.con("enum", None, vals=[6, 7, "sat", "sun"])])
    weekend["cons"][0]["py"] = [6, 7, "sat", "sun"]
    pos = gen.rule("int", [gen.con("gt", 0)])
    short = gen.rule("str", [gen.con("max_length", 3)])
    laxshort = gen.rule("str", [gen.con("max_length", 2, lax=True)])
    even = gen.rule("int", [gen.con("multiple_of", 2)])
    lint = gen.rule("list", args=[gen.prim("int")])
    lstr = gen.rule("list", args=[short])
    dct = gen.rule("dict", args=[gen.prim("str"), gen.prim("int")])
    tup = gen.rule("tuple", args=[gen.prim("int"), gen.prim("str")])
    tupe = gen.rule("tuple", args=[gen.prim("int")], ell=True)
    sset = gen.rule("set", args=[gen.prim("int")])
    cls = gen.cls_desc("SV", [{"att": "v", "out": "v", "ty": gen.prim("int"), "req": True}])
    cls2 = gen.cls_desc("SW", [{"att": "v", "out": "v", "ty": pos, "req": False},
                               {"att": "w", "out": "W", "ty": short, "req": False}])
    return {"int": gen.prim("int"), "float": gen.prim("float"), "str": gen.prim("str"), "bool": gen.prim("bool"),
            "none": gen.prim("none"), "Decimal": gen.prim("Decimal"), "bytes": gen.prim("bytes"),
            "intwd": intwd, "weekend": weekend, "pos": pos, "short": short, "laxshort": laxshort, "even": even,
            "lint": lint, "lstr": lstr, "dct": dct, "tup": tup, "tupe": tupe, "sset": sset, "cls": cls, "cls2": cls2}


def logical_types(rng, thorough):
    lv = leaves()
    names = sorted(lv)
    out = [(n, lv[n]) for n in names]
    pairs = list(itertools.permutations(["int", "float", "str", "bool", "none", "intwd", "weekend", "pos", "short", "laxshort",
                                         "even", "lint", "cls", "Decimal"], 2))
    if not thorough:
        pairs = rng.sample(pairs, 70) + [("pos", "laxshort"), ("laxshort", "pos"), ("even", "laxshort"), ("intwd", "laxshort")]
    for a, b in pairs:
        out.append(("%s|%s" % (a, b), gen.logic("union", lv[a], lv[b])))
    xs = list(itertools.permutations(["int", "intwd", "weekend", "pos", "short", "even", "str", "float", "lint", "bool"], 2))
    if not thorough:
        xs = rng.sample(xs, 40)
    for a, b in xs:
        out.append(("%s^%s" % (a, b), gen.logic("xor", lv[a], lv[b])))
    for a, b in [("int", "pos"), ("pos", "even"), ("even", "pos"), ("int", "intwd"), ("str", "short"), ("float", "int"),
                 ("int", "float"), ("str", "laxshort"), ("laxshort", "short")]:
        out.append(("%s&%s" % (a, b), gen.logic("and", lv[a], lv[b])))
    for a, b in [("int", "pos"), ("intwd", "weekend"), ("str", "short"), ("float", "int")]:
        out.append(("%s&~%s" % (a, b), gen.logic("and", lv[a], gen.logic("not", lv[b]))))
    triples = [("int", "str", "none"), ("none", "str", "int"), ("float", "int", "str"), ("intwd", "weekend", "str"),
               ("weekend", "intwd", "short"), ("lint", "int", "str"), ("bool", "int", "str"), ("str", "bool", "int")]
    for t in triples:
        out.append(("|".join(t), gen.logic("union", *[lv[x] for x in t])))
        out.append(("^".join(t), gen.logic("xor", *[lv[x] for x in t])))
    # containers of logical types, optional fields
    out.append(("List[int|str]", gen.rule("list", args=[gen.logic("union", lv["int"], lv["str"])])))
    out.append(("List[intwd^weekend]", gen.rule("list", args=[gen.logic("xor", lv["intwd"], lv["weekend"])])))
    out.append(("Dict[str,int|none]", gen.rule("dict", args=[lv["str"], gen.logic("union", lv["int"], lv["none"])])))
    return out


def run(T, x, n, tag, opts=None):
    try:
        t = T.get("_built") or gen.build(T)
        T["_built"] = t
    except Exception as e:
        return None, "refused: %s" % type(e).__name__
    ok1, v1, ok2, v2, exc = True, None, False, None, []
    if opts is not None:
        # the same conversion preferences for both parses
        import utype as _u
        call = lambda v: _u.type_transform(v, t, options=_u.Options(**opts))      # noqa
    else:
        call = t
    try:
        v1 = call(x)
    except Exception as e:
        ok1, exc = False, exc_names(e)
    if ok1:
        try:
            v2 = call(v1)
            ok2 = True
        except Exception as e:
            exc = exc_names(e)
    Tc = {k: v for k, v in T.items() if k != "_built"}
    Tt = gen.strip(Tc)
    xr = alpha(x)
    r1 = alpha(v1) if ok1 else xr
    r2 = alpha(v2) if ok2 else r1
    exact = Tc["k"] == "rule" and Tc["name"] in EXACT
    # numeric kinds outside the exact universe: equality is judged on exact rationals by order encoding
    import fractions
    if Tc["k"] == "rule" and any(r["k"].endswith("x") or abs(r["n"]) > 30000 or r["d"] > 30000 for r in (xr, r1, r2)) and \
            all(isinstance(v, (int, float, D)) and not isinstance(v, bool) for v in (x, v1 if ok1 else x, v2 if ok2 else x)):
        enc = None
        vals = [x, v1 if ok1 else x, v2 if ok2 else (v1 if ok1 else x)] + [c["py"] for c in Tc["cons"] if c["c"] in ("ge", "le", "gt", "lt")]
        try:
            fr = [fractions.Fraction(v) for v in vals]
        except Exception:
            return None, "not encodable"
        rk = {f: i for i, f in enumerate(sorted(set(fr)))}
        fix = {"floatx": "float", "decx": "dec", "intx": "int"}
        xr = dict(xr, k=fix.get(xr["k"], xr["k"]), n=rk[fr[0]], d=1)
        r1 = dict(r1, k=fix.get(r1["k"], r1["k"]), n=rk[fr[1]], d=1)
        r2 = dict(r2, k=fix.get(r2["k"], r2["k"]), n=rk[fr[2]], d=1)
        j = 3
        for c, tc in zip(Tc["cons"], Tt["cons"]):
            if c["c"] in ("ge", "le", "gt", "lt"):
                tc["n"], tc["d"] = rk[fr[j]], 1
                j += 1
        for c in Tc["cons"]:
            if c["c"] in ("multiple_of",):
                exact = False          # order encoding keeps comparisons only
        welltyped = False
    else:
        welltyped = Tc["k"] == "rule" and Tc["name"] in gen.PRIMS and type(x) is gen.PRIMS[Tc["name"]] and \
            not any(r["k"].endswith("x") for r in (xr, r1, r2))
        if any(r["k"].endswith("x") for r in (r1, r2)):
            return None, "outside the exact universe"
    late = False
    import utype
    if Tc["k"] == "xor" and ok1:
        raw, outp = [], []
        for a in Tc["args"]:
            at = a.get("_built") or gen.build(a)
            a["_built"] = at
            for val, acc in ((x, raw), (v1, outp)):
                try:
                    # how the combinator applies an argument (float([1]) itself would raise), under the same preferences
                    utype.type_transform(val, at, **({"options": utype.Options(**opts)} if opts else {}))
                    acc.append(True)
                except Exception:
                    acc.append(False)
        first = min([i for i, a in enumerate(raw) if a] or [99])
        late = any((not raw[i]) and outp[i] and i < first for i in range(len(raw)))
    def _nd(v):
        d = fractions.Fraction(str(v)).denominator
        return (d & (d - 1)) != 0
    nondy = any(c["c"] == "multiple_of" and isinstance(c["py"], float) and _nd(c["py"]) for c in Tc["cons"])
    return {"id": "c03-%d" % n, "late": late, "nondyadic": nondy, "tag": tag, "T": Tt, "x": xr, "ok1": ok1, "v1": r1, "ok2": ok2, "v2": r2, "exact": exact,
            "welltyped": welltyped, "exc": exc, "repr": repr(x)[:50], "r1": repr(v1)[:50], "r2": repr(v2)[:50]}, None


def key_of(rec, clause):
    T = rec["T"]
    if clause and T["k"] == "xor" and rec.get("late"):
        # an argument that rejects the raw input accepts the converted output of a later argument
        return "C03|%s|xor|late-acceptor" % clause
    if clause and T["k"] == "rule":
        names = {("lax_" if c["lax"] else "") + c["c"] for c in T["cons"]}
        if "lax_multiple_of" in names and names & {"gt", "ge", "lt", "le", "lax_ge", "lax_le"}:
            return "C03|%s|lax_multiple_of-with-bound" % clause
        if T["name"] == "float" and names == {"lax_multiple_of"} and rec.get("nondyadic"):
            return "C03|%s|float-lax_multiple_of-nondyadic-step" % clause
    if rec["T"]["k"] == "rule":
        shape = "%s(%s)" % (rec["T"]["name"], "+".join(("lax_" if c["lax"] else "") + c["c"] for c in rec["T"]["cons"]))
    else:
        shape = rec["tag"]
    return "C03|%s|%s|%s" % (clause, shape, rec["x"]["t"][0])


def universe(ck, strict_only=False):
    """MC_Constraints: the validator chain as transcribed, model-checked over every int rule of the menu x every value; the universe
    is exported by TLC and returned as (T, values) pairs for the replay"""
    import os
    import shutil
    mc = tlc.run("MC_Constraints", "MC_Constraints.cfg")
    ck.mc(mc, "MC validators")
    if mc.invariant_violated:
        ck.count("model_only_counterexamples")
        ck.note("model-level counterexample: Constraints.tla violates %s" % mc.invariant_violated)
    op = tlc.run("MC_Constraints", "MC_Constraints_open.cfg", workers=1, extra=("-continue",))
    if "Invariant M_Idem is violated" not in op.output or "Invariant M_LaxStrict is violated" not in op.output:
        raise MachineryError("MC_Constraints_open.cfg: the recorded C03 finding (lax multiple_of with a bound) is not reproduced at model level")
    ck.count("open_point_reproduced_at_model_level (C03 known finding: lax multiple_of with a bound)")
    wit = tlc.run("MC_Constraints", "MC_Constraints_witness.cfg", workers=1, extra=("-continue",))
    missing = [w for w in ("W_StrictAccepts", "W_StrictRejects", "W_LaxChanges", "W_LaxThenStrictRejects") if "Invariant %s is violated" % w not in wit.output]
    if missing:
        raise MachineryError("vacuity: %s unreachable in MC_Constraints" % missing)
    d = tlc.scratch("cn-")
    try:
        out = os.path.join(d, "cases.ndjson")
        tlc.run("Export_Constraints", "Export_Constraints.cfg", env={"OUT_CASES": out}, workers=1)
        rows = [json.loads(l) for l in open(out) if l.strip()]
    finally:
        shutil.rmtree(d, ignore_errors=True)
    if sum(len(r["vals"]) for r in rows) != mc.distinct:
        raise MachineryError("exported universe (%d cases) is not the one TLC explored (%d states)" % (sum(len(r["vals"]) for r in rows), mc.distinct))
    out = []
    for r in rows:
        if strict_only and any(c["lax"] for c in r["cons"]):
            continue
        cons = []
        for c in r["cons"]:
            k = make_rule("int", [(c["c"], c["n"])])["cons"][0]
            k["lax"] = c["lax"]
            cons.append(k)
        out.append((gen.rule("int", cons), r["vals"]))
    return out


def main():
    ck = Check("C03")
    thorough = ck.tier == "thorough"
    rng = random.Random(ck.seed)
    records, n = [], 0

    def add(T, x, tag, opts=None):
        nonlocal n
        n += 1
        rec, why = run(T, x, n, tag, opts)
        if rec is None:
            ck.count("not_judged: " + why)
        else:
            records.append(rec)

    for origin, specs, vals in lax_grid():
        cons = []
        for c, v, lax in specs:
            r = make_rule(origin, [(c, v)])["cons"][0]
            r["lax"] = lax
            cons.append(r)
        T = gen.rule(origin, cons)
        for x in vals:
            add(T, x, "lax")
        # the same lax type fed with raw inputs of other kinds
        for x in rng.sample(POOL, 8):
            add(T, x, "lax-raw")
    for tag, T in logical_types(rng, thorough):
        for x in POOL:
            add(T, x, tag)
        if T["k"] in ("union", "xor") and ("|" in tag or "^" in tag):
            # the staged resolution of a union depends on the conversion preferences: the result must be a fixed point under each of them
            for otag, opts in (("ndl", {"no_data_loss": True}), ("ne", {"no_explicit_cast": True})):
                for x in (POOL if thorough else rng.sample(POOL, 12) + ["123", "12", b"123", 12.0]):
                    add(T, x, tag + "@" + otag, opts)
    # the late acceptor of a xor can also change the value instead of failing the second parse: fixed witness of that symptom
    lvw = leaves()
    add(gen.logic("xor", lvw["bool"], lvw["short"]), [1], "bool^short@ndl", {"no_data_loss": True})
    nu = len(records)
    for T, vals in universe(ck):
        for x in vals:
            add(T, x, "universe")
    ck.count("universe_cases_replayed_into_code", len(records) - nu)
    byid = {r["id"]: r for r in records}
    r = tlc.judge("Trace_Idem", "Trace_Idem.cfg", records, workers=8)
    ck.mc(r, "Trace/MC")
    if r.distinct != len(records):
        raise MachineryError("trace acceptance: TLC visited %d states, expected %d" % (r.distinct, len(records)))
    ck.judged(len(records))
    for rec in records:
        if rec["ok1"]:
            ck.keys.add("%s|%s" % (key_of(rec, ""), rec["x"]["k"]))
    ck.count("successful_first_parses", sum(1 for x in records if x["ok1"]))
    for rec in [x for x in records if x["ok1"]][:3] + records[-2:]:
        ck.sample({"id": rec["id"], "type": key_of(rec, "").split("|")[2], "input": rec["repr"], "first": rec["r1"], "second": rec["r2"],
                   "ok": [rec["ok1"], rec["ok2"]]})
    # the repository's own test-suite as a driver (harness/suite.py): its executions judged by TLC (Trace_Suite)
    from .. import suite
    for key_, clause_, rec_ in suite.stage(ck, "idem", "C03"):
        ck.violation(key_, clause_, rec_)
    for t in r.tagged("VIOL"):
        rec = byid[t[1]]
        ck.violation(key_of(rec, t[2]), t[2], rec)
    mv = r.tagged("MVIOL")
    if mv:
        ck.count("model_only_counterexamples", len(mv))
        for t in mv[:6]:
            ck.note("model-level: lax validator as transcribed is not a fixed point / misses the strict form: %s on %s" % (
                key_of(byid[t[1]], ""), byid[t[1]]["repr"]))
    dv = r.tagged("DIV")
    if dv:
        ck.count("divergences", len(dv))
        for t in dv[:6]:
            ck.note("divergence: M's lax step differs from the code: %s on %s -> %s" % (key_of(byid[t[1]], ""), byid[t[1]]["repr"], byid[t[1]]["r1"]))
    ck.exhaustive = True
    ck.rule = ("cases = lax grid (every lax constraint x bounds x boundary values, also fed with raw inputs) + logical combinations "
               "(unions / xor in every order of leaf pairs and triples, &, &~, containers of logical types) and data classes x a pool "
               "of 64 inputs of all kinds; each parsed twice; distinct_nontrivial = distinct (type shape, input type) whose first "
               "parse succeeded")
    ck.trusted = ["TLC 1.8", "harness/alpha.py", "order encoding for floats outside the exact universe (equality on fractions.Fraction)"]
    ck.assumptions = ["strict form of a lax constraint demanded on int, Decimal, str, bytes and sequences only (exact domains)"]
    return ck.finish()


def replay(path):
    d = json.load(open(path))
    rec = d["record"]
    print(json.dumps({k: rec[k] for k in ("tag", "repr", "r1", "r2", "ok1", "ok2", "exc")}))
    return main()
