"""C20 -- concurrent use is safe, including the first use of a type.

MC:   ConcRefs.tla (resolve_forward_refs statement by statement, 2 and 3 threads, safety + termination) and
      ConcRegistry.tla (resolve racing with register) explored exhaustively; the pinned-commit / write-through
      variants must be refuted.  TLC's counterexample for the pinned commit is turned into a thread schedule.
S->C: that schedule and the bounded-preemption family (every traced line of the anchored functions as a
      preemption point, <= 2 preemptions, 2-3 threads) are replayed on real threads by the deterministic line
      scheduler (harness/sched.py).
C->S: every run logs the executed (thread, label) sequence and the outcome of every call, of the same call made
      alone and of a call made after the race; Trace_Conc (TLC) judges P (outcome = alone, post = alone) and
      checks that each thread's label sequence is a path of the model's control flow (divergence).
"""
import json
import random
import sys
import types

from .. import tlc
from ..core import Check, MachineryError
from ..sched import Sched, label_of

SRC_CLASS = '''
from typing import List, Optional
from utype import Schema, Field, Rule
class A(Schema):
    v: int = 0
    b: 'B' = Field(required=False)
    n: List['N'] = Field(required=False)
class B(Schema):
    v: int = 0
    a: Optional['A'] = Field(required=False)
class N(int, Rule):
    ge = 0
def call(k):
    return A(v=str(k), b={'v': str(k + 1), 'a': {'v': '5'}}, n=[str(k + 2)])
'''
SRC_FUNC = '''
import utype
from typing import List
from utype import Schema, Field, Rule
@utype.parse
def f(b: 'B', n: List['N'] = None) -> 'B':
    return {'v': b.v + sum(n or [])}
class B(Schema):
    v: int = 0
class N(int, Rule):
    ge = 0
def call(k):
    return f({'v': str(k)}, n=[str(k + 1)])
'''
SRC_CONS = '''
from utype import Schema, Field, Rule
class A(Schema):
    q: 'N' = Field(required=False, le=5)
class N(int, Rule):
    ge = 0
def call(k):
    return A(q=str(k + 5))      # k = 0 -> 5 accepted, k >= 1 -> rejected by the Field constraint
'''
# classes local to a function (their evaluated references are cleared again after the first call); the names are
# bound in the module afterwards, which is what makes the references resolvable at all
SRC_LOCAL = '''
from utype import Schema, Field, Rule
def make():
    class A(Schema):
        v: int = 0
        b: 'B' = Field(required=False)
        n: 'N' = Field(required=False)
    class B(Schema):
        v: int = 0
    class N(int, Rule):
        ge = 0
    return A, B, N
A, B, N = make()
def call(k):
    return A(v=str(k), b={'v': str(k + 1)}, n=str(k + 2))
'''
# two classes that hold the SAME reference object (typing caches List['Leaf']), each with its own parser: thread 1 uses the first,
# thread 2 the second
SRC_SHARED_LOCAL = '''
from typing import List
from utype import Schema
def make(name):
    class Local(Schema):
        tag: str = name
        lines: List['Leaf']
    return Local
L = [make('a'), make('b')]
class Leaf(Schema):
    v: int
def call(k):
    return L[k % 2](lines=[{'v': str(k)}])
'''
SRC_SHARED_MODULE = '''
from typing import List
from utype import Schema
class Order(Schema):
    lines: List['Leaf']
class Invoice(Schema):
    lines: List['Leaf']
L = [Order, Invoice]
class Leaf(Schema):
    v: int
def call(k):
    return L[k % 2](lines=[{'v': str(k)}])
'''
SCENARIOS = {"class": SRC_CLASS, "func": SRC_FUNC, "cons": SRC_CONS, "local": SRC_LOCAL}
SHARED = {"shared-local": SRC_SHARED_LOCAL, "shared-module": SRC_SHARED_MODULE}
TAGS = {"func": "@f", "shared-local": "@Local", "shared-module": {1: "@Order", 2: "@Invoice"}}
# model action -> label of the source line that performs it (harness/sched.py PATTERNS)
MODEL2CODE = {"Check": "Check", "Check2": "Check", "Acquire": "Acquire", "Snapshot": "Snapshot", "Lookup": "Lookup", "Eval": "Eval",
              "Annot": "Annot", "Pop": "Pop", "Mark": "Mark", "UpdField": "UpdField", "ClearLocal": "ClearLocal", "PopAll": "Pop",
              "Upd": "UpdField", "Clear": "ClearLocal"}       # (the last two: actions of ConcShared)
_n = [0]


def load(src):
    _n[0] += 1
    mod = types.ModuleType("c20prog_%d" % _n[0])
    sys.modules[mod.__name__] = mod
    exec(compile(src, mod.__name__, "exec"), mod.__dict__)
    return mod


def project(x):
    import utype
    if isinstance(x, utype.Schema):
        return {str(k): project(v) for k, v in dict.items(x)}
    if isinstance(x, (list, tuple)):
        return [project(v) for v in x]
    if isinstance(x, dict):
        return {str(k): project(v) for k, v in x.items()}
    return x if isinstance(x, (int, str)) else repr(x)


def outcome(fn):
    try:
        return {"ok": True, "v": json.dumps(project(fn()), sort_keys=True), "exc": "none"}
    except BaseException as e:      # noqa
        return {"ok": False, "v": "", "exc": type(e).__name__}


def result_of(res):
    if res is None:
        return {"ok": False, "v": "", "exc": "NOT-FINISHED"}
    kind, val = res
    if kind == "ok":
        return {"ok": True, "v": json.dumps(project(val), sort_keys=True), "exc": "none"}
    return {"ok": False, "v": "", "exc": type(val).__name__}


def steps_of(log):
    out = []
    for t, l in log:
        if l != "other":
            lab, _, obj = l.partition("@")
            out.append({"th": t, "lab": lab, "obj": obj.split(".")[-1]})
    return out[:400]


def targets():
    from utype.parser.base import BaseParser
    from utype.parser.func import FunctionParser
    from utype.parser.field import ParserField
    from utype.parser.rule import Rule, LogicalType
    from utype.utils.base import TypeRegistry
    from utype.utils.transform import TypeTransformer
    codes = [TypeTransformer.__call__.__code__, BaseParser.resolve_forward_refs.__code__, BaseParser.__call__.__code__,
             FunctionParser.resolve_forward_refs.__code__, ParserField.resolve_forward_refs.__code__,
             Rule.resolve_forward_refs.__func__.__code__, LogicalType.resolve_forward_refs.__code__,
             TypeRegistry.resolve.__code__, TypeRegistry.register.__code__]
    for cls in (BaseParser, FunctionParser):
        for name in ("_resolve_forward_refs", "resolve_forward_types"):
            inner = cls.__dict__.get(name)
            if inner is not None:
                codes.append(inner.__code__)
    todo = [TypeRegistry.register.__code__]
    while todo:         # the decorator defined inside register, and whatever is defined inside that (a sort key, ...)
        for c in todo.pop().co_consts:
            if hasattr(c, "co_name"):
                codes.append(c)
                todo.append(c)
    return codes


# ---- scenario runners ---------------------------------------------------------------------------------------
def run_refs(scn, nthreads, schedule, by_label=None, strict=True):
    """schedule: list of (tid, nsteps) segments; by_label: list of (tid, label) model steps (TLC counterexample)"""
    src = SCENARIOS.get(scn) or SHARED[scn]
    alone = {}
    for t in range(1, nthreads + 1):
        m = load(src)
        alone[str(t)] = outcome(lambda: m.call(t - 1))
    m = load(src)
    s = Sched(targets(), label_of)
    for t in range(1, nthreads + 1):
        s.spawn(t, (lambda k: (lambda: m.call(k)))(t - 1))
    tags = TAGS.get(scn, "@A")
    for tid, lab in by_label or []:
        tag = tags[tid] if isinstance(tags, dict) else tags
        if tid > nthreads:
            continue
        if lab == "ReadField":          # the thread has picked up field.type and stands in front of dereferencing it
            s.run_to(tid, "Convert@TypeTransformer")
        elif lab == "Convert":
            s.run_until(tid, "Convert@TypeTransformer")
        elif lab in ("ClearLocal", "Clear") and scn not in ("local", "shared-local"):
            continue
        elif lab in MODEL2CODE:
            if not s.run_until(tid, MODEL2CODE[lab] + tag) and strict:
                break
    for tid, n in schedule:
        for _ in range(n):
            if not s.step(tid):
                break
    finished = s.finish_all()
    results = {str(t): result_of(s.results.get(t)) for t in range(1, nthreads + 1)}
    post = outcome(lambda: m.call(0))
    return {"scn": scn, "threads": nthreads, "schedule": [list(x) for x in schedule],
            "bylabel": [[t, l] for t, l in by_label or []], "strict": strict,
            "steps": steps_of(s.log),
            "nsteps": len(s.log), "results": [results[str(t)] for t in range(1, nthreads + 1)],
            "alone": [alone[str(t)] for t in range(1, nthreads + 1)], "post": post, "postAlone": alone["1"],
            "finished": finished}


def run_registry(schedule, nres=1):
    """thread 1..nres: resolve(P); last thread: register(P)(f2).  Post: resolve(P) alone must give f2."""
    from utype.utils.base import TypeRegistry
    reg = TypeRegistry("verif", cache=True)
    P = type("P", (), {})
    Q = type("Q", (P,), {})

    def f1(*a):
        return 1

    def f2(*a):
        return 2
    reg.register(P)(f1)
    s = Sched(targets(), label_of)
    for t in range(1, nres + 1):
        s.spawn(t, lambda: getattr(reg.resolve(Q), "__name__", "none"))
    s.spawn(nres + 1, lambda: (reg.register(P)(f2), "registered")[1])
    for tid, n in schedule:
        for _ in range(n):
            if not s.step(tid):
                break
    finished = s.finish_all()
    results = [result_of(s.results.get(t)) for t in range(1, nres + 2)]
    post = outcome(lambda: getattr(reg.resolve(Q), "__name__", "none"))
    alone = [{"ok": True, "v": '"ANY"', "exc": "none"}] * nres + [{"ok": True, "v": '"registered"', "exc": "none"}]
    return {"scn": "registry", "threads": nres + 1, "schedule": [list(x) for x in schedule],
            "steps": steps_of(s.log), "nsteps": len(s.log),
            "results": results, "alone": alone, "post": post,
            "postAlone": {"ok": True, "v": '"f2"', "exc": "none"}, "finished": finished}


def count_steps(scn):
    """number of traced lines of one thread running alone (the preemption points)"""
    if scn == "registry":
        r = run_registry([(1, 10 ** 6)])
        return r["nsteps"]
    r = run_refs(scn, 1, [(1, 10 ** 6)])
    return r["nsteps"]


def tlc_schedule(res):
    """(thread, label) steps of a TLC counterexample of ConcRefs: the thread whose pc changed, with the label it executed"""
    import re
    out = []
    prev = None
    for st in re.split(r"\nState \d+: ", res.output)[1:]:
        m = re.search(r"/\\ pc = (\(.*?\)|<<.*?>>)\n", st, re.S)
        if not m:
            continue
        pc = tlc.parse_tla_value(m.group(1).replace("\n", " "))
        pcs = {int(k): v for k, v in pc.items()} if isinstance(pc, dict) else {i + 1: v for i, v in enumerate(pc)}
        if prev is not None:
            for t in pcs:
                if pcs[t] != prev[t]:
                    out.append((t, prev[t]))
        prev = pcs
    return [(t, l) for t, l in out if l in MODEL2CODE or l in ("ReadField", "Convert")]


def model_walks(cfg, rng, limit, module="ConcRefs"):
    """behaviours of ConcRefs under cfg as (thread, action) sequences: TLC dumps the labelled state graph; all complete
    paths when there are at most `limit`, otherwise `limit` random walks"""
    import collections
    import functools
    import os
    import re
    import shutil
    d = tlc.scratch("c20graph-")
    try:
        r = tlc.run(module, cfg, workers=1, extra=("-dump", "dot,actionlabels", os.path.join(d, "g.dot")))
        if r.invariant_violated:
            raise MachineryError("%s: the graph to walk violates %s" % (cfg, r.invariant_violated))
        text = open(os.path.join(d, "g.dot")).read()
    finally:
        shutil.rmtree(d, ignore_errors=True)
    edges = collections.defaultdict(list)
    for m in re.finditer(r'^(-?\d+) -> (-?\d+) \[label="(\w+)\((\d+)\)"', text, re.M):
        if m.group(1) != m.group(2):
            edges[m.group(1)].append((m.group(2), int(m.group(4)), m.group(3)))
    for k in edges:
        edges[k].sort()
    init = re.search(r'^(-?\d+) \[label', text, re.M).group(1)

    @functools.lru_cache(None)
    def count(n):
        return sum(count(e[0]) for e in edges[n]) if edges[n] else 1
    total = count(init)
    walks = []
    if total <= limit:
        stack = [(init, [])]
        while stack:
            n, path = stack.pop()
            if not edges[n]:
                walks.append(path)
                continue
            for e in edges[n]:
                stack.append((e[0], path + [(e[1], e[2])]))
    else:
        for _ in range(limit):
            n, path = init, []
            while edges[n]:
                # weight by the number of behaviours below, so that the sample is uniform over behaviours
                ws = [count(e[0]) for e in edges[n]]
                e = rng.choices(edges[n], weights=ws)[0]
                path.append((e[1], e[2]))
                n = e[0]
            walks.append(path)
    return walks, total, r


def main():
    ck = Check("C20")
    thorough = ck.tier == "thorough"
    rng = random.Random(ck.seed)
    # ---- 1. model checking -----------------------------------------------------------------------------------
    for cfg in ["MC_ConcRefs_deferred.cfg", "MC_ConcRefs_deferred_local.cfg", "MC_ConcRefs_locked.cfg"] + (
            ["MC_ConcRefs_deferred3.cfg", "MC_ConcRefs_deferred3_local.cfg"] if thorough else []):
        r = tlc.run("ConcRefs", cfg)
        ck.mc(r, cfg)
        if r.invariant_violated:
            ck.note("model-level counterexample in %s: %s" % (cfg, r.invariant_violated))
            ck.count("model_only_counterexamples")
    orig = tlc.run("ConcRefs", "MC_ConcRefs_orig.cfg")
    if not orig.invariant_violated:
        raise MachineryError("P_AsAlone not falsified on ConcRefs Variant=orig")
    tol = tlc.run("ConcRefs", "MC_ConcRefs_tolerant.cfg")
    if not tol.invariant_violated:
        raise MachineryError("P_AsAlone not falsified on ConcRefs Variant=tolerant")
    # commit 0c1f78a (names popped inside the loop) lets a second thread of a function-local class skip the lock too early
    early = tlc.run("ConcRefs", "MC_ConcRefs_locked_local.cfg")
    if not early.invariant_violated:
        raise MachineryError("P_AsAlone not falsified on ConcRefs Variant=locked, Local=TRUE")
    r = tlc.run("ConcRegistry", "MC_ConcRegistry_snapshot.cfg")
    ck.mc(r, "MC_ConcRegistry_snapshot")
    if r.invariant_violated:
        ck.note("model-level counterexample in ConcRegistry(snapshot): %s" % r.invariant_violated)
        ck.count("model_only_counterexamples")
    sh = tlc.run("ConcRegistry", "MC_ConcRegistry_shared.cfg")
    if not sh.invariant_violated:
        raise MachineryError("P_PostAsAlone not falsified on ConcRegistry CacheMode=shared")
    # two parsers holding one reference object: a lock per parser is not enough for local classes (commit 2234c1b shares one);
    # clearing the reference for every parser (not only local ones) is not safe either
    for cfg in ("MC_ConcShared_local.cfg", "MC_ConcShared_module.cfg"):
        r = tlc.run("ConcShared", cfg)
        ck.mc(r, cfg)
        if r.invariant_violated:
            ck.note("model-level counterexample in %s: %s" % (cfg, r.invariant_violated))
            ck.count("model_only_counterexamples")
    shared_bad = tlc.run("ConcShared", "MC_ConcShared_local_perparser.cfg")
    if not shared_bad.invariant_violated or not tlc.run("ConcShared", "MC_ConcShared_module_clearall.cfg").invariant_violated:
        raise MachineryError("P_AsAlone not falsified on ConcShared with a lock per parser / with references cleared for every parser")
    ck.count("refuted_variants", 6)
    directed_shared = tlc_schedule(shared_bad)
    directed = tlc_schedule(orig)
    ck.note("schedule derived from TLC's counterexample for the pinned commit: %s" % directed)
    directed_local = tlc_schedule(early)
    ck.note("schedule derived from TLC's counterexample for names popped inside the loop (local class): %s" % directed_local)

    # ---- 2. schedules on real threads -----------------------------------------------------------------------------
    runs = []
    # every behaviour of the model (2 threads) / a uniform sample of them (3 threads), replayed action by action
    for cfg, scn, nth, limit in [("MC_ConcRefs_deferred_local.cfg", "local", 2, 1000 if thorough else 150),
                                 ("MC_ConcRefs_deferred.cfg", "class", 2, 1000 if thorough else 100),
                                 ("MC_ConcRefs_deferred.cfg", "func", 2, 1000 if thorough else 40)] + (
            [("MC_ConcRefs_deferred3_local.cfg", "local", 3, 600), ("MC_ConcRefs_deferred3.cfg", "class", 3, 300)] if thorough else []):
        walks, total, gr = model_walks(cfg, rng, limit)
        ck.count("model_behaviours_%s_%d" % (scn, nth), total)
        ck.count("model_behaviours_replayed_%s_%d" % (scn, nth), len(walks))
        for w in walks:
            runs.append(run_refs(scn, nth, [], by_label=w, strict=False))
    for cfg, scn in (("MC_ConcShared_local.cfg", "shared-local"), ("MC_ConcShared_module.cfg", "shared-module")):
        walks, total, gr = model_walks(cfg, rng, 400 if thorough else 60, module="ConcShared")
        ck.count("model_behaviours_%s_2" % scn, total)
        ck.count("model_behaviours_replayed_%s_2" % scn, len(walks))
        for w in walks:
            runs.append(run_refs(scn, 2, [], by_label=w, strict=False))
        # TLC's counterexample for a lock per parser, and every single / sampled double preemption
        runs.append(run_refs(scn, 2, [], by_label=directed_shared, strict=False))
        n1 = run_refs(scn, 1, [(1, 10 ** 6)])["nsteps"]
        for k in sorted(set(rng.sample(range(n1 + 1), min(n1 + 1, 25))) | {0, 1, n1}):
            runs.append(run_refs(scn, 2, [(1, k), (2, 10 ** 6)]))
            runs.append(run_refs(scn, 2, [(2, k), (1, 10 ** 6)]))
    for scn in SCENARIOS:
        runs.append(run_refs(scn, 2, [], by_label=directed))        # TLC's own interleaving
        runs.append(run_refs(scn, 2, [], by_label=directed_local, strict=False))
        n1 = count_steps(scn)
        ck.count("preemption_points_%s" % scn, n1)
        pts = list(range(0, n1 + 1))
        if not thorough and len(pts) > 40:
            pts = sorted(set(rng.sample(pts, 40)) | {0, 1, 2, n1})
        # one preemption: T1 runs k lines, T2 runs to the end, T1 resumes
        for k in pts:
            runs.append(run_refs(scn, 2, [(1, k), (2, 10 ** 6)]))
        # two preemptions: T1 k1 lines, T2 k2 lines, T1 to the end
        pairs = [(a, b) for a in pts for b in pts if b > 0]
        for k1, k2 in rng.sample(pairs, min(len(pairs), 1500 if thorough else 120)):
            runs.append(run_refs(scn, 2, [(1, k1), (2, k2), (1, 10 ** 6)]))
        # three threads, random round-robin slices
        for _ in range(300 if thorough else 25):
            sched = [(rng.randint(1, 3), rng.randint(1, 6)) for _ in range(rng.randint(3, 12))]
            runs.append(run_refs(scn, 3, sched))
    nr = count_steps("registry")
    for k1 in range(0, nr + 1):
        runs.append(run_registry([(1, k1), (2, 10 ** 6)]))
        for k2 in range(1, 8):
            runs.append(run_registry([(1, k1), (2, k2), (1, 10 ** 6)]))
    for _ in range(400 if thorough else 60):
        sched = [(rng.randint(1, 3), rng.randint(1, 4)) for _ in range(rng.randint(2, 10))]
        runs.append(run_registry(sched, nres=2))
    for i, x in enumerate(runs):
        x["id"] = "c20-%d" % i
    # ---- 3. TLC judges ----------------------------------------------------------------------------------------------
    r = tlc.judge("Trace_Conc", "Trace_Conc.cfg", runs, workers=4)
    ck.mc(r, "Trace")
    if r.distinct != len(runs):
        raise MachineryError("trace acceptance: TLC visited %d states, expected %d" % (r.distinct, len(runs)))
    ck.judged(len(runs))
    byid = {x["id"]: x for x in runs}
    for x in runs:
        ck.keys.add("%s|%d|%s" % (x["scn"], x["threads"], ",".join("%d:%s" % (s["th"], s["lab"]) for s in x["steps"][:60])))
    for x in runs[:2] + runs[-2:]:
        ck.sample({"id": x["id"], "scenario": x["scn"], "schedule": x["schedule"], "labelled_steps": [(s["th"], s["lab"]) for s in x["steps"][:30]],
                   "results": x["results"], "post": x["post"]})
    for t in r.tagged("VIOL"):
        x = byid[t[1]]
        bad = [res["exc"] for res in x["results"] if not res["ok"]] + ([x["post"]["exc"]] if not x["post"]["ok"] else [])
        key = "C20|%s|%s|%s" % (t[2], x["scn"], "+".join(sorted(set(bad))) or "value")
        ck.violation(key, t[2], x)
    divs = r.tagged("DIV")
    if divs:
        ck.count("divergences", len(divs))
        ck.note("divergence: %d runs whose label sequence is not a path of the model's control flow, e.g. %s: %s" % (
            len(divs), divs[0][1], [(s["th"], s["lab"]) for s in byid[divs[0][1]]["steps"][:25]]))
    unfinished = sum(1 for x in runs if not x["finished"])
    if unfinished:
        ck.count("runs_with_unfinished_threads", unfinished)
    ck.rule = ("schedules = TLC's counterexample interleaving for the pinned commit + every single preemption point "
               "(each traced line of resolve_forward_refs / TypeRegistry.resolve / register, sampled to 40 in the quick tier) + sampled "
               "double preemptions + random 3-thread slices, on 3 first-use scenarios (class with pending references, decorated "
               "function, reference carrying a Field constraint) and on resolve racing with register; distinct_nontrivial = "
               "distinct labelled interleavings observed")
    ck.trusted = ["TLC 1.8", "harness/sched.py (settrace line scheduler; a step = one source line of the targeted functions)",
                  "statement-text patterns binding lines to model labels"]
    ck.assumptions = ["source-line granularity (as in the statement), CPython with the GIL", "2-3 threads, <= 2 directed preemptions plus random slices"]
    return ck.finish()


def replay(path):
    d = json.load(open(path))
    x = d["record"]
    sched = [tuple(s) for s in x["schedule"]]
    if x["scn"] == "registry":
        y = run_registry(sched, nres=x["threads"] - 1)
    else:
        y = run_refs(x["scn"], x["threads"], sched, by_label=[tuple(b) for b in x.get("bylabel", [])], strict=x.get("strict", True))
    y["id"] = "replay"
    print("results:", y["results"], "post:", y["post"])
    r = tlc.judge("Trace_Conc", "Trace_Conc.cfg", [y], workers=1)
    v = r.tagged("VIOL")
    print("VIOLATION property=C20 replay=%s" % path if v else "replay: property holds now")
    return 1 if v else 0
