"""C01 -- parsed results always conform to the declared type and constraints.

Declarations are generated from descriptors (the descriptor is ground truth): builtin leaves, constrained types with
strict constraints, generics (List / Set / Tuple fixed and variable / Dict), unions, xor, &, ~, Optional, data classes,
nested up to depth 3.  Every declaration is used as a bare type, a data-class field, a decorated-function parameter and
a return annotation, on inputs drawn from shaped pools plus noise.  TLC (Trace_Conform) evaluates Values!Conforms on
every successful result -- recursively over elements, keys, values and fields.
"""
import decimal
import itertools
import json
import random

from .. import tlc
from .. import gen
from ..alpha import alpha, exc_names
from ..core import Check, MachineryError, Timeout, watchdog

D = decimal.Decimal
SCALARS = [0, 1, 5, -3, 12, 100, True, False, None, 0.5, 2.0, -0.25, 7.75, D("1.5"), D("6"), "", "0", "6", "-7", " 6 ", "6.5", "abc", "ab", "a",
           "true", "null", "1e2", b"6", b"ab", b"\xff",
           # numbers written with an exponent, and with more digits than places
           "1e3", D("1E+3"), D("2.5E+2"), "12e1", 1e3, 123.5, D("12.25"), "0.125"]
CONTAINERS = [[], [1], ["1", 2], [1, 1], [1, "a"], [None], [[1], [2]], (1, 2), (1, "a"), ("x",), (), {1, 2}, {"a"}, {"a": 1}, {"a": "1", "b": 2},
              {1: "x"}, {}, [{"v": 1}], {"v": "3"}, {"v": "x"}, {"v": 3, "w": "ab"}, "[1, 2]", "1,2", '{"a": 1}', "a=1", [1.5, "2.5"], [0, 5, 10],
              {"k": [1, "2"]}, {"k": ["x"]}, [(1, "a")], [[1, "a"]], ((1, "a"), (2, "b"))]


def rnd_leaf(rng):
    r = rng.random()
    if r < 0.45:
        return gen.prim(rng.choice(["int", "int", "float", "str", "bool", "none", "bytes", "Decimal"]))
    origin = rng.choice(["int", "int", "str", "float", "Decimal", "bytes"])
    cons = []
    if origin in ("int", "float", "Decimal"):
        lo = rng.choice([None, 0, 1, -2, 3])
        hi = rng.choice([None, 5, 10, 100])
        if lo is not None:
            cons.append(gen.con(rng.choice(["ge", "gt"]), lo))
        if hi is not None and (lo is None or hi > lo + 1):
            cons.append(gen.con(rng.choice(["le", "lt"]), hi))
        if origin == "int" and rng.random() < 0.3:
            cons.append(gen.con("multiple_of", rng.choice([2, 3, 5])))
        if origin in ("float", "Decimal") and rng.random() < 0.3:
            cons = [c for c in cons if c["c"] in ("ge", "gt")] + [gen.con("max_digits", rng.choice([2, 3, 4]))]
        if rng.random() < 0.15:
            c = gen.con("enum", None, vals=[1, 2, 3] if origin == "int" else [0.5, 2.0] if origin == "float" else [D("1.5"), D("6")])
            c["py"] = [1, 2, 3] if origin == "int" else [0.5, 2.0] if origin == "float" else [D("1.5"), D("6")]
            cons = [c]
    else:
        n = rng.choice([1, 2, 3])
        cons.append(gen.con(rng.choice(["max_length", "min_length", "length"]), n))
        if rng.random() < 0.2 and origin == "str":
            c = gen.con("enum", None, vals=["a", "ab", "6"])
            c["py"] = ["a", "ab", "6"]
            cons = [c]
    if not cons:
        return gen.prim(origin)
    return gen.rule(origin, cons)


_cls_n = [0]


def rnd_type(rng, depth):
    if depth == 0 or rng.random() < 0.3:
        return rnd_leaf(rng)
    k = rng.choice(["list", "list", "set", "tuple", "tuplee", "dict", "union", "union", "opt", "xor", "and", "not", "cls", "listc", "contains"])
    if k == "contains":
        # a sequence constrained only by contains / min_contains / max_contains, nested in a container
        inner = gen.rule(rng.choice(["list", "tuple"]), contains=gen.prim("int"), minc=rng.choice([-1, 1, 2]), maxc=rng.choice([-1, 1, 2, 3]))
        if inner["minc"] > 0 and 0 <= inner["maxc"] < inner["minc"]:
            inner["maxc"] = -1
        inner["_contains"] = True
        w = rng.choice(["list", "tuplee", "dict", "bare"])
        if w == "list":
            return gen.rule("list", args=[inner])
        if w == "tuplee":
            return gen.rule("tuple", args=[inner], ell=True)
        if w == "dict":
            return gen.rule("dict", args=[gen.prim("str"), inner])
        return inner
    if k == "list":
        T = gen.rule("list", args=[rnd_type(rng, depth - 1)])
        if rng.random() < 0.3:
            # the same declaration spelled with an abstract container (the result is a list: "an instance that satisfies the abstract methods")
            T["_abstract"] = rng.choice(["Sequence", "Iterable", "Collection", "MutableSequence"])
        return T
    if k == "listc":
        return gen.rule("list", [gen.con(rng.choice(["max_length", "min_length"]), rng.choice([1, 2, 3]))] +
                        ([gen.con("unique_items", None)] if rng.random() < 0.4 else []), args=[rnd_type(rng, depth - 1)])
    if k == "set":
        return gen.rule("set", args=[rnd_leaf(rng)])
    if k == "tuple":
        return gen.rule("tuple", args=[rnd_type(rng, depth - 1) for _ in range(rng.randint(1, 3))])
    if k == "tuplee":
        return gen.rule("tuple", args=[rnd_type(rng, depth - 1)], ell=True)
    if k == "dict":
        return gen.rule("dict", args=[rnd_leaf(rng), rnd_type(rng, depth - 1)])
    if k == "union":
        return gen.logic("union", *[rnd_type(rng, depth - 1) for _ in range(rng.randint(2, 3))])
    if k == "opt":
        return gen.logic("union", rnd_type(rng, depth - 1), gen.prim("none"))
    if k == "xor":
        return gen.logic("xor", rnd_leaf(rng), rnd_type(rng, depth - 1))
    if k == "and":
        return gen.logic("and", rnd_leaf(rng), rnd_leaf(rng))
    if k == "not":
        return gen.logic("and", rnd_leaf(rng), gen.logic("not", rnd_leaf(rng)))
    _cls_n[0] += 1
    fields = []
    for att in ["v", "w"][:rng.randint(1, 2)]:
        fields.append({"att": att, "out": att if rng.random() < 0.7 else att.upper(), "ty": rnd_type(rng, depth - 1), "req": rng.random() < 0.6})
    return gen.cls_desc("K%d" % _cls_n[0], fields)


def fix_unique(T):
    for c in T.get("cons", []):
        if c["c"] == "unique_items":
            c["py"] = True
    for a in T.get("args", []):
        fix_unique(a)
    for f in T.get("fields", []):
        fix_unique(f["ty"])


def shaped_inputs(rng, T, n):
    """inputs with some chance to parse: built along the descriptor, plus noise"""
    def make(T, d=0):
        k = T["k"]
        if rng.random() < 0.12:
            return rng.choice(SCALARS + CONTAINERS)
        if k in ("prim", "rule") and T["name"] in ("int", "float", "str", "bool", "none", "bytes", "Decimal", ""):
            return rng.choice(SCALARS)
        if k == "rule" and T.get("_contains"):
            # elements either are ints or cannot be converted to int, so that "matching" is unambiguous
            items = [rng.choice([1, 2, 3, "a", "b"]) for _ in range(rng.randint(0, 4))]
            return list(items) if (T["name"] == "list") == (rng.random() < 0.8) else tuple(items)
        if k == "rule" and T["name"] in ("list", "set", "tuple"):
            if T["name"] == "tuple" and not T["ell"]:
                items = [make(a, d + 1) for a in T["args"]]
                if rng.random() < 0.2:
                    items = items[:-1] if rng.random() < 0.5 else items + [rng.choice(SCALARS)]
            else:
                items = [make(T["args"][0], d + 1) for _ in range(rng.choice([0, 1, 2, 3, 3, 5, 7]))]
            r = rng.random()
            try:
                return list(items) if r < 0.5 else tuple(items) if r < 0.8 else set(items)
            except TypeError:
                return list(items)
        if k == "rule" and T["name"] == "dict":
            out = {}
            for _ in range(rng.choice([0, 1, 2, 2, 4])):
                kk = make(T["args"][0], d + 1)
                try:
                    out[kk] = make(T["args"][1], d + 1)
                except TypeError:
                    pass
            return out
        if k in ("union", "xor", "and"):
            return make(rng.choice(T["args"]), d + 1)
        if k == "not":
            return rng.choice(SCALARS)
        if k == "cls":
            out = {}
            for f in T["fields"]:
                if f["req"] or rng.random() < 0.7:
                    out[rng.choice([f["att"], f["out"]])] = make(f["ty"], d + 1)
            if rng.random() < 0.15:
                out["zz"] = 1
            return out
        return rng.choice(SCALARS)
    return [make(T) for _ in range(n)]


def encodable(r):
    return not (r["k"].endswith("x") or abs(r["n"]) > 30000 or r["d"] > 30000 or any(not encodable(i) for i in r["items"]) or any(not encodable(i) for i in r["ks"]))


def uses_of(T, built):
    """the declaration as bare type / field / parameter / return annotation"""
    import utype
    from utype import Schema, Field
    from utype.parser.rule import LogicalType
    ann = built
    ns = {"__annotations__": {"x": ann}, "x": Field()}
    S = type("Holder", (Schema,), ns)

    def raw_p(x):
        return x
    raw_p.__annotations__ = {"x": ann}
    fp = utype.parse(raw_p)

    def raw_r(x):
        return x
    raw_r.__annotations__ = {"return": ann}
    fr = utype.parse(raw_r)
    us = [("field", lambda v: dict.__getitem__(S(x=v), "x")), ("param", lambda v: fp(v)), ("return", lambda v: fr(v)),
          ("transform", lambda v: utype.type_transform(v, ann))]
    # the same uses with Options(collect_errors=True): it changes how errors are reported, it does not waive the guarantee
    from utype import Options
    collect = Options(collect_errors=True)
    SC = type("HolderC", (Schema,), {"__annotations__": {"x": ann}, "x": Field(), "__options__": collect})

    def raw_pc(x):
        return x
    raw_pc.__annotations__ = {"x": ann}
    fpc = utype.parse(raw_pc, options=collect)

    def raw_rc(x):
        return x
    raw_rc.__annotations__ = {"return": ann}
    frc = utype.parse(raw_rc, options=collect)
    us += [("field+collect", lambda v: dict.__getitem__(SC(x=v), "x")), ("param+collect", lambda v: fpc(v)), ("return+collect", lambda v: frc(v))]
    if isinstance(built, LogicalType):
        us.append(("type+collect", lambda v: built(v, context=collect.make_context())))
    if isinstance(built, LogicalType) or isinstance(built, type) and issubclass(built, Schema):
        us.append(("type", lambda v: built(v) if not (isinstance(built, type) and issubclass(built, Schema)) else built.__from__(v)))
    return us


def pipeline_universe(ck):
    """MC_Pipeline: convert-then-validate as transcribed (Convert!ToInt, Constraints!RunRule) against Values!Conforms over every abstract
    source x every int rule; the two TLA+-defined universes are exported by TLC and their product is run on real constrained types"""
    import os
    import shutil
    from . import c12
    from .c02 import make_rule
    mc = tlc.run("MC_Pipeline", "MC_Pipeline.cfg")
    ck.mc(mc, "MC pipeline")
    if mc.invariant_violated:
        ck.count("model_only_counterexamples")
        ck.note("model-level counterexample: convert-then-validate as transcribed violates %s" % mc.invariant_violated)
    op = tlc.run("MC_Pipeline", "MC_Pipeline_open.cfg")
    if op.invariant_violated != "M_Conforms":
        raise MachineryError("MC_Pipeline_open.cfg: the open point (lax multiple_of after a strict bound) is not reproduced at model level")
    wit = tlc.run("MC_Pipeline", "MC_Pipeline_witness.cfg", workers=1, extra=("-continue",))
    missing = [w for w in ("W_Accepts", "W_RejectsByConstraint", "W_RejectsByConversion") if "Invariant %s is violated" % w not in wit.output]
    if missing:
        raise MachineryError("vacuity: %s unreachable in MC_Pipeline" % missing)
    d = tlc.scratch("pl-")
    try:
        o1, o2 = os.path.join(d, "sources.ndjson"), os.path.join(d, "rules.ndjson")
        tlc.run("Export_Convert", "Export_Convert.cfg", env={"OUT_CASES": o1}, workers=1)
        tlc.run("Export_Constraints", "Export_Constraints.cfg", env={"OUT_CASES": o2}, workers=1)
        srcs = [json.loads(l) for l in open(o1) if l.strip()]
        rules = [json.loads(l) for l in open(o2) if l.strip()]
    finally:
        shutil.rmtree(d, ignore_errors=True)
    if len(srcs) * len(rules) != mc.distinct:
        raise MachineryError("exported universe (%d x %d) is not the one TLC explored (%d states)" % (len(srcs), len(rules), mc.distinct))
    recs = []
    for ri, r in enumerate(rules):
        cons = []
        for c in r["cons"]:
            k = make_rule("int", [(c["c"], c["n"])])["cons"][0]
            k["lax"] = c["lax"]
            cons.append(k)
        T = gen.rule("int", cons)
        t = gen.build(T)
        Tt = gen.strip(T)
        for si, sr in enumerate(srcs):
            x = c12.concretise(sr["x"])
            try:
                v = t(x)
                ok, vr = True, alpha(v)
            except Exception:
                ok, vr = False, alpha(None)
            src = {"x": alpha(x), "fx": c12.facts(x)} if sr["x"]["k"] != "set" else sr
            recs.append({"id": "p%d-%d" % (ri, si), "T": Tt, "v": vr, "ok": ok, "src": src, "input": repr(x)[:40], "out": repr(v)[:40] if ok else "",
                         "open": any(c["c"] == "multiple_of" and c["lax"] for c in r["cons"]) and any(c["c"] in ("gt", "ge", "lt", "le") and not c["lax"] for c in r["cons"])})
    res = tlc.judge("Trace_Pipeline", "Trace_Pipeline.cfg", [{k: v for k, v in x.items() if k not in ("input", "out", "open")} for x in recs], workers=8)
    ck.mc(res, "Trace pipeline")
    if res.distinct != len(recs):
        raise MachineryError("trace acceptance (pipeline universe): TLC visited %d states, expected %d" % (res.distinct, len(recs)))
    ck.judged(len(recs))
    ck.count("universe_cases_replayed_into_code", len(recs))
    byid = {x["id"]: x for x in recs}
    for t_ in res.tagged("VIOL"):
        x = byid[t_[1]]
        key = "C01|Conforms|lax_multiple_of-after-strict-bound" if x["open"] else "C01|Conforms|pipeline-universe|%s" % "+".join(("lax_" if c["lax"] else "") + c["c"] for c in x["T"]["cons"])
        ck.violation(key, "Conforms", x)
    dv = res.tagged("DIV")
    if dv:
        ck.count("divergences", len(dv))
        for t_ in dv[:6]:
            x = byid[t_[1]]
            ck.note("divergence: convert-then-validate as transcribed differs from the code on %s with %s -> %s" % (x["input"], [c["c"] for c in x["T"]["cons"]], x["out"] or "rejected"))


def main():
    ck = Check("C01")
    thorough = ck.tier == "thorough"
    rng = random.Random(ck.seed)
    records, n = [], 0
    ntypes = 20000 if thorough else 2500
    for _ in range(ntypes):
        T = rnd_type(rng, rng.choice([1, 2, 2, 3]))
        fix_unique(T)
        try:
            built = gen.build(T)
            us = uses_of(T, built)
        except Exception as e:
            ck.count("not_judged: declaration refused (%s)" % type(e).__name__)
            continue
        Tt = gen.strip(T)
        for x in shaped_inputs(rng, T, 8 if thorough else 6):
            use, fn = rng.choice(us) if not thorough else us[rng.randrange(len(us))]
            n += 1
            try:
                with watchdog(3.0):
                    v = fn(x)
                ok = True
            except Timeout:
                ck.count("timeouts (C04)")
                continue
            except Exception:
                ok = False
                v = None
            if not ok:
                ck.count("rejected")
                continue
            vr = alpha(v)
            if not encodable(vr):
                ck.count("not_judged: outside the exact universe")
                continue
            records.append({"id": "c01-%d" % n, "T": Tt, "v": vr, "use": use, "input": repr(x)[:60], "out": repr(v)[:60], "shape": shape(T)})
    # a constant / an enumeration declared beside other constraints: one fixed witness (known finding: the others are dropped)
    We = gen.con("enum", None, vals=[1, 50])
    We["py"] = [1, 50]
    WT = gen.rule("int", [We, gen.con("le", 10)])
    n += 1
    records.append({"id": "c01-%d" % n, "T": gen.strip(WT), "v": alpha(gen.build(WT)(50)), "use": "type", "input": "50", "out": "50",
                    "shape": "witness:enum-beside-other-constraints"})
    pipeline_universe(ck)
    byid = {r["id"]: r for r in records}
    res = tlc.judge("Trace_Conform", "Trace_Conform.cfg", records, workers=16)
    ck.mc(res, "Trace")
    if res.distinct != len(records):
        raise MachineryError("trace acceptance: TLC visited %d states, expected %d" % (res.distinct, len(records)))
    ck.judged(len(records))
    for r in records:
        ck.keys.add("%s|%s|%s" % (r["shape"], r["use"], r["v"]["t"][0]))
    for r in records[:3] + records[-2:]:
        ck.sample({"id": r["id"], "declaration": r["shape"], "use": r["use"], "input": r["input"], "result": r["out"]})
    for t in res.tagged("VIOL"):
        r = byid[t[1]]
        if r["shape"].startswith("witness:"):
            ck.violation("C01|Conforms|%s" % r["shape"][8:], "Conforms", r)
            continue
        ck.violation("C01|nonconforming|%s|%s" % (r["shape"], r["use"]), "Conforms", r)
    ck.rule = ("declarations = random descriptors of depth 1-3 over builtin leaves, constrained types (bounds, multiple_of, lengths, enum), "
               "List / constrained List with unique_items / Set / Tuple fixed and variable / Dict, unions, Optional, xor, &, & ~, data classes with "
               "aliased and optional fields; each used as bare type, field, parameter, return annotation (each also under Options(collect_errors=True)) or through type_transform on inputs built "
               "along the descriptor with noise; only successful parses are judged; distinct_nontrivial = distinct (declaration shape, use, "
               "result type)")
    ck.trusted = ["TLC 1.8", "harness/gen.py (descriptor -> declaration), harness/alpha.py (projection)"]
    ck.assumptions = ["no option that waives the guarantee is used (preserve policies, ignore_constraints, unresolved_types='ignore')",
                      "fields of generated data classes have no defaults", "& is judged on its last argument"]
    return ck.finish()


def shape(T):
    k = T["k"]
    if k == "prim":
        return T["name"]
    if k == "rule":
        s = T["name"] or "Rule"
        if T["cons"]:
            s += "{%s}" % ",".join(c["c"] for c in T["cons"])
        if T["args"]:
            s += "[%s%s]" % (",".join(shape(a) for a in T["args"]), ",..." if T["ell"] else "")
        return s
    if k == "cls":
        return "cls(%s)" % ",".join("%s%s:%s" % (f["att"], "" if f["req"] else "?", shape(f["ty"])) for f in T["fields"])
    return "%s(%s)" % (k, ",".join(shape(a) for a in T["args"]))


def replay(path):
    d = json.load(open(path))
    print(json.dumps({k: d["record"][k] for k in ("shape", "use", "input", "out")}))
    return main()
