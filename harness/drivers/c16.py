"""C16 -- converter resolution is a pure function of the registrations made so far.

MC:   Registry.tla (M as coded) |= P_C16, CacheCoherent, SortedByPrio over all histories (exhaustive).
S->C: every history over the spec's own operation alphabet (menu printed by TLC) up to a depth is run on real
      registries: fresh TypeRegistry(cache=True/False), the global transformer registry through
      register_transformer/type_transform, the encoder registry through register_encoder/JSONEncoder.
C->S: random longer histories.  All recorded histories are validated by Trace_Registry (TLC): P_C16 on
      every step is the verdict, M's prediction gives divergence notes.
"""
import itertools
import json
import random

from .. import tlc
from ..core import Check, MachineryError


def build_world(tag=""):
    """The class lattice of Registry.tla, as real classes (fresh ones for every history)."""
    Meta = type("Meta" + tag, (type,), {})
    hx = "hx" + tag
    A = type("A", (), {})
    B = type("B", (A,), {})
    C = type("C", (B,), {hx: 1})
    D = Meta("D", (), {})
    E = Meta("E", (D,), {hx: 1})
    F = type("F", (), {hx: 1})
    return {"A": A, "B": B, "C": C, "D": D, "E": E, "F": F}, Meta, hx


def detector_for(name, world):
    if name == "nameBF":
        good = (world["B"], world["F"])
        return lambda c: c in good
    if name == "raise":
        bad = (world["A"], world["D"])
        hit = (world["C"],)

        def det(c):
            if c in bad:
                raise TypeError("detector refuses")
            return c in hit
        return det
    return None


class Runner:
    """Runs one history on one registry variant and logs what each resolve returned (as the registration's
    sequence number; 0 = nothing registered matched)."""

    def __init__(self, variant, n):
        self.variant = variant
        self.world, self.Meta, self.hx = build_world("_%d" % n if variant in ("global", "encoder", "rule") else "")
        self.rules = {}
        self.nreg = 0
        if variant in ("cache", "nocache"):
            from utype.utils.base import TypeRegistry
            self.reg = TypeRegistry("verif", cache=(variant == "cache"))
        elif variant == "layered":
            # a registry with a base: lookups go through the child, registrations into either
            from utype.utils.base import TypeRegistry
            self.base = TypeRegistry("verif-base", cache=True)
            self.reg = TypeRegistry("verif", cache=True, base=self.base)
            self.nbase = 0
        elif variant in ("global", "rule"):
            import utype
            self.reg = utype.TypeTransformer.registry
        elif variant == "encoder":
            from utype.utils.encode import encoder_registry
            self.reg = encoder_registry

    def register(self, st):
        if st["op"] == "regb":
            self.nbase += 1
            k = 100 + self.nbase
        else:
            self.nreg += 1
            k = self.nreg
        if self.variant == "encoder":
            def fn(o, _k=k):
                return ["fn", _k]
        elif self.variant in ("global", "rule"):
            def fn(trans, data, t, _k=k):
                return ("fn", _k)
        else:
            def fn(*a, _k=k):
                return _k
            fn.k = k
        kw = {}
        det = detector_for(st["det"], self.world)
        if det:
            kw["detector"] = det
        if st["attr"] != "none":
            kw["attr"] = self.hx
        if st["meta"] != "none":
            kw["metaclass"] = self.Meta
        classes = [self.world[c] for c in st["cls"]]
        if self.variant in ("global", "rule"):
            import utype
            utype.register_transformer(*classes, allow_subclasses=st["allow"], priority=st["prio"], **kw)(fn)
        elif self.variant == "encoder":
            import utype
            utype.register_encoder(*classes, allow_subclasses=st["allow"], priority=st["prio"], **kw)(fn)
        elif st["op"] == "regb":
            self.base.register(*classes, allow_subclasses=st["allow"], priority=st["prio"], **kw)(fn)
        else:
            self.reg.register(*classes, allow_subclasses=st["allow"], priority=st["prio"], **kw)(fn)

    def resolve(self, t):
        T = self.world[t]
        if self.variant == "rule":
            # the type is used through a constrained subclass of it (class TR(T, Rule)), declared at its first use
            import utype
            if t not in self.rules:
                self.rules[t] = type(T.__name__ + "Rule", (T, utype.Rule), {})
            try:
                r = utype.type_transform("x", self.rules[t])
            except Exception:
                return 0
            return r[1] if isinstance(r, tuple) and r and r[0] == "fn" else -1
        if self.variant == "global":
            import utype
            try:
                r = utype.type_transform("x", T)
            except Exception:
                return 0
            return r[1] if isinstance(r, tuple) and r and r[0] == "fn" else -1
        if self.variant == "encoder":
            import utype
            try:
                r = utype.JSONEncoder().default(T.__new__(T))
            except TypeError:
                return 0
            return r[1] if isinstance(r, list) and r and r[0] == "fn" else -1
        f = self.reg.resolve(T)
        return 0 if f is None else getattr(f, "k", -1)


def run_history(ops, variant, n):
    r = Runner(variant, n)
    steps = []
    for op in ops:
        if op["op"] in ("reg", "regb"):
            r.register(op)
            steps.append(dict(op))
        else:
            steps.append({"op": "res", "t": op["t"], "fn": r.resolve(op["t"])})
    return steps


def shape(ops):
    out = []
    for o in ops:
        if o["op"] == "reg":
            out.append("reg(%s%s,p%d%s%s%s)" % ("+".join(o["cls"]) or "-", "" if o["allow"] else "!",
                                              o["prio"], ",hx" if o["attr"] != "none" else "",
                                              ",Meta" if o["meta"] != "none" else "",
                                              "," + o["det"] if o["det"] != "none" else ""))
        else:
            out.append("res(%s)" % o["t"])
    return ";".join(out)


def abstract_key(ops, upto, variant="cache"):
    """Scenario key of a violation, produced by the projection: finite and deterministic.  What is kept: the
    registry variant, whether the failing type had been resolved before a later registration (cache path) and
    whether priorities differ among the registrations (ordering path)."""
    t = ops[upto - 1]["t"]
    resolved_before = False
    reg_after = False
    prios = set()
    for o in ops[:upto - 1]:
        if o["op"] == "res" and o["t"] == t:
            resolved_before = True
        elif o["op"] == "reg":
            prios.add(o["prio"])
            if resolved_before:
                reg_after = True
    return "C16|P_C16|%s|%s|%s" % (variant, "reg-after-resolve" if reg_after else "fresh-type",
                                   "mixed-prio" if len(prios) > 1 else "one-prio")


def menu_from_tlc(res, tag):
    t = res.tagged(tag)
    if not t:
        raise MachineryError("TLC did not print %s" % tag)
    menu = []
    for e in t[0][1]["__set__"]:
        menu.append({"op": "reg", "cls": sorted(e["cls"]["__set__"]), "allow": e["allow"], "prio": e["prio"],
                     "attr": e["attr"], "meta": e["meta"], "det": e["det"]})
    menu.sort(key=lambda m: json.dumps(m, sort_keys=True))
    return menu


def main():
    ck = Check("C16")
    thorough = ck.tier == "thorough"
    rng = random.Random(ck.seed)
    # ---- 1. exhaustive model checking of the design ------------------------------------------------
    cfg = "MC_Registry_fixed_%s.cfg" % ("full" if thorough else "quick")
    mc = tlc.run("MC_Registry", cfg, coverage=True)
    if mc.invariant_violated:
        # M (as coded) does not satisfy P on the model: a directed scenario, not a verdict (see DESIGN 2).
        ck.note("model-level counterexample in %s: %s" % (cfg, mc.invariant_violated))
        ck.count("model_only_counterexamples")
    ck.mc(mc, "MC")
    # the pinned-commit variant must be refuted by TLC (sanity of P: it is not vacuous)
    mo = tlc.run("MC_Registry", "MC_Registry_orig_quick.cfg")
    if not mo.invariant_violated:
        raise MachineryError("P_C16/CacheCoherent not falsified on the 'orig' variant: property layer is vacuous")
    ck.count("orig_variant_refuted_by_TLC")
    menu_q = menu_from_tlc(mc, "MENUQ")
    menu_f = menu_from_tlc(mc, "MENUF")
    types = ["A", "B", "C", "D", "E", "F"]
    resolves = [{"op": "res", "t": t} for t in types]

    # ---- 2. histories -------------------------------------------------------------------------------
    histories = []

    def exhaustive(menu, depth):
        ops = menu + resolves
        for seq in itertools.product(ops, repeat=depth):
            if seq[-1]["op"] != "res" or seq[0]["op"] != "reg":
                continue
            histories.append((list(seq), "ex%d" % depth))

    exhaustive(menu_q, 3)
    if thorough:
        exhaustive(menu_q, 4)
        exhaustive(menu_f, 3)
    nrand = 40000 if thorough else 3000
    for _ in range(nrand):
        n = rng.randint(4, 12)
        menu = menu_f
        seq = [rng.choice(menu) if rng.random() < 0.45 else rng.choice(resolves) for _ in range(n)]
        seq.append(rng.choice(resolves))
        histories.append((seq, "rand"))
    ck.exhaustive = True
    ck.rule = ("histories = all sequences of register/resolve over the menu printed by TLC from MC_Registry "
               "(depth 3 quick; depth 4 + full menu thorough) plus seeded random histories of length 5-13; each "
               "run on fresh real registries (cache on/off) and a sample through the global transformer and "
               "encoder registries; distinct_nontrivial = distinct operation shapes that contain a resolve "
               "after at least two matching registrations or a registration after a resolve of the same type")

    # ---- 3. run on the real code, record ----------------------------------------------------------
    by_cfg = {"TRUE": [], "FALSE": []}
    recs = {}
    n = 0
    for i, (ops, src) in enumerate(histories):
        variants = ["cache", "nocache"]
        if src == "rand" and i % 8 == 0:
            variants += ["global", "encoder"]
        elif src != "rand" and i % 40 == 0:
            variants += ["global", "encoder"]
        for v in variants:
            n += 1
            steps = run_history(ops, v, n)
            rid = "c16-%s-%d" % (v, n)
            rec = {"id": rid, "variant": v, "src": src, "steps": steps}
            recs[rid] = (rec, ops)
            by_cfg["FALSE" if v == "nocache" else "TRUE"].append(rec)
            ck.sample({"id": rid, "variant": v, "history": shape(steps),
                       "results": [s["fn"] for s in steps if s["op"] == "res"]})
        if nontrivial(ops):
            ck.keys.add(shape(ops))
    # a type used through a Rule subclass of it: one fixed history (known finding: the subclass keeps the converter it was created with)
    a0 = {"op": "reg", "cls": ["A"], "allow": False, "prio": 0, "attr": "none", "meta": "none", "det": "none"}
    n += 1
    wrec = {"id": "c16-rule-%d" % n, "variant": "rule", "src": "witness", "steps": run_history([a0, {"op": "res", "t": "A"}, a0, {"op": "res", "t": "A"}], "rule", n)}
    recs[wrec["id"]] = (wrec, [])
    by_cfg["TRUE"].append(wrec)
    # ---- 4. TLC judges ------------------------------------------------------------------------------
    for c, rs in by_cfg.items():
        r = tlc.judge("Trace_Registry", "Trace_Registry_%s.cfg" % c, rs, workers=8)
        ck.mc(r, "Trace(cache=%s)" % c)
        expected = sum(len(x["steps"]) + 1 for x in rs)
        if r.distinct != expected:
            raise MachineryError("trace acceptance: TLC visited %d states, expected %d" % (r.distinct, expected))
        ck.judged(len(rs))
        for t in r.tagged("VIOL"):
            rec, ops = recs[t[1]]
            if rec["variant"] == "rule":
                ck.violation("C16|P_C16|rule-subclass-keeps-the-converter-it-was-created-with", t[2],
                             {"variant": "rule", "steps": rec["steps"], "failing_step": t[3], "shape": shape(rec["steps"])})
                continue
            ck.violation(abstract_key(rec["steps"], t[3], rec["variant"]), t[2], {"variant": rec["variant"], "steps": rec["steps"],
                                                                 "failing_step": t[3], "shape": shape(rec["steps"])})
        divs = r.tagged("DIV")
        if divs:
            ck.count("divergences", len(divs))
            ck.note("divergence: M (Registry.tla, Variant=fixed) does not explain %d resolve results, e.g. %s step %d"
                    % (len(divs), divs[0][1], divs[0][3]))
    layered_stage(ck, rng, thorough, types)
    ck.trusted = ["TLC 1.8", "harness/drivers/c16.py projection (function identity = registration sequence number)",
                  "real classes built to mirror Registry.tla's lattice"]
    ck.assumptions = ["types carrying a __transformer__/__encoder__ shortcut attribute are outside the property",
                      "a base= fallback one level deep"]
    return ck.finish()


def layered_stage(ck, rng, thorough, types):
    """a registry created with base=: LayeredRegistry.tla model-checked (the variant that caches the base's answer in the child refuted),
    every history of depth 3 over its menu and random longer ones run on real registries, judged by Trace_LayeredRegistry"""
    mc = tlc.run("MC_LayeredRegistry", "MC_LayeredRegistry_own.cfg")
    ck.mc(mc, "MC layered")
    if mc.invariant_violated:
        ck.count("model_only_counterexamples")
        ck.note("model-level counterexample: LayeredRegistry (as coded) violates %s" % mc.invariant_violated)
    if not tlc.run("MC_LayeredRegistry", "MC_LayeredRegistry_all.cfg").invariant_violated:
        raise MachineryError("P_Layered not falsified when the child caches the answer of its base")
    ck.count("orig_variant_refuted_by_TLC")
    menu = menu_from_tlc(mc, "MENUL")
    ops = menu + [dict(m, op="regb") for m in menu] + [{"op": "res", "t": t} for t in types]
    hist = [list(seq) for seq in itertools.product(ops, repeat=3) if seq[-1]["op"] == "res" and seq[0]["op"] != "res"]
    for _ in range(6000 if thorough else 600):
        hist.append([rng.choice(ops) for _ in range(rng.randint(4, 9))] + [{"op": "res", "t": rng.choice(types)}])
    recs = []
    for i, h in enumerate(hist):
        recs.append({"id": "c16-layered-%d" % i, "variant": "layered", "steps": run_history(h, "layered", i)})
    r = tlc.judge("Trace_LayeredRegistry", "Trace_LayeredRegistry.cfg", recs, workers=8)
    expected = sum(len(x["steps"]) + 1 for x in recs)
    if r.distinct != expected:
        raise MachineryError("trace acceptance (layered registry): TLC visited %d states, expected %d" % (r.distinct, expected))
    ck.states += r.distinct
    ck.transitions += r.generated
    ck.judged(len(recs))
    ck.count("layered_histories", len(recs))
    byid = {x["id"]: x for x in recs}
    for x in recs:
        if nontrivial([dict(o, op="reg") if o["op"] == "regb" else o for o in x["steps"]]):
            ck.keys.add("L|" + ">".join(o["op"] + (o.get("t") or "".join(o.get("cls", []))) for o in x["steps"]))
    for t in r.tagged("VIOL"):
        x = byid[t[1]]
        ck.violation("C16|P_Layered|%s" % ">".join(o["op"] for o in x["steps"][:t[3]]), t[2],
                     {"variant": "layered", "steps": x["steps"], "failing_step": t[3], "shape": ">".join(o["op"] for o in x["steps"])})
    dv = r.tagged("DIV")
    if dv:
        ck.count("divergences", len(dv))
        ck.note("divergence: LayeredRegistry does not explain %d lookup results, e.g. %s step %d" % (len(dv), dv[0][1], dv[0][3]))


def nontrivial(ops):
    regs = 0
    seen_res = False
    for o in ops:
        if o["op"] == "reg":
            if seen_res:
                return True
            regs += 1
        else:
            seen_res = True
    return regs >= 2


def replay(path):
    d = json.load(open(path))
    rec = d["record"]
    ops = [s if s["op"] in ("reg", "regb") else {"op": "res", "t": s["t"]} for s in rec["steps"]]
    steps = run_history(ops, rec["variant"], 1)
    print("recorded:", [s["fn"] for s in rec["steps"] if s["op"] == "res"])
    print("now     :", [s["fn"] for s in steps if s["op"] == "res"])
    if rec["variant"] == "layered":
        r = tlc.judge("Trace_LayeredRegistry", "Trace_LayeredRegistry.cfg", [{"id": "replay", "variant": "layered", "steps": steps}], workers=1)
        v = r.tagged("VIOL")
        print("VIOLATION property=C16 replay=%s" % path if v else "replay: property holds now")
        return 1 if v else 0
    r = tlc.judge("Trace_Registry", "Trace_Registry_%s.cfg" % ("FALSE" if rec["variant"] == "nocache" else "TRUE"),
                  [{"id": "replay", "variant": rec["variant"], "steps": steps}], workers=1)
    v = r.tagged("VIOL")
    print("VIOLATION property=C16 replay=%s" % path if v else "replay: property holds now")
    return 1 if v else 0
