"""C02 -- validation is exact on well-typed values and agrees with isinstance.

The grid (every constraint of the menu x bounds x values adjacent to every boundary, digit tuples, PyEq-duplicates,
contains counts) is built by the harness as real Python values, projected to facts (harness/alpha.py) and
  - run through the real constrained type (T(x) and isinstance(x, T)),
  - given to TLC (Trace_Constraints): M-layer Constraints!RunStrict (validators as coded) against the P-layer
    Values!SatDoc on every grid point (model-level check, exhaustive over the grid), and P_Exact / P_Unaltered /
    P_IsInstance on what the real code did (verdict).
"""
import decimal
import fractions
import json
import math
import random
import re

from .. import tlc
from .. import gen
from ..alpha import alpha, exc_names
from ..core import Check, MachineryError

D = decimal.Decimal


def rank_encode(case_nums, rec_list):
    """order-only encoding for comparison cases whose numbers are not exactly encodable: every number of the case
    (bounds, value, result) is replaced by its rank in the exact order (fractions.Fraction is exact)."""
    exact = sorted(set(case_nums))
    rk = {v: i for i, v in enumerate(exact)}
    return rk


def frac(x):
    if isinstance(x, float) and (x != x or x in (float("inf"), float("-inf"))):
        return None
    try:
        return fractions.Fraction(x)
    except Exception:
        return None


def systematic():
    """yield (origin name, [constraint specs], [values])"""
    B = [0, 5, -2]
    for c in ("gt", "ge", "lt", "le"):
        for b in B:
            yield "int", [(c, b)], [b - 2, b - 1, b, b + 1, b + 2, True, False]
        yield "int", [(c, 2.5)], [1, 2, 3, 4]
        for b in (0.5, 1.0, -0.25, 0.1, 1e16):
            vals = [b, math.nextafter(b, math.inf), math.nextafter(b, -math.inf), b + 0.5, b - 0.5, -b, 0.0]
            yield "float", [(c, b)], vals
        yield "float", [(c, 1)], [0.5, 1.0, 1.5, math.nextafter(1.0, 2), math.nextafter(1.0, 0), float("nan")]
        yield "float", [(c, 0.5)], [float("nan")]
        for b in (D("1.5"), D("0"), D("-0.10")):
            yield "Decimal", [(c, b)], [b, b + D("0.01"), b - D("0.01"), b + 1, b - 1, D("1.50"), D("-0.1")]
        yield "Decimal", [(c, 2)], [D("2"), D("2.0"), D("1.99"), D("2.01")]
    yield "int", [("ge", 0), ("le", 5)], list(range(-2, 8))
    yield "int", [("gt", 0), ("lt", 3)], list(range(-1, 5))
    for m in (2, 3, 5):
        yield "int", [("multiple_of", m)], list(range(-7, 13))
        yield "int", [("multiple_of", m), ("gt", 2)], list(range(-2, 12))
    for m in (0.5, 0.25, 2.0):
        yield "float", [("multiple_of", m)], [k / 8 for k in range(-9, 18)]
    yield "Decimal", [("multiple_of", 2)], [D(k) / D(2) for k in range(-5, 10)]
    ints = [0, 1, 9, 10, 99, 100, 999, 1000, -1, -10, -99, -100, 12345, 100000]
    for d in (1, 2, 3, 5):
        yield "int", [("max_digits", d)], ints
        yield "float", [("max_digits", d)], [0.5, 0.25, 0.125, 1.5, 12.5, 100.0, 0.05, 0.001, 123.456, 1e16, 1e22, -2.5, 1e-5, 99.99]
        yield "float", [("decimal_places", d)], [0.5, 0.25, 0.125, 1.5, 12.5, 100.0, 0.05, 0.001, 123.456, -2.5, 1e-5, 1.0, 3.0625]
    decs = []
    for sign in (0, 1):
        for digits in [(0,), (1,), (5,), (1, 0), (1, 5), (0, 5), (1, 0, 0), (1, 5, 0), (1, 2, 3), (9, 9, 9, 9)]:
            for ex in (-5, -4, -3, -2, -1, 0, 1, 2, 3, 5):
                decs.append(D((sign, digits, ex)))
    for d in (1, 2, 3, 4):
        yield "Decimal", [("max_digits", d)], decs
        yield "Decimal", [("decimal_places", d)], decs
    yield "Decimal", [("max_digits", 4), ("decimal_places", 2)], decs
    yield "Decimal", [("max_digits", 3), ("decimal_places", 3)], decs
    strs = ["", "a", "ab", "abc", "abcd", "abcde", "  ", "éé", "a\nb"]
    for n in (0, 1, 2, 3, 4):
        for c in ("length", "max_length", "min_length"):
            if c == "max_length" and n == 0:
                continue
            yield "str", [(c, n)], strs
            yield "bytes", [(c, n)], [s.encode("utf8") for s in strs]
            yield "list", [(c, n)], [[], [1], [1, 2], [1, 2, 3], [1, 2, 3, 4], [[]]]
            yield "tuple", [(c, n)], [(), (1,), (1, 2), (1, 2, 3), (1, 2, 3, 4)]
            yield "set", [(c, n)], [set(), {1}, {1, 2}, {1, 2, 3}, {1, 2, 3, 4}]
            yield "dict", [(c, n)], [{}, {"a": 1}, {"a": 1, "b": 2}, {"a": 1, "b": 2, "c": 3}]
    yield "str", [("min_length", 1), ("max_length", 3)], strs
    for n in (1, 2, 3):
        for c in ("length", "max_length", "min_length"):
            yield "int", [(c, n)], [5, 55, 555, -5, -55, 0, 1000]
    for pat in (r"a+", r"[0-9]{2}", r"a", r".*b", r"\d+\s*"):
        yield "str", [("regex", pat)], ["a", "aa", "ab", "12", "123", "b", "", "aab", "12 ", "a\n", "1\n"]
    yield "int", [("const", 1)], [1, 0, 2, True, False]
    yield "int", [("const", 0)], [1, 0, False, -0]
    yield "float", [("const", 1.0)], [1.0, 0.0, 1.5]
    yield "float", [("const", 1)], [1.0, 2.0]
    yield "str", [("const", "a")], ["a", "b", "", "A"]
    yield "bool", [("const", True)], [True, False]
    # a constant or an enumeration declared beside other constraints (known finding: the others are dropped)
    yield "int", [("enum", [1, 2, 3]), ("gt", 1)], [1, 2]
    yield "int", [("const", 1), ("multiple_of", 3)], [1]
    # None is a constant like any other (a rule without origin: every value is well typed)
    yield "", [("const", None)], [None, 0, False, "", "None", 1]
    yield "", [("const", 0)], [0, None, False, 0.0]
    yield "none", [("const", None)], [None]
    # the declared constant and the value of different but ==-equal types, in both directions
    yield "int", [("const", True)], [1, 0, 2]
    yield "int", [("const", False)], [0, 1]
    yield "float", [("const", True)], [1.0, 0.0]
    yield "int", [("const", 1.0)], [1, 2]
    yield "int", [("const", D("1"))], [1, 2]
    yield "Decimal", [("const", 1)], [D("1"), D("1.0"), D("2")]
    yield "float", [("const", D("1.5"))], [1.5]
    yield "Decimal", [("const", 1.5)], [D("1.5")]
    yield "str", [("const", b"a")], ["a"]
    yield "int", [("enum", [True, 2.0])], [1, 2, 0]
    yield "Decimal", [("const", D("1.5"))], [D("1.5"), D("1.50"), D("1.6")]
    yield "int", [("enum", [1, 2, 3])], [0, 1, 2, 3, 4, True, False]
    yield "int", [("enum", [0, 5])], [0, 5, False, True, 1]
    yield "str", [("enum", ["a", "b"])], ["a", "b", "c", "", "ab"]
    yield "float", [("enum", [0.5, 1])], [0.5, 1.0, 1.5]
    seqs = [[], [1], [1, 2], [1, 1], [1, True], [1, 1.0], [0, False], [[1], [1]], [[1], [2]], ["a", "a"], ["a", "b", "a"],
            [1, 2, 3, 1], [(1,), (1,)], [{"a": 1}, {"a": 1}], [None, None], [1, "1"], [D("1"), 1], [D("1.0"), D("1.00")]]
    yield "list", [("unique_items", True)], seqs
    yield "tuple", [("unique_items", True)], [tuple(tuple(x) if isinstance(x, list) else x for x in s) for s in seqs if all(not isinstance(e, dict) for e in s)]
    yield "list", [("unique_items", True), ("max_length", 2)], seqs


def contains_cases():
    pos = gen.rule("int", [gen.con("gt", 0)])
    lists = [[], [1], [-1], [1, 2], [1, -2], [-1, -2], [1, 2, 3], [0, 0, 5], ["a"], [1, "a"], [True], [2.5], [1, 2, -3, 4]]
    for minc, maxc in ((-1, -1), (2, -1), (-1, 1), (1, 2), (3, -1), (-1, 3), (2, 2)):
        yield gen.rule("list", contains=pos, minc=minc, maxc=maxc), lists
        yield gen.rule("tuple", contains=pos, minc=minc, maxc=maxc), [tuple(x) for x in lists]
    yield gen.rule("list", [gen.con("max_length", 3)], contains=gen.prim("str"), minc=1, maxc=-1), lists
    yield gen.rule("list", contains=gen.prim("int"), minc=-1, maxc=2), lists


def make_rule(origin, specs):
    cons = []
    for c, val in specs:
        if c in ("const",):
            cons.append(gen.con(c, None, vals=[val]))
            cons[-1]["py"] = val
        elif c == "enum":
            cons.append(gen.con(c, None, vals=val))
            cons[-1]["py"] = list(val)
        elif c == "regex":
            cons.append(gen.con(c, None, s="?"))
            cons[-1]["py"] = val
        elif c == "unique_items":
            cons.append(gen.con(c, None))
            cons[-1]["py"] = True
        else:
            cons.append(gen.con(c, val))
    return gen.rule(origin, cons)


NUMC = ("gt", "ge", "lt", "le")


def encode_case(T, x, out):
    """records for TLC.  Comparison constraints are sent order-encoded when a number of the case is not exactly
    encodable (floats next to a bound, 1e16, ...)."""
    Tt = gen.strip(T)
    xr = alpha(x)
    outr = alpha(out) if out is not None else None
    nums = [c for c in T["cons"] if c["c"] in NUMC]
    if isinstance(x, float) and x != x and all(frac(c["py"]) is not None and abs(frac(c["py"]).numerator) <= 30000 and frac(c["py"]).denominator <= 30000
                                              for c in nums):
        return Tt, xr, outr             # a NaN against exactly encodable bounds: Values!IsNaN decides
    if nums:
        exact = {}
        vals = [c["py"] for c in nums] + [x] + ([out] if outr is not None and isinstance(out, (int, float, D)) else [])
        fr = [frac(v) for v in vals]
        if any(f is None for f in fr):
            return None
        if xr["k"].endswith("x") or any(abs(f.numerator) > 30000 or f.denominator > 30000 for f in fr):
            order = sorted(set(fr))
            rk = {f: i for i, f in enumerate(order)}
            for c, tc in zip(T["cons"], Tt["cons"]):
                if c["c"] in NUMC:
                    tc["n"], tc["d"] = rk[frac(c["py"])], 1
            xr = dict(xr, k={"floatx": "float", "decx": "dec", "intx": "int"}.get(xr["k"], xr["k"]), n=rk[frac(x)], d=1)
            if outr is not None and isinstance(out, (int, float, D)) and frac(out) is not None:
                outr = dict(outr, k={"floatx": "float", "decx": "dec", "intx": "int"}.get(outr["k"], outr["k"]), n=rk[frac(out)], d=1)
    return Tt, xr, outr


def judgeable(T, xr):
    """cases the exact universe cannot express are not judged (counted)"""
    for c in T["cons"]:
        if c["c"] == "multiple_of" and (xr["k"].endswith("x") or abs(xr["n"]) > 30000 or xr["d"] > 30000):
            return False
        if c["c"] in ("max_digits", "decimal_places") and (not xr["dg"] or (set(xr["dg"]) == {0} and xr["ex"] > 0)):
            return False
    return True


def run_case(T, x, n):
    from utype.utils.exceptions import ConfigError
    try:
        t = T.get("_built") or gen.build(T)
        T["_built"] = t
    except Exception as e:
        return None, "refused: %s" % type(e).__name__
    out, ok, exc = None, True, []
    try:
        out = t(x)
    except Exception as e:
        ok, exc = False, exc_names(e)
    try:
        isinst = bool(isinstance(x, t))
    except Exception as e:
        isinst = "EXC:" + type(e).__name__
    Tc = {k: v for k, v in T.items() if k != "_built"}
    # regex facts: re.fullmatch is the documented sense; logged per case
    for c in Tc["cons"]:
        if c["c"] == "regex":
            c = c
    enc = encode_case(Tc, x, out if ok else None)
    if enc is None:
        return None, "not encodable"
    Tt, xr, outr = enc
    for c, tc in zip(Tc["cons"], Tt["cons"]):
        if c["c"] == "regex":
            tc["s"] = "match" if re.fullmatch(c["py"], str(x)) else "nomatch"
    if not judgeable(Tc, xr):
        return None, "outside the exact universe"
    if not isinstance(isinst, bool):
        isinst_b, isx = False, isinst
    else:
        isinst_b, isx = isinst, ""
    cacc = []
    if Tc["contains"]:
        ct = gen.build(Tc["contains"][0])
        for e in x:
            try:
                ct(e)
                cacc.append(True)
            except Exception:
                cacc.append(False)
    return {"id": "c02-%d" % n, "cacc": cacc, "T": Tt, "x": xr, "ok": ok, "out": outr if outr is not None else xr, "isinst": isinst_b,
            "isx": isx, "exc": exc, "repr": repr(x)[:60], "cons": [[c["c"], repr(c["py"])[:40]] for c in Tc["cons"]] +
            ([["contains", Tc["minc"], Tc["maxc"]]] if Tc["contains"] else [])}, None


def key_of(rec, clause):
    return "C02|%s|%s|%s|%s" % (clause, rec["T"]["name"], "+".join(c[0] for c in rec["cons"]), rec["x"]["t"][0])


def random_cases(rng, n):
    for _ in range(n):
        kind = rng.choice(["int", "float", "Decimal", "str", "list"])
        if kind == "int":
            b = rng.randint(-20, 20)
            specs = [(rng.choice(NUMC), rng.choice([b, b + 0.5]))]
            if rng.random() < 0.4:
                specs.append(("multiple_of", rng.choice([2, 3, 4, 7])))
            if rng.random() < 0.2:
                specs.append(("max_digits", rng.choice([1, 2])))
            vals = [b + rng.randint(-3, 3) for _ in range(4)]
        elif kind == "float":
            b = rng.choice([rng.uniform(-5, 5), rng.randint(-3, 3) / 4, 10.0 ** rng.randint(-8, 18)])
            specs = [(rng.choice(NUMC), b)]
            vals = [b, math.nextafter(b, math.inf), math.nextafter(b, -math.inf), b * (1 + 2 ** -40), rng.uniform(-6, 6)]
        elif kind == "Decimal":
            sign, ex = rng.randint(0, 1), rng.randint(-6, 4)
            digits = tuple(rng.randint(0, 9) for _ in range(rng.randint(1, 5)))
            specs = [(rng.choice(["max_digits", "decimal_places"]), rng.randint(1, 5))]
            if rng.random() < 0.5:
                specs.append((rng.choice(NUMC), D(rng.randint(-50, 50)) / 10))
            vals = [D((sign, digits, ex)), D((sign, digits, ex + 1)), D((1 - sign, digits[::-1], ex)), D((sign, (0,) + digits, ex - 1))]
        elif kind == "str":
            n_ = rng.randint(0, 6)
            specs = [(rng.choice(["length", "max_length", "min_length"]), max(n_, 1))]
            vals = ["x" * (n_ + d) for d in (-1, 0, 1) if n_ + d >= 0] + ["é" * n_]
        else:
            specs = [("unique_items", True)] + ([("max_length", rng.randint(1, 4))] if rng.random() < 0.5 else [])
            pool = [1, True, 1.0, 0, False, "a", "1", 2, None, (1,), D("1")]
            vals = [[rng.choice(pool) for _ in range(rng.randint(0, 4))] for _ in range(4)]
        yield kind, specs, vals


def well_typed(origin, x):
    return type(x) is gen.PRIMS[origin]          # exactly the source type (subclass semantics such as bool/int are left out)


def main():
    ck = Check("C02")
    thorough = ck.tier == "thorough"
    rng = random.Random(ck.seed)
    cases = []
    for origin, specs, vals in systematic():
        cases.append((make_rule(origin, specs), vals))
    for T, vals in contains_cases():
        cases.append((T, vals))
    for origin, specs, vals in random_cases(rng, 6000 if thorough else 500):
        cases.append((make_rule(origin, specs), vals))
    # the strict rules of the MC_Constraints universe (model-checked, exported by TLC; harness/drivers/c03.py: universe)
    from . import c03
    uni = c03.universe(ck, strict_only=True)
    cases += uni
    ck.count("universe_cases_replayed_into_code", sum(len(v) for _, v in uni))
    records, n = [], 0
    for T, vals in cases:
        for x in vals:
            if T["name"] and not well_typed(T["name"], x):
                continue
            n += 1
            rec, why = run_case(T, x, n)
            if rec is None:
                ck.count("not_judged: " + why)
                continue
            records.append(rec)
    byid = {r["id"]: r for r in records}
    r = tlc.judge("Trace_Constraints", "Trace_Constraints.cfg", records, workers=8)
    ck.mc(r, "Trace/MC over the grid")
    if r.distinct != len(records):
        raise MachineryError("trace acceptance: TLC visited %d states, expected %d" % (r.distinct, len(records)))
    ck.judged(len(records))
    for rec in records:
        ck.keys.add("%s|%s|%s|%s" % (rec["T"]["name"], "+".join(c[0] for c in rec["cons"]), rec["x"]["t"][0], rec["ok"]))
    for rec in records[:3] + records[-3:]:
        ck.sample({"id": rec["id"], "origin": rec["T"]["name"], "constraints": rec["cons"], "value": rec["repr"], "accepted": rec["ok"], "isinstance": rec["isinst"]})
    for t in r.tagged("VIOL"):
        rec = byid[t[1]]
        ck.violation(key_of(rec, t[2]), t[2], {k: rec[k] for k in ("T", "x", "ok", "out", "isinst", "isx", "exc", "repr", "cons")})
    mv = r.tagged("MVIOL")
    if mv:
        ck.count("model_only_counterexamples", len(mv))
        for t in mv[:8]:
            ck.note("model-level: Constraints!RunStrict differs from SatDoc on %s %s" % (byid[t[1]]["cons"], byid[t[1]]["repr"]))
    dv = r.tagged("DIV")
    if dv:
        ck.count("divergences", len(dv))
        for t in dv[:8]:
            ck.note("divergence: M (validators as coded) predicts a different verdict for %s %s (real ok=%s)" % (
                byid[t[1]]["cons"], byid[t[1]]["repr"], byid[t[1]]["ok"]))
    ck.exhaustive = True
    ck.rule = ("grid = for every constraint of the menu (gt ge lt le length max_length min_length multiple_of max_digits "
               "decimal_places regex const enum unique_items contains/min_contains/max_contains, pairs of them) and every "
               "origin it applies to: bounds x all values adjacent to the boundary (b-2..b+2, +-1 ulp, +-0.01), digit tuples "
               "x exponents -5..5 x sign, lengths 0..5, PyEq-duplicate lists; plus seeded random cases; only values that "
               "already have the source type; distinct_nontrivial = distinct (origin, constraint set, value type, verdict)")
    ck.trusted = ["TLC 1.8", "harness/alpha.py (exact rationals via fractions.Fraction, Decimal.as_tuple, order encoding for "
                  "numbers next to a bound)", "Python re.fullmatch as the documented sense of regex"]
    ck.assumptions = ["multiple_of judged on exactly representable operands only", "const between float and Decimal not judged"]
    return ck.finish()


def replay(path):
    d = json.load(open(path))
    print(json.dumps({k: d["record"][k] for k in ("cons", "repr", "ok", "isinst", "exc")}))
    print("re-run the quick check to re-evaluate this grid point (grid points are regenerated, not stored as code)")
    ck_rc = main()
    return ck_rc
