"""C07 -- data-class instances stay valid under every sequence of mutations.

MC:   SchemaObj.tla (operations as coded) explored exhaustively over the class family / operation alphabet of
      MC_SchemaObj; model-level violations of Valid/StepOk/CopyOk are printed as directed scenarios.
S->C: classes are built for real from the declarations TLC prints; every history over TLC's own operation
      alphabet up to a depth and seeded random longer ones (plus random class variants) are run on real instances.
C->S: after every operation the instance (and its copy) is projected (mapping in order, getattr per field,
      __dict__) and Trace_SchemaObj (TLC) evaluates the P-layer on every step: that is the verdict.
"""
import itertools
import json
import os
import random

from .. import tlc
from ..core import Check, MachineryError

NB = -1000


# ---- values: abstract record <-> python ------------------------------------------------------------------
def V(k, t, n=0, s="", lit=False):
    return {"k": k, "t": t, "n": n, "s": s, "ln": len(s), "lit": lit}


VFAIL = V("FAIL", [])


def alpha(x):
    """Python value -> abstract record (facts only)."""
    mro = [c.__name__ for c in type(x).__mro__]
    if x is None:
        return V("none", mro)
    if type(x) is bool:
        return V("bool", mro, int(x))
    if isinstance(x, int):
        if abs(x) < 2 ** 30:
            return V("int" if type(x) is int else "intsub", mro, x)
        return V("bigint", mro, 0, "big")
    if isinstance(x, (str, bytes)):
        s = x if isinstance(x, str) else x.decode("latin-1")
        asc = "".join(c if 32 <= ord(c) < 127 and c not in '"\\' else "?" for c in s)
        lit = False
        n = 0
        try:
            if str(int(s)) == s and abs(int(s)) < 2 ** 30:
                lit, n = True, int(s)
        except ValueError:
            pass
        r = V("str" if isinstance(x, str) else "bytes", mro, n, asc, lit)
        r["ln"] = len(x)
        return r
    return V("other", mro, 0, type(x).__name__)


def concretise_std(v):
    k = v["k"]
    if k == "int":
        return v["n"]
    if k == "bool":
        return bool(v["n"])
    if k == "str":
        return v["s"]
    if k == "bytes":
        return v["s"].encode()
    if k == "none":
        return None
    if k == "float":
        return float(v["n"])
    raise ValueError(v)


concretise = concretise_std


# ---- declarations -> real classes ---------------------------------------------------------------------------
def build_class(decl):
    from utype import Schema, DataClass, Field, Options
    ann, ns = {}, {}
    for f in decl["fields"]:
        cons = {}
        if f["lo"] != NB:
            cons["ge"] = f["lo"]
        if f["hi"] != NB:
            cons["le"] = f["hi"]
        if f["maxlen"] != NB:
            cons["max_length"] = f["maxlen"]
        if f["prop"]:
            def fget(self, _dep=f["dep"], _mul=f["mul"]):
                return getattr(self, _dep) * _mul
            fget.__name__ = f["att"]
            fget.__annotations__ = {"return": int}
            ns[f["att"]] = property(Field(dependencies=[f["dep"]], **cons)(fget))
            continue
        kw = dict(cons)
        if not f["req"]:
            kw["required"] = False
        if f["hasdef"]:
            kw["default"] = concretise(f["def"])
        if f["imm"]:
            kw["immutable"] = True
        if f["noout"]:
            kw["no_output"] = True
        if f["out"] != f["att"]:
            kw["alias"] = f["out"]
        af = sorted(set(f["keys"]) - {f["att"], f["out"]})
        if af:
            kw["alias_from"] = af
        ann[f["att"]] = {"int": int, "str": str}[f["ty"]]
        ns[f["att"]] = Field(**kw)
    ns["__annotations__"] = ann
    add = {"none": None, "any": True, "int": int, "forbid": False}[decl["addition"]]
    okw = {} if add is None else {"addition": add}
    if decl.get("collect"):
        okw["collect_errors"] = True        # changes how a parse reports its errors; an assignment still has to refuse a bad value
    if okw:
        ns["__options__"] = Options(**okw)
    base = Schema if decl["base"] == "Schema" else DataClass
    return type(decl["name"], (base,), ns)


def view(decl, inst):
    """Projection of one instance: mapping in order, getattr per field, __dict__ (fields and additions only)."""
    if inst is None:
        return {"data": [], "attrs": [{"k": f["att"], "v": VFAIL} for f in decl["fields"]], "ad": []}
    data = []
    if decl["base"] == "Schema":
        data = [{"k": str(k), "v": alpha(v)} for k, v in dict.items(inst)]
    attrs = []
    for f in decl["fields"]:
        try:
            attrs.append({"k": f["att"], "v": alpha(getattr(inst, f["att"]))})
        except Exception:
            attrs.append({"k": f["att"], "v": VFAIL})
    ad = [{"k": k, "v": alpha(v)} for k, v in inst.__dict__.items() if not k.startswith("__")]
    return {"data": data, "attrs": attrs, "ad": ad}


def run_history(decl, cls, inp, ops):
    """ops: list of (tgt, op) ; op = {op,key,v,kvs,hasd}.  Returns the trace record body."""
    insts = {1: None, 2: None}
    steps = []
    o0 = {"op": "new", "key": "", "v": alpha(None), "kvs": inp, "hasd": False}
    raised, exc = False, []
    try:
        insts[1] = cls(**{kv["k"]: concretise(kv["v"]) for kv in inp})
    except Exception as e:
        raised, exc = True, [c.__name__ for c in type(e).__mro__]
    steps.append({"o": o0, "tgt": 1, "raised": raised, "exc": exc, "live": [insts[1] is not None, False],
                  "views": [view(decl, insts[1]), view(decl, None)]})
    inits = [steps[0]["views"][0], view(decl, None)]
    if insts[1] is None:
        return steps, inits
    for tgt, o in ops:
        if insts[tgt] is None:
            continue
        raised, exc = False, []
        i = insts[tgt]
        try:
            op = o["op"]
            if op == "copy":
                if insts[2] is not None or tgt != 1 or decl["base"] != "Schema":
                    continue
                insts[2] = i.copy()
                inits[1] = view(decl, insts[2])
            elif op == "setattr":
                setattr(i, o["key"], concretise(o["v"]))
            elif op == "setitem":
                i[o["key"]] = concretise(o["v"])
            elif op == "delattr":
                delattr(i, o["key"])
            elif op == "delitem":
                del i[o["key"]]
            elif op == "pop":
                i.pop(o["key"], None) if o["hasd"] else i.pop(o["key"])
            elif op == "popitem":
                i.popitem()
            elif op == "clear":
                i.clear()
            elif op == "setdefault":
                i.setdefault(o["key"], concretise(o["v"]))
            elif op == "update":
                i.update({kv["k"]: concretise(kv["v"]) for kv in o["kvs"]})
            elif op == "updatekw":
                i.update(**{kv["k"]: concretise(kv["v"]) for kv in o["kvs"]})
            elif op == "ior":
                i |= {kv["k"]: concretise(kv["v"]) for kv in o["kvs"]}
                insts[tgt] = i
            else:
                continue
        except Exception as e:
            raised, exc = True, [c.__name__ for c in type(e).__mro__]
        steps.append({"o": o, "tgt": tgt, "raised": raised, "exc": exc,
                      "live": [True, insts[2] is not None],
                      "views": [view(decl, insts[1]), view(decl, insts[2])]})
    return steps, inits


# ---- scenario keys -------------------------------------------------------------------------------------------
def field_kind(decl, key, by_att=False):
    for f in decl["fields"]:
        if (key == f["att"]) if by_att else (key in f["keys"]):
            tags = [t for t in ("req", "imm", "noout", "prop") if f[t]]
            if f["out"] != f["att"]:
                tags.append("alias")
            if any(g["prop"] and g["dep"] == f["att"] for g in decl["fields"]):
                tags.append("dep")
            return "+".join(tags) or "plain"
    return "extra"


def step_key(decl, clause, step):
    o = step["o"]
    if o["op"] in ("update", "ior", "updatekw"):
        tgt = ",".join(field_kind(decl, kv["k"]) for kv in o["kvs"])
    elif o["op"] in ("popitem", "clear", "copy", "new"):
        tgt = "-"
    else:
        tgt = field_kind(decl, o["key"], by_att=o["op"] in ("setattr", "delattr"))
    return "C07|%s|%s|%s(%s)%s" % (clause, decl["base"], o["op"], tgt, "|raised" if step["raised"] else "")


def short(v):
    return {"int": str(v["n"]), "str": repr(v["s"]), "bytes": "b" + repr(v["s"]), "none": "None"}.get(v["k"], v["k"])


def shape(steps):
    out = []
    for s in steps:
        o = s["o"]
        arg = ",".join("%s=%s" % (kv["k"], short(kv["v"])) for kv in o["kvs"]) if o["kvs"] else \
            ",".join(x for x in (o["key"], short(o["v"]) if o["op"] in ("setattr", "setitem", "setdefault") else "") if x)
        out.append("%s%s(%s)%s" % ("c." if s["tgt"] == 2 else "", o["op"], arg, "!" if s["raised"] else ""))
    return ";".join(out)


def tla_decl(d):
    d = dict(d)
    d["fields"] = [dict(f, keys=list(f["keys"])) for f in d["fields"]]
    return d


def random_decl(rng, n):
    """A random class of the same feature set (fields r/o/u/... with random features)."""
    base = rng.choice(["Schema", "Schema", "DataClass"])
    fields = []
    names = ["a", "b", "c", "d", "e"]
    rng.shuffle(names)
    for att in names[:rng.randint(2, 5)]:
        ty = rng.choice(["int", "int", "str"])
        f = {"att": att, "out": att, "keys": [att], "ty": ty, "lo": NB, "hi": NB, "maxlen": NB, "req": False,
             "hasdef": False, "def": VFAIL, "imm": False, "noout": False, "prop": False, "dep": "", "mul": 0}
        if ty == "int":
            if rng.random() < 0.5:
                f["lo"] = rng.choice([0, 1, 3])
            if rng.random() < 0.4:
                f["hi"] = rng.choice([9, 12, 20])
        else:
            if rng.random() < 0.7:
                f["maxlen"] = rng.choice([1, 3, 4])
        r = rng.random()
        if r < 0.3:
            f["req"] = True
        elif r < 0.6:
            f["hasdef"] = True
            f["def"] = alpha(rng.choice([3, 5]) if ty == "int" else "d")
        if rng.random() < 0.2:
            f["imm"] = True
        if rng.random() < 0.2 and base == "Schema":
            f["noout"] = True
        if rng.random() < 0.3:
            f["out"] = att.upper() * 2
            f["keys"] = sorted({att, f["out"], att + "9"} if rng.random() < 0.5 else {att, f["out"]})
        fields.append(f)
    if base == "Schema":
        ints = [f for f in fields if f["ty"] == "int"]
        for j, dep in enumerate(ints[:rng.randint(0, 2)]):
            fields.append({"att": "p%d" % j, "out": "p%d" % j, "keys": ["p%d" % j], "ty": "int", "lo": NB,
                           "hi": rng.choice([NB, NB, 30]), "maxlen": NB, "req": False, "hasdef": False, "def": VFAIL,
                           "imm": False, "noout": False, "prop": True, "dep": dep["att"], "mul": rng.choice([2, 3])})
    return {"name": "R%d" % n, "base": base, "addition": rng.choice(["none", "any", "int", "forbid"]) if base == "Schema" else "none",
            "fields": fields}


POOL = [-1, 0, 2, 5, 12, 40, "4", "12", "-3", "ab", "abcd", "", b"xy", b"7", None, True, 2.0, 2.5, [1]]


def alpha_any(x):
    if isinstance(x, float):
        r = V("float", [c.__name__ for c in type(x).__mro__], int(x), repr(x))
        return r
    if isinstance(x, list):
        return V("other", ["list", "object"], 0, "list")
    return alpha(x)


def concretise_any(v):
    if v["k"] == "float":
        return float(v["s"])
    if v["k"] == "other":
        return [1]
    return concretise_std(v)


def random_ops(rng, decl, n):
    keys = sorted({k for f in decl["fields"] for k in f["keys"]}) + ["zz", "yy"]
    atts = [f["att"] for f in decl["fields"]]
    ops = []
    has_copy = False
    for _ in range(n):
        tgt = 2 if has_copy and rng.random() < 0.4 else 1
        val = alpha_any(rng.choice(POOL))
        if decl["base"] == "DataClass":
            kind = rng.choice(["setattr", "setattr", "delattr"])
        else:
            kind = rng.choice(["setattr", "setitem", "setitem", "delattr", "delitem", "pop", "pop", "popitem", "clear",
                               "setdefault", "update", "ior", "updatekw", "copy"])
        o = {"op": kind, "key": "", "v": alpha(None), "kvs": [], "hasd": False}
        if kind in ("setattr", "delattr"):
            o["key"] = rng.choice(atts)
            if kind == "setattr":
                o["v"] = val
        elif kind in ("setitem", "delitem", "pop", "setdefault"):
            o["key"] = rng.choice(keys)
            o["hasd"] = kind == "pop" and rng.random() < 0.5
            if kind in ("setitem", "setdefault"):
                o["v"] = val
        elif kind in ("update", "ior", "updatekw"):
            ks = rng.sample(keys, rng.randint(1, 2))
            o["kvs"] = [{"k": k, "v": alpha_any(rng.choice(POOL))} for k in ks]
        elif kind == "copy":
            if has_copy:
                continue
            has_copy = True
            tgt = 1
        ops.append((tgt, o))
    return ops


def random_input(rng, decl):
    inp = []
    for f in decl["fields"]:
        if f["prop"]:
            continue
        if f["req"] or rng.random() < 0.6:
            k = rng.choice(sorted(f["keys"]))
            if f["ty"] == "int":
                lo = f["lo"] if f["lo"] != NB else 0
                v = lo + rng.randint(0, 2)
                v = rng.choice([v, str(v)])
            else:
                v = rng.choice(["a", "b"])
            inp.append({"k": k, "v": alpha(v)})
    if decl["addition"] in ("any", "int") and rng.random() < 0.5:
        inp.append({"k": "zz", "v": alpha(9)})
    return inp


def main():
    global concretise
    ck = Check("C07")
    thorough = ck.tier == "thorough"
    rng = random.Random(ck.seed)
    import os
    scale = float(os.environ.get("VERIF_SCALE", "1"))
    npairs = int((20000 if thorough else 1000) * scale)
    records = []
    meta = {}
    nid = [0]

    def record(decl, cls, inp, ops, src):
        steps, inits = run_history(decl, cls, inp, ops)
        nid[0] += 1
        rid = "c07-%d" % nid[0]
        rec = {"id": rid, "decl": decl, "inits": inits, "steps": steps}
        records.append(rec)
        meta[rid] = (rec, src)
        return rec

    # ---- 1. MC of the mechanism model; alphabet/classes from TLC --------------------------------------------
    family = {}
    model_viol = set()
    for cname in ("S1", "S2", "D1"):
        mc = tlc.run("MC_SchemaObj", "MC_SchemaObj_%s_%d.cfg" % (cname, 3 if (thorough or cname == "D1") else 2), coverage=False)
        ck.mc(mc, "MC %s" % cname)
        for t in mc.tagged("MVIOL"):
            model_viol.add("%s|%s|%s(%s)" % (cname, t[1], t[2], t[3]))
        d = mc.tagged("DECL")
        if not d:
            raise MachineryError("TLC did not print DECL for %s" % cname)
        decl = tla_decl(d[0][1])
        inputs = [list(i) for i in mc.tagged("INPUTS")[0][1]["__set__"]]
        ops = mc.tagged("OPS")[0][1]["__set__"]
        family[cname] = (decl, inputs, sorted(ops, key=lambda o: json.dumps(o, sort_keys=True)))
    mo = tlc.run("MC_SchemaObj", "MC_SchemaObj_S1_orig.cfg", coverage=False)
    if not {t[2] for t in mo.tagged("MVIOL")} >= {"setdefault", "ior"}:
        raise MachineryError("the pinned-commit variant of SchemaObj (inherited dict.setdefault / |=) is not refuted: the property layer is vacuous")
    ck.count("orig_variant_refuted_by_TLC")
    ck.count("model_level_violation_shapes", len(model_viol))
    for m in sorted(model_viol)[:12]:
        ck.note("model-level counterexample (M as coded violates P; replayed on the real code below): " + m)

    # ---- 2. histories on the real code -------------------------------------------------------------------------
    copy_op = {"op": "copy", "key": "", "v": alpha(None), "kvs": [], "hasd": False}
    for cname, (decl, inputs, ops) in family.items():
        cls = build_class(decl)
        for inp in inputs:
            # every single operation, on the instance and on its copy
            for o in ops:
                record(decl, cls, inp, [(1, o)], "ex1")
                if decl["base"] == "Schema":
                    record(decl, cls, inp, [(1, copy_op), (2, o)], "ex1c")
            # every pair (depth 2) ; triples in the thorough tier are sampled
            pairs = list(itertools.product(ops, repeat=2))
            if len(pairs) > npairs:
                pairs = rng.sample(pairs, npairs)
            for a, b in pairs:
                record(decl, cls, inp, [(1, a), (1, b)], "ex2")
            if thorough:
                for _ in range(int(10000 * scale)):
                    seq = [(1, rng.choice(ops)) for _ in range(3)]
                    record(decl, cls, inp, seq, "ex3s")
        # long random walks over the TLC alphabet, with a copy somewhere; every other one on the class declared with collect_errors=True
        decl_c = dict(decl, collect=True)
        cls_c = build_class(decl_c)
        for wi in range(int((3000 if thorough else 200) * scale)):
            inp = rng.choice(inputs)
            seq = []
            copied = False
            for _ in range(rng.randint(4, 14)):
                if decl["base"] == "Schema" and not copied and rng.random() < 0.15:
                    seq.append((1, copy_op))
                    copied = True
                else:
                    seq.append((2 if copied and rng.random() < 0.4 else 1, rng.choice(ops)))
            if wi % 2:
                record(decl_c, cls_c, inp, seq, "walk+collect")
            else:
                record(decl, cls, inp, seq, "walk")
    # random class variants, wider value pool
    concretise = concretise_any
    try:
        for n in range(int((1500 if thorough else 100) * scale)):
            decl = random_decl(rng, n)
            decl["collect"] = bool(n % 2)
            try:
                cls = build_class(decl)
            except Exception as e:
                ck.count("not_judged_declaration_refused")
                continue
            for _ in range(4):
                record(decl, cls, random_input(rng, decl), random_ops(rng, decl, rng.randint(3, 12)), "randcls")
    finally:
        concretise = concretise_std

    # ---- 3. TLC judges every step of every history ---------------------------------------------------------------
    r = tlc.judge("Trace_SchemaObj", "Trace_SchemaObj.cfg", records, workers=16)
    ck.mc(r, "Trace")
    expected = sum(len(x["steps"]) for x in records)
    if r.distinct != expected:
        raise MachineryError("trace acceptance: TLC visited %d states, expected %d" % (r.distinct, expected))
    ck.judged(len(records))
    for rec in records:
        for s in rec["steps"][1:]:
            ck.keys.add(step_key(rec["decl"], "", s))
    for rec in records[:3] + records[-3:]:
        ck.sample({"id": rec["id"], "class": rec["decl"]["name"], "history": shape(rec["steps"]),
                   "final_mapping": {kv["k"]: short(kv["v"]) for kv in rec["steps"][-1]["views"][0]["data"]}})
    for t in r.tagged("VIOL"):
        rec, src = meta[t[1]]
        step = rec["steps"][t[3] - 1]
        key = step_key(rec["decl"], t[2], step)
        ck.violation(key, t[2], {"decl": rec["decl"], "input": rec["steps"][0]["o"]["kvs"],
                                 "ops": [[s["tgt"], s["o"]] for s in rec["steps"][1:t[3]]],
                                 "shape": shape(rec["steps"][:t[3]]), "failing_step": t[3], "src": src,
                                 "view_after": rec["steps"][t[3] - 1]["views"]})
    divs = r.tagged("DIV")
    if divs:
        ck.count("divergences", len(divs))
        kinds = {}
        for t in divs:
            rec, src = meta[t[1]]
            kinds.setdefault((src == "randcls", step_key(rec["decl"], "", rec["steps"][t[3] - 1])), (rec, t[3]))
        if os.environ.get("VERIF_DEBUG"):
            json.dump([[k, l, rec] for (rc, k), (rec, l) in sorted(kinds.items())], open(os.environ["VERIF_DEBUG"], "w"))
        for (rc, k), (rec, l) in sorted(kinds.items())[:25]:
            ck.note("divergence (M does not explain the real step; not a verdict)%s: %s  e.g. %s" % (
                " [random class]" if rc else "", k, shape(rec["steps"][:l])))
    ck.exhaustive = True
    ck.rule = ("histories = construction + every operation of the alphabet printed by TLC (MC_SchemaObj: 3 classes, "
               "all mutators x accepted keys x valid/convertible/invalid values), every pair of operations (sampled to "
               "1000 pairs per class/input in the quick tier, 20000 in the thorough tier), the same after copy(), random walks of length 4-14 and random class "
               "variants with a wider value pool; distinct_nontrivial = distinct (base class, operation, kind of "
               "field addressed, raised or not) step shapes observed")
    ck.trusted = ["TLC 1.8", "harness/drivers/c07.py projection (mapping order, getattr per field, __dict__)",
                  "classes generated from the declarations printed by TLC"]
    ck.assumptions = ["classes of the modelled feature set: int/str fields with bounds, required/default/immutable/aliased/"
                      "no_output fields, computed properties with one dependency, addition policies",
                      "atomicity judged for single-key operations only (update with several keys applies key by key)"]
    return ck.finish()


def replay(path):
    d = json.load(open(path))
    rec = d["record"]
    decl = rec["decl"]
    cls = build_class(decl)
    global concretise
    concretise = concretise_any
    steps, inits = run_history(decl, cls, rec["input"], [tuple(x) for x in rec["ops"]])
    print("history:", shape(steps))
    r = tlc.judge("Trace_SchemaObj", "Trace_SchemaObj_P.cfg", [{"id": "replay", "decl": decl, "inits": inits, "steps": steps}], workers=1)
    v = r.tagged("VIOL")
    for t in v:
        print("  clause %s at step %d" % (t[2], t[3]))
    print("VIOLATION property=C07 replay=%s" % path if v else "replay: property holds now")
    return 1 if v else 0
