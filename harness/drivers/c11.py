"""C11 -- exclude / preserve policies touch only the offending elements.

For every container kind (list, set, frozenset, variable-length tuple, deque, mapping keys, mapping values, data-class
fields, extra keys, *args / **kwargs of a decorated function), every placement of offending elements and the 3x3x3
policy combinations (plus per-field on_error), the harness observes each element alone (is it rejected, what is it
converted to), runs the real type under the policies and under 'throw' on the filtered input, and TLC
(Trace_ArgsPolicy) judges the result element by element against ArgsPolicy!Expected and against the filtered run.
"""
import collections
import itertools
import json
import random

from .. import tlc
from ..alpha import alpha, exc_names
from .. import looptrace
from ..core import Check, MachineryError

POL = ["throw", "exclude", "preserve"]
NONE = alpha(None)


def conv(t, x):
    from utype import type_transform
    try:
        return False, alpha(type_transform(x, t))
    except Exception:
        return True, alpha(x)


def entry(rawk, rawv, kt, vt, req=False):
    koff, ck = conv(kt, rawk) if kt is not None else (False, alpha(rawk))
    voff, cv = conv(vt, rawv) if vt is not None else (False, alpha(rawv))
    return {"rawk": alpha(rawk), "rawv": alpha(rawv), "ck": ck, "cv": cv, "koff": koff, "voff": voff, "req": req,
            "pol": "throw", "kpol": "throw"}


def result_of(fn, shape):
    try:
        v = fn()
    except Exception as e:
        return {"ok": False, "keys": [], "vals": [], "exc": exc_names(e)}
    if shape == "map":
        import utype
        items = list(dict.items(v)) if isinstance(v, dict) else list(v.items())
        return {"ok": True, "keys": [alpha(k) for k, _ in items], "vals": [alpha(x) for _, x in items], "exc": []}
    return {"ok": True, "keys": [], "vals": [alpha(x) for x in v], "exc": []}


ELEMS_GOOD = [1, "2", 3.0, True, b"4"]
ELEMS_BAD = ["x", None, [1, 2], "1.5x", {"a": 1}]


def seq_inputs(rng, n_random, elemT=int):
    """lists of elements with every subset of positions offending (length <= 3) + random longer ones; good / bad decided by observing
    each candidate alone under the element type"""
    pool = ELEMS_GOOD + ELEMS_BAD + [7, "8", -1, 0, "-3", [1], ["x"], [1, "y"], "a", "ab"]
    goods = [e for e in pool if not conv(elemT, e)[0]]
    bads = [e for e in pool if conv(elemT, e)[0]]
    out = []
    for n in range(0, 4):
        for mask in itertools.product([False, True], repeat=n):
            good = iter(goods * 2)
            bad = iter(bads * 2)
            out.append([next(bad) if m else next(good) for m in mask])
    for _ in range(n_random):
        out.append([rng.choice(bads if rng.random() < 0.4 else goods) for _ in range(rng.randint(1, 6))])
    return out


def hashable(x):
    try:
        hash(x)
        return True
    except TypeError:
        return False


def container_cases(rng, thorough):
    import typing
    import utype
    from utype import Options
    class PosInt(int, utype.Rule):
        gt = 0
    IntOrShort = utype.Rule.any_of(PosInt, utype.Rule.annotate(str, constraints=dict(max_length=1)))
    kinds = [("list", typing.List[int], list, "seq", True, int), ("set", typing.Set[int], set, "set", False, int),
             ("fset", typing.FrozenSet[int], frozenset, "set", False, int), ("tuple", typing.Tuple[int, ...], tuple, "seq", True, int),
             ("deque", typing.Deque[int], collections.deque, "seq", True, int),
             # element types that are themselves utype types: their errors go through the element's own context (nested containers are left
             # out: the policy applies inside them as well, so an element observed alone under 'throw' says nothing about them)
             ("list[PosInt]", typing.List[PosInt], list, "seq", True, PosInt), ("set[PosInt]", typing.Set[PosInt], set, "set", False, PosInt),
             ("tuple[PosInt]", typing.Tuple[PosInt, ...], tuple, "seq", True, PosInt),
             ("list[union]", typing.List[IntOrShort], list, "seq", True, IntOrShort)]
    for name, T, mk, shape, indexable, elemT in kinds:
        T = utype.Rule.parse_annotation(annotation=T)
        for elems in seq_inputs(rng, 60 if thorough else 8, elemT):
            if shape == "set":
                elems = [e for e in elems if hashable(e)]
                # a set keeps one of 1 / True / 1.0: avoid ==-equal elements so that positions stay distinguishable
                seen, uniq = [], []
                for e in elems:
                    if not any(e == s for s in seen):
                        seen.append(e)
                        uniq.append(e)
                elems = uniq
            x = mk(elems)
            ents = [entry(None, e, None, elemT) for e in x]
            # converted elements that collide in a set make the element-wise view ambiguous: skip
            if shape == "set" and len({json.dumps(e["cv"], sort_keys=True) for e in ents if not e["voff"]}) < len([e for e in ents if not e["voff"]]):
                continue
            filtered = mk([e for e in x if not conv(elemT, e)[0]])
            for pi, pk, pv in policy_combos(rng, thorough):
                opts = Options(invalid_items=pi, invalid_keys=pk, invalid_values=pv)
                r = result_of(lambda: utype.type_transform(x, T, options=opts), shape)
                r["steps"] = looptrace.observe_steps(lambda: utype.type_transform(x, T, options=opts), alpha, None, names=("_parse_seq_args", "_parse_map_args"))
                r["filtered"] = result_of(lambda: utype.type_transform(filtered, T), shape)
                c = {"kind": name, "shape": shape, "indexable": indexable, "pk": "throw", "pv": pi, "entries": ents,
                     "anyexclude": pi == "exclude", "pols": [pi, pk, pv]}
                yield c, r, repr(x)[:60]


def policy_combos(rng, thorough):
    allc = list(itertools.product(POL, repeat=3))
    return allc if thorough else [("throw", "throw", "throw"), ("exclude", "preserve", "throw"), ("preserve", "exclude", "exclude"),
                                  ("exclude", "throw", "preserve"), ("preserve", "throw", "exclude")] + rng.sample(allc, 3)


def map_cases(rng, thorough):
    import typing
    import utype
    from utype import Options
    T = utype.Rule.parse_annotation(annotation=typing.Dict[int, int])
    keys_good, keys_bad = [1, "2", 3.0], ["k", None, "1x"]
    vals_good, vals_bad = [10, "20", 30.0], ["v", None, [1, 2]]
    dicts = []
    for n in range(0, 4):
        for kmask in itertools.product([False, True], repeat=n):
            for vmask in itertools.product([False, True], repeat=n):
                gk, bk, gv, bv = iter(keys_good), iter(keys_bad), iter(vals_good), iter(vals_bad)
                dicts.append({(next(bk) if km else next(gk)): (next(bv) if vm else next(gv)) for km, vm in zip(kmask, vmask)})
    if not thorough:
        dicts = dicts[:22] + rng.sample(dicts[22:], 25)
    for x in dicts:
        ents = [entry(k, v, int, int) for k, v in x.items()]
        filtered = {k: v for k, v in x.items() if not conv(int, k)[0] and not conv(int, v)[0]}
        combos = list(itertools.product(POL, repeat=3)) if thorough else \
            [(a, b, c) for a in ("throw",) for b in POL for c in POL] + [("exclude", "exclude", "preserve"), ("preserve", "preserve", "exclude")]
        for pi, pk, pv in combos:
            opts = Options(invalid_items=pi, invalid_keys=pk, invalid_values=pv)
            r = result_of(lambda: utype.type_transform(x, T, options=opts), "map")
            r["steps"] = looptrace.observe_steps(lambda: utype.type_transform(x, T, options=opts), alpha, None, names=("_parse_seq_args", "_parse_map_args"))
            r["filtered"] = result_of(lambda: utype.type_transform(filtered, T), "map")
            c = {"kind": "dict", "shape": "map", "indexable": True, "pk": pk, "pv": pv, "entries": ents,
                 "anyexclude": pk == "exclude" or pv == "exclude", "pols": [pi, pk, pv]}
            yield c, r, repr(x)[:60]


def field_cases(rng, thorough):
    """data-class fields: required / optional with default / optional without, per-field on_error and the class policy"""
    import utype
    from utype import Schema, Field, Options
    shapes = [("req", dict()), ("optdef", dict(default=7)), ("opt", dict(required=False)),
              ("optfac", dict(default_factory=lambda: 9))]
    for dfs in (False, True):
        for (n1, kw1), (n2, kw2) in itertools.product(shapes, repeat=2):
            for on_err in (None, "exclude", "preserve", "throw"):
                kwa = dict(kw1)
                if on_err:
                    kwa["on_error"] = on_err

                try:
                    class S(Schema):
                        __options__ = Options(data_first_search=dfs)
                        a: int = Field(**kwa)
                        b: int = Field(**kw2)
                except Exception:
                    continue        # a declaration the library refuses (required field with on_error='exclude')
                inputs = [{"a": "x", "b": "2"}, {"a": "1", "b": "y"}, {"a": "x", "b": "y"}, {"a": "1", "b": 2}, {"a": "x"}, {"b": "y"}]
                if not thorough:
                    inputs = rng.sample(inputs, 3)
                for x in inputs:
                    for pv in POL:
                        ents = []
                        for name, (nm, kw), fe in (("a", (n1, kw1), on_err), ("b", (n2, kw2), None)):
                            if name in x:
                                e = entry(name, x[name], None, int, req=(nm == "req"))
                                e["pol"] = fe or pv
                                ents.append(e)
                        filtered = {k: v for k, v in x.items() if not conv(int, v)[0]}
                        opts = Options(invalid_values=pv)
                        r = result_of(lambda: S.__from__(x, options=opts), "map")
                        r["filtered"] = result_of(lambda: S(**filtered), "map")
                        if (n1 == "req" and "a" not in x) or (n2 == "req" and "b" not in x):
                            continue        # the input itself misses a required field: not a policy case
                        # (when the filtered run fails because a required field was provided with an offending value, the case stays:
                        #  "a required field is never silently excluded" -- P_Fields demands an error then)
                        # expectation of the field case is stated on the provided keys only; defaults come from the filtered run
                        c = {"kind": "fields/%s" % ("dfs" if dfs else "ffs"), "shape": "fields", "indexable": True, "pk": "throw", "pv": pv,
                             "entries": ents, "anyexclude": True, "pols": ["throw", "throw", pv],
                             "decl": "a:%s%s b:%s" % (n1, "/" + on_err if on_err else "", n2)}
                        yield c, r, repr(x)[:60]


def extra_cases(rng, thorough):
    """extra keys converted to the declared addition type; *args and **kwargs of a decorated function"""
    import utype
    from utype import Schema, Options

    import decimal

    class E(Schema):
        __options__ = Options(addition=int)
        a: int = 0

    class ED(Schema):
        __options__ = Options(addition=decimal.Decimal)
        a: int = 0
    # (values whose conversion fails with something else than a TypeError / ValueError: OverflowError, decimal.InvalidOperation)
    for E, AT, x in [(E, int, x) for x in [{"a": 1, "p": "2", "q": "x"}, {"p": "x", "q": None}, {"p": "1", "q": 2.0}, {"a": "3", "p": [1, 2]}, {"p": "7"},
                                            {"a": 1, "p": float("inf"), "q": "2"}, {"p": float("-inf")}]] + [
                    (ED, decimal.Decimal, x) for x in [{"a": 1, "p": "1.5", "q": "n/a"}, {"p": "1,5", "q": 2}, {"p": "3"}]]:
        for pv in POL:
            ents = [dict(entry(k, v, None, AT), pol=pv) for k, v in x.items()]
            filtered = {k: v for k, v in x.items() if not conv(AT, v)[0]}
            r = result_of(lambda: E.__from__(x, options=Options(addition=AT, invalid_values=pv)), "map")
            r["filtered"] = result_of(lambda: E(**filtered), "map")
            c = {"kind": "extra", "shape": "fields", "indexable": True, "pk": "throw", "pv": pv, "entries": ents,
                 "anyexclude": pv == "exclude", "pols": ["throw", "throw", pv]}
            yield c, r, repr(x)[:60]

    for pi in POL:
        @utype.parse(options=Options(invalid_items=pi))
        def f(*args: int):
            return list(args)
        for elems in seq_inputs(rng, 10 if thorough else 3):
            ents = [entry(None, e, None, int) for e in elems]
            filtered = [e for e in elems if not conv(int, e)[0]]
            r = result_of(lambda: f(*elems), "seq")
            r["filtered"] = result_of(lambda: f(*filtered), "seq")
            c = {"kind": "varargs", "shape": "seq", "indexable": True, "pk": "throw", "pv": pi, "entries": ents,
                 "anyexclude": pi == "exclude", "pols": [pi, "throw", "throw"]}
            yield c, r, repr(elems)[:60]


def main():
    ck = Check("C11")
    thorough = ck.tier == "thorough"
    rng = random.Random(ck.seed)
    mc = tlc.run("MC_ArgsLoops", "MC_ArgsLoops.cfg")
    ck.mc(mc, "MC element loops")
    if mc.invariant_violated:
        ck.count("model_only_counterexamples")
        ck.note("model-level counterexample: the element loops as transcribed violate %s" % mc.invariant_violated)
    wit = tlc.run("MC_ArgsLoops", "MC_ArgsLoops_witness.cfg", workers=1, extra=("-continue",))
    missing = [w for w in ("W_Excluded", "W_Preserved", "W_Raised") if "Invariant %s is violated" % w not in wit.output]
    if missing:
        raise MachineryError("vacuity: %s unreachable in MC_ArgsLoops" % missing)
    records, n, step_recs = [], 0, []
    for gen_ in (container_cases, map_cases, field_cases, extra_cases):
        for c, r, rp in gen_(rng, thorough):
            n += 1
            if c["shape"] != "fields":
                c["entries"] = [dict(e, pol=c["pv"], kpol=c["pk"]) for e in c["entries"]]
            else:
                c["entries"] = [dict(e) for e in c["entries"]]
            steps = r.pop("steps", None)
            recs = {"id": "c11-%d" % n, "c": c, "r": r, "repr": rp}
            records.append(recs)
            if steps:
                step_recs.append({"id": "c11-%d" % n, "c": c, "steps": steps})
    fields = [x for x in records if x["c"]["shape"] == "fields"]
    others = [x for x in records if x["c"]["shape"] != "fields"]
    byid = {x["id"]: x for x in records}
    r1 = tlc.judge("Trace_ArgsPolicy", "Trace_ArgsPolicy.cfg", others, workers=8)
    ck.mc(r1, "Trace containers")
    r2 = tlc.judge("Trace_ArgsPolicy", "Trace_ArgsPolicy_fields.cfg", fields, workers=8)
    ck.mc(r2, "Trace fields")
    if r1.distinct != len(others) or r2.distinct != len(fields):
        raise MachineryError("trace acceptance: TLC visited %d+%d states, expected %d+%d" % (r1.distinct, r2.distinct, len(others), len(fields)))
    ck.judged(len(records))
    if not step_recs:
        ck.note("step-level binding skipped: the loop heads of the element loops were not found (restructured code)")
    else:
        sres = tlc.judge("Trace_ArgsSteps", "Trace_ArgsSteps.cfg", step_recs, workers=8)
        nsnap = sum(len(x["steps"]) for x in step_recs)
        if sres.distinct != nsnap:
            raise MachineryError("trace acceptance (element steps): TLC visited %d states, expected %d" % (sres.distinct, nsnap))
        ck.mc(sres, "Trace element steps")
        ck.count("element_loop_snapshots_validated_against_ArgsLoops_actions", nsnap)
        if sres.tagged("DIV"):
            ck.count("element_step_divergences", len(sres.tagged("DIV")))
            t0 = sres.tagged("DIV")[0]
            ck.note("divergence at step %s: ArgsLoops differs from the element loop on %s" % (t0[2], byid[t0[1]]["repr"]))
    for x in records:
        c = x["c"]
        ck.keys.add("%s|%s|%s|%s" % (c["kind"], ",".join(c["pols"]), "".join("B" if (e["koff"] or e["voff"]) else "g" for e in c["entries"]), x["r"]["ok"]))
    for x in records[:2] + fields[:2] + records[-2:]:
        ck.sample({"id": x["id"], "kind": x["c"]["kind"], "policies(items,keys,values)": x["c"]["pols"], "input": x["repr"],
                   "offending": [bool(e["koff"] or e["voff"]) for e in x["c"]["entries"]], "accepted": x["r"]["ok"]})
    for res in (r1, r2):
        for t in res.tagged("VIOL"):
            x = byid[t[1]]
            c = x["c"]
            key = "C11|%s|%s|%s" % (t[2], c["kind"], ",".join(c["pols"]) if c["shape"] != "fields" else c["pv"])
            ck.violation(key, t[2], x)
        dv = res.tagged("DIV")
        if dv:
            ck.count("divergences", len(dv))
            ck.note("divergence: M predicts a different verdict for %d cases, e.g. %s %s" % (len(dv), byid[dv[0][1]]["c"]["kind"], byid[dv[0][1]]["repr"]))
    ck.exhaustive = True
    ck.rule = ("cases = list / set / frozenset / Tuple[int, ...] / deque / Dict[int, int] / data-class fields (required, default, factory, "
               "optional x on_error x lookup strategy) / extra keys with addition=int / *args, with every subset of elements offending "
               "(length <= 3) plus random longer inputs, under the policy combinations (all 27 in the thorough tier); "
               "distinct_nontrivial = distinct (kind, policies, offending pattern, verdict)")
    ck.trusted = ["TLC 1.8", "harness/alpha.py", "type_transform on a single element as the independent observation"]
    ck.assumptions = ["fixed-length tuples are outside the exclude clause (positions are part of their type)",
                      "sets: inputs whose elements collide after conversion are not generated"]
    return ck.finish()


def replay(path):
    d = json.load(open(path))
    x = d["record"]
    print(json.dumps({"kind": x["c"]["kind"], "policies": x["c"]["pols"], "input": x["repr"], "result": x["r"]}, default=str)[:800])
    return main()
