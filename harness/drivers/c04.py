"""C04 -- invalid input raises ParseError and nothing else; parsing always terminates.

MC:   Totality.tla: the timestamp normalisation loop terminates (liveness under weak fairness) in the 'fixed' variant;
      the pinned-commit variant (infinite value enters the loop) must be refuted.
C->S: every annotation of the catalogue is used as a data-class field, a decorated-function parameter and return type,
      inside a union / an optional, and as element of List / Dict; each is fed the hostile catalogue (infinities and NaN
      in every spelling, huge ints, empty and deeply nested containers, sets, iterators, arbitrary objects and classes,
      undecodable bytes, mappings with arbitrary nested content, cyclic structures) under a watchdog.  The generated
      function body sets a flag, the generated class counts __validate__ entries.  Trace_Totality (TLC) judges:
      a value or a ParseError; never a timeout; a failed parse created nothing and did not enter the body.
"""
import collections
import datetime
import decimal
import enum
import json
import random
import uuid

from .. import tlc
from ..alpha import exc_names
from ..core import Check, MachineryError, Timeout, watchdog

D = decimal.Decimal

ANNOTATIONS = ["int", "float", "str", "bool", "bytes", "Decimal", "date", "datetime", "time", "timedelta", "UUID", "Color", "complex",
               "List[int]", "Set[int]", "FrozenSet[str]", "Tuple[int, str]", "Tuple[int, ...]", "Dict[str, int]", "Dict[int, List[int]]",
               "Optional[int]", "Union[int, str]", "Union[List[int], Dict[str, int]]", "PosInt", "ShortStr", "Digits", "LaxInt", "Sub",
               "List[Sub]", "Optional[datetime]", "Union[date, int]", "OneOfIS", "NotInt", "IntAndPos", "Deque[int]", "Literal[1, 'a']",
               "Sequence[int]", "Mapping[str, int]", "Iterable[int]", "Any", "HasInt", "HasFloat", "DecGe",
               # a union resolved by a discriminator key (a Field option: used on the data class fields only)
               ("Union[DA, DB]", " = Field(discriminator='kind')")]

PRELUDE = '''
import utype, decimal, datetime, enum, uuid, typing, collections
from decimal import Decimal
from datetime import date, time, timedelta
from datetime import datetime as _dt
datetime = _dt
from uuid import UUID
from typing import *
from utype import Schema, Field, Options, Rule, Lax
class Color(str, enum.Enum):
    red = 'r'
    green = 'g'
class PosInt(int, Rule):
    gt = 0
class ShortStr(str, Rule):
    max_length = 3
    regex = '[a-z]*'
class Digits(Decimal, Rule):
    max_digits = 4
    decimal_places = 2
class LaxInt(int, Rule):
    ge = Lax(0)
    multiple_of = Lax(3)
class HasInt(list, Rule):
    contains = int
class HasFloat(list, Rule):
    contains = float
    max_contains = 2
class DecGe(Decimal, Rule):
    ge = 0
    multiple_of = 0.5
class Sub(Schema):
    a: int
    b: List[int] = Field(default_factory=list)
class DA(Schema):
    kind: Literal['a']
    a: int = 0
class DB(Schema):
    kind: Literal['b']
    b: int = 0
OneOfIS = Rule.one_of(PosInt, ShortStr)
NotInt = ~Rule.annotate(int)
IntAndPos = Rule.all_of(int, PosInt)
STATE = {'body': 0, 'created': 0}
'''

DECL = '''
class C(Schema):
    x: {ann}{fld}
    def __validate__(self):
        STATE['created'] += 1
class CO(Schema):
    __options__ = Options(collect_errors=True, addition=False)
    x: {ann}{fld}
    y: int = 0
    def __validate__(self):
        STATE['created'] += 1
@utype.parse
def f(x: {ann}):
    STATE['body'] += 1
    return x
@utype.parse(options=Options(collect_errors=True))
def fc(x: {ann}, *args: {ann}, **kw: {ann}):
    STATE['body'] += 1
    return x
@utype.parse(options=Options(collect_errors=True))
def fp(x: {ann}, y: int = 0):
    STATE['body'] += 1
    return x
@utype.parse
def fr(x) -> {ann}:
    STATE['body'] += 1
    return x
T = Rule.parse_annotation(annotation={ann})
'''


class Weird:
    def __len__(self):
        raise RuntimeError("len")

    def __eq__(self, other):
        raise RuntimeError("eq")

    def __hash__(self):
        return 1

    def __str__(self):
        raise RuntimeError("str")


class Plain:
    pass


def hostile(rng):
    cyc_l = []
    cyc_l.append(cyc_l)
    cyc_d = {}
    cyc_d["a"] = cyc_d
    deep = []
    for _ in range(60):
        deep = [deep]
    deepd = {}
    for _ in range(60):
        deepd = {"a": deepd, "x": 1}
    vals = [
        ("inf", float("inf")), ("-inf", float("-inf")), ("nan", float("nan")), ("'inf'", "inf"), ("'-Infinity'", "-Infinity"), ("'nan'", "nan"),
        ("b'inf'", b"inf"), ("Decimal(Infinity)", D("Infinity")), ("Decimal(NaN)", D("NaN")), ("Decimal(sNaN)", D("sNaN")), ("10**400", 10 ** 400),
        # an int beyond the interpreter's int-to-str digit limit: repr() and str() of it raise ValueError
        ("10**5000", 10 ** 5000), ("[10**5000]", [10 ** 5000]), ("{'a': 10**5000}", {"a": 10 ** 5000}),
        ("-10**30", -10 ** 30), ("1e308", 1e308), ("1e-320", 1e-320), ("'1e400'", "1e400"), ("'9'*500", "9" * 500), ("complex", 1 + 2j), ("complex-nan", complex("nan")),
        ("''", ""), ("' '", " "), ("'\\x00'", "\x00"), ("non-ascii", "٣é\U0001f600"), ("'x'*10000", "x" * 10000), ("b''", b""), ("bad-utf8", b"\xff\xfe\xfa"),
        ("bytearray", bytearray(b"\xff")), ("memoryview", memoryview(b"12")), ("None", None), ("True", True), ("[]", []), ("()", ()), ("{}", {}), ("set()", set()),
        ("[inf]", [float("inf")]), ("[10**400]", [10 ** 400]), ("[nan, 1]", [float("nan"), 1]), ("['inf', 2]", ["inf", 2]),
        ("[None]", [None]), ("[[]]", [[]]), ("[{}]", [{}]), ("{'x'}", {"x"}), ("{1,'x',None}", {1, "x", None}), ("frozenset", frozenset({"a", 2})),
        ("deque", collections.deque(["x", 1])), ("deep-list", deep), ("deep-dict", deepd), ("cyclic-list", cyc_l), ("cyclic-dict", cyc_d),
        ("{1: 2}", {1: 2}), ("{None: 1}", {None: 1}), ("{(1,2): 3}", {(1, 2): 3}), ("{'a': {1: [object]}}", {"a": {1: [Plain()]}}), ("{'a': 'x', 'zz': 1}", {"a": "x", "zz": 1}),
        ("{'kind': []}", {"kind": []}), ("{'kind': {}}", {"kind": {}}), ("{'kind': 'a', 'a': 'x'}", {"kind": "a", "a": "x"}), ("{'kind': 'b'}", {"kind": "b"}),
        ("[1, 'x', None]", [1, "x", None]), ("(1,)", (1,)), ("(1, 'a', 3)", (1, "a", 3)), ("('x', 1)", ("x", 1)), ("iter", "ITER"), ("gen", "GEN"), ("range", range(3)),
        ("object", Plain()), ("class", Plain), ("weird", Weird()), ("lambda", len), ("type", int), ("Ellipsis", Ellipsis), ("NotImplemented", NotImplemented),
        ("'[1, 2'", "[1, 2"), ("'{\"a\":'", '{"a":'), ("'(1,'", "(1,"), ("'{1, 2}'", "{1, 2}"), ("'__import__(\"os\")'", "__import__('os')"), ("'a=1&a=2'", "a=1&a=2"),
        ("'2022-13-45'", "2022-13-45"), ("'25:61:61'", "25:61:61"), ("'P'", "P"), ("'0000-00-00'", "0000-00-00"), ("1e18-ts", 1e18), ("-1e18-ts", -1e18), ("'9999999999999'", "9999999999999"),
        ("date-max", datetime.date.max), ("datetime-min", datetime.datetime.min), ("timedelta-max", datetime.timedelta.max), ("uuid-bad", "123e4567"), ("uuid-int", 5),
        ("enum-other", enum.Enum("E", "a b").a), ("xml", "XML"), ("bytes-json", b'{"a": [1, {"b": null}]}'), ("'null'", "null"), ("'[null]'", "[null]"),
    ]
    return vals


class Wrapped:
    """thorough tier: a hostile value inside a container (materialised afresh for every call)"""

    def __init__(self, kind, v):
        self.kind, self.v = kind, v


def materialise(v):
    if isinstance(v, Wrapped):
        x = materialise(v.v)
        if v.kind == "list":
            return [1, x]
        if v.kind == "dict":
            return {"a": x, "k": x}
        if v.kind == "tuple":
            return (x, "7")
        return [[x]]
    if isinstance(v, str) and v == "ITER":
        return iter([1, "x"])
    if isinstance(v, str) and v == "GEN":
        return (i for i in (1, "x"))
    if isinstance(v, str) and v == "XML":
        from xml.etree.ElementTree import Element
        return Element("a", {"k": "v"})
    return v


def call(fn, state):
    state["body"], state["created"] = 0, 0
    r = {"ok": True, "exc": [], "timeout": False, "body": False, "created": 0}
    try:
        with watchdog(10.0):        # collecting n errors costs O(n^2) (each report carries the ones before): slow under load, not a hang
            out = fn()
            if hasattr(out, "__next__") and not isinstance(out, (list, tuple)):
                pass
    except Timeout:
        r["ok"], r["timeout"] = False, True
    except RecursionError as e:
        r["ok"], r["exc"] = False, exc_names(e)
    except Exception as e:
        r["ok"], r["exc"] = False, exc_names(e)
    r["body"] = state["body"] > 0
    r["created"] = state["created"]
    return r


def loop_steps(ck):
    """trace validation proper for the loop Totality.tla models: the magnitude class of the timestamp at every visit of the loop head
    (sys.settrace on to_datetime) against Totality!Loop, for numbers and numeric texts 0..8 factors of 1000 above the watershed"""
    import datetime as _dt
    from utype import type_transform
    from .. import looptrace
    recs = []
    for kk in range(0, 9):
        for x in (1.5e9 * 1000 ** kk, -(2 ** 31) * 1000 ** kk, int(3e9) * 1000 ** kk, "%de%d" % (7, 9 + 3 * kk), "-%d" % (4 * 10 ** (9 + 3 * kk))):
            st = looptrace.observe_steps(lambda: type_transform(x, _dt.datetime), None, None, names=("to_datetime",))
            if st:
                recs.append({"id": "tl%d-%s" % (kk, str(x)[:12]), "steps": st})
    if not recs:
        # the statement-level binding is tied to the text of the loop heads: a restructured function is a note, not a failure of the check
        ck.note("step-level binding skipped: the loop heads of to_datetime were not found (restructured code)")
        return
    res = tlc.judge("Trace_TotalitySteps", "Trace_TotalitySteps.cfg", recs, workers=1)
    nsnap = sum(len(r["steps"]) for r in recs)
    if res.distinct != nsnap:
        raise MachineryError("trace acceptance (timestamp loop): TLC visited %d states, expected %d" % (res.distinct, nsnap))
    ck.mc(res, "Trace timestamp loop")
    ck.count("timestamp_loop_snapshots_validated_against_Totality_Loop", nsnap)
    if res.tagged("DIV"):
        ck.count("timestamp_loop_divergences", len(res.tagged("DIV")))
        ck.note("divergence: the timestamp loop does not follow Totality!Loop at %s" % res.tagged("DIV")[:3])


def main():
    ck = Check("C04")
    thorough = ck.tier == "thorough"
    rng = random.Random(ck.seed)
    mc = tlc.run("Totality", "MC_Totality_fixed.cfg", deadlock=False)
    ck.mc(mc, "MC liveness")
    if mc.invariant_violated:
        ck.note("model-level counterexample: the loop model (Variant=fixed) violates %s" % mc.invariant_violated)
        ck.count("model_only_counterexamples")
    mo = tlc.run("Totality", "MC_Totality_orig.cfg", deadlock=False)
    if not mo.invariant_violated:
        raise MachineryError("Termination not refuted on Variant=orig")
    ck.count("orig_variant_refuted_by_TLC")
    loop_steps(ck)
    records, n = [], 0
    anns = ANNOTATIONS if thorough else ANNOTATIONS
    hv = hostile(rng)
    for ann in anns:
        ann, fld = ann if isinstance(ann, tuple) else (ann, "")
        ns = {}
        try:
            exec(PRELUDE, ns)
            exec(DECL.format(ann=ann, fld=fld), ns)
        except Exception as e:
            ck.count("not_judged: declaration refused")
            ck.note("declaration refused for %s: %s" % (ann, str(e)[:80]))
            continue
        st = ns["STATE"]
        sample = hv
        if thorough:
            sample = hv + [("%s-in-%s" % (name, kind), Wrapped(kind, v)) for name, v in hv for kind in ("list", "dict", "tuple", "nested")
                           if not name.startswith(("cyclic", "deep", "'x'*10000", "'9'*500"))]
        for name, v in sample:
            uses = [("field", lambda: ns["C"](x=materialise(v)), False),
                    ("field-collect", lambda: ns["CO"](x=materialise(v), y="bad" if rng.random() < 0.3 else 1), False),
                    ("field-from", lambda: ns["C"].__from__(materialise(v)), False),
                    ("param", lambda: ns["f"](materialise(v)), True),
                    ("param-collect", lambda: ns["fc"](materialise(v), materialise(v), k=materialise(v)), True),
                    ("param-collect-positional", lambda: ns["fp"](materialise(v), 1), True),
                    ("param-collect-positional-bad", lambda: ns["fp"](materialise(v), "bad"), True),
                    ("type", lambda: ns["T"](materialise(v)), False),
                    ("type-collect", lambda: ns["T"](materialise(v), context=ns["Options"](collect_errors=True).make_context()), False)]
            if thorough:
                # the same field under the conversion preferences (different converter branches)
                for tag, kw in (("ne", dict(no_explicit_cast=True)), ("ndl", dict(no_data_loss=True)), ("both", dict(no_explicit_cast=True, no_data_loss=True)),
                                ("exclude", dict(invalid_items="exclude", invalid_keys="exclude", invalid_values="exclude")),
                                ("preserve", dict(invalid_items="preserve", invalid_keys="preserve", invalid_values="preserve"))):
                    uses.append(("field-" + tag, (lambda kw: lambda: ns["C"].__from__({"x": materialise(v)}, options=ns["Options"](**kw)))(kw), False))
            from utype.parser.rule import LogicalType
            for use, fn, has_body in uses:
                if use.startswith("type") and not isinstance(ns["T"], LogicalType):
                    continue        # an unconstrained builtin is not a utype type: T(x) would be Python's own constructor
                n += 1
                r = call(fn, st)
                records.append({"id": "c04-%d" % n, "ann": ann, "use": use, "input": name, "r": r})
            # return annotation: the body runs (its argument is not annotated), a failing result must be a ParseError too
            n += 1
            r = call(lambda: ns["fr"](materialise(v)), st)
            r["body"] = False         # entering the body is expected here
            records.append({"id": "c04-%d" % n, "ann": ann, "use": "return", "input": name, "r": r})
    if len(records) < 1000:
        raise MachineryError("vacuity: only %d executions recorded (declarations refused?)" % len(records))
    byid = {x["id"]: x for x in records}
    res = tlc.judge("Trace_Totality", "Trace_Totality.cfg", records, workers=8)
    ck.mc(res, "Trace")
    if res.distinct != len(records):
        raise MachineryError("trace acceptance: TLC visited %d states, expected %d" % (res.distinct, len(records)))
    ck.judged(len(records))
    for x in records:
        ck.keys.add("%s|%s|%s|%s" % (x["ann"], x["use"], x["input"], "ok" if x["r"]["ok"] else (x["r"]["exc"] or ["TIMEOUT"])[0]))
    ck.count("rejected_inputs", sum(1 for x in records if not x["r"]["ok"]))
    for x in [y for y in records if not y["r"]["ok"]][:4] + records[-2:]:
        ck.sample({"id": x["id"], "annotation": x["ann"], "use": x["use"], "input": x["input"], "outcome": "ok" if x["r"]["ok"] else (x["r"]["exc"] or ["TIMEOUT"])[:3]})
    for t in res.tagged("VIOL"):
        x = byid[t[1]]
        what = "TIMEOUT" if x["r"]["timeout"] else (x["r"]["exc"] or ["?"])[0]
        key = "C04|%s|%s|%s|%s" % (t[2], x["ann"], x["input"], what)
        ck.violation(key, t[2], x)
    ck.rule = ("cases = 43 annotations (builtins, stdlib, Enum, generics, unions, constrained / lax / logical types, nested data classes, "
               "abstract collections, Any) x 7 uses (field, field with collect_errors, __from__, parameter, parameter with *args/**kwargs "
               "and collect_errors, bare type, return annotation) x the hostile catalogue (95 values; in the thorough tier each of them also "
               "inside a list, a dict, a tuple and a nested list); distinct_nontrivial = distinct (annotation, use, input, outcome class)")
    ck.trusted = ["TLC 1.8", "wall-clock watchdog (2 s per call, SIGALRM raising a BaseException)", "the recording body / __validate__ counter generated by the harness"]
    ck.assumptions = ["termination of the real code is decided by the watchdog on the executions tried (and by TLC on the loop model)",
                      "string keys at the top level of a data class (as the statement says)"]
    return ck.finish()


def replay(path):
    d = json.load(open(path))
    print(json.dumps(d["record"])[:600])
    return main()
