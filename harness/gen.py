"""Declaration descriptors (spec/Values.tla) -> real utype declarations.  The descriptor is ground truth for the
oracle; nothing is read back from utype's compiled attributes."""
import decimal
import fractions
import typing

PRIMS = {"int": int, "float": float, "str": str, "bool": bool, "bytes": bytes, "none": type(None),
         "Decimal": decimal.Decimal, "list": list, "tuple": tuple, "set": set, "frozenset": frozenset, "dict": dict}


BASE = {"k": "", "name": "", "cons": [], "args": [], "fields": [], "ell": False, "contains": [], "minc": -1, "maxc": -1}


def prim(name):
    return dict(BASE, k="prim", name=name)


def rule(name, cons=(), args=(), ell=False, contains=None, minc=-1, maxc=-1):
    return dict(BASE, k="rule", name=name, cons=list(cons), args=list(args), ell=ell,
                contains=[contains] if contains else [], minc=minc, maxc=maxc)


def logic(op, *args):
    return dict(BASE, k=op, args=list(args))


def cls_desc(name, fields):
    return dict(BASE, k="cls", name=name, fields=list(fields))


def con(c, value=None, lax=False, vals=(), s=""):
    """a constraint record; numeric bounds as exact rationals"""
    from .alpha import alpha
    n, d = 0, 1
    if value is not None and not isinstance(value, bool):
        f = fractions.Fraction(value)
        n, d = f.numerator, f.denominator
    return {"c": c, "n": n, "d": d, "s": s, "lax": lax, "vals": [alpha(v) for v in vals], "py": value if value is not None else list(vals)}


def strip(T):
    """descriptor without the python payloads (what is sent to TLC)"""
    if isinstance(T, dict):
        return {k: strip(v) for k, v in T.items() if k != "py" and not k.startswith("_")}
    if isinstance(T, list):
        return [strip(x) for x in T]
    return T


_count = [0]


def build(T):
    """descriptor -> utype/python type object"""
    import utype
    from utype import Rule, Lax
    k = T["k"]
    if k == "prim":
        return PRIMS[T["name"]]
    if k == "any":
        return typing.Any
    if k == "rule":
        cons = {}
        for c in T["cons"]:
            val = c["py"]
            if c["c"] == "unique_items":
                val = True
            if c["c"] == "regex":
                val = c["py"]
            cons[c["c"]] = Lax(val) if c["lax"] else val
        if T["contains"]:
            cons["contains"] = build(T["contains"][0])
            if T["minc"] >= 0:
                cons["min_contains"] = T["minc"]
            if T["maxc"] >= 0:
                cons["max_contains"] = T["maxc"]
        args = [build(a) for a in T["args"]]
        origin = PRIMS[T["name"]] if T["name"] else None
        if T["ell"]:
            args = args + [Ellipsis]
        if T.get("_abstract") and not cons and len(args) == 1:
            return Rule.parse_annotation(annotation=getattr(typing, T["_abstract"])[args[0]])
        return Rule.annotate(origin, *args, constraints=cons)
    if k in ("union", "xor", "and"):
        args = [build(a) for a in T["args"]]
        from utype.parser.rule import LogicalType
        op = {"union": "|", "xor": "^", "and": "&"}[k]
        return LogicalType.combine(op, *args)
    if k == "not":
        from utype.parser.rule import LogicalType
        return LogicalType.combine("~", build(T["args"][0]))
    if k == "cls":
        _count[0] += 1
        ann, ns = {}, {}
        for f in T["fields"]:
            ann[f["att"]] = build(f["ty"])
            kw = {}
            if not f["req"]:
                kw["required"] = False
            if f["out"] != f["att"]:
                kw["alias"] = f["out"]
            ns[f["att"]] = utype.Field(**kw)
        ns["__annotations__"] = ann
        return type(T["name"], (utype.Schema,), ns)
    raise ValueError(k)
