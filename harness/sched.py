"""Deterministic line-level scheduler for real threads (C20).

Controlled threads install a sys.settrace tracer that parks them before every source line of the targeted
functions (the code objects of the anchored utype functions).  The driver releases exactly one thread for exactly
one traced line at a time, so an interleaving is a list of thread ids and is reproduced exactly.  Lines are bound
to model labels by *statement text patterns*, never by line numbers.
"""
import linecache
import re
import sys
import threading

GRACE = 0.08     # seconds a released thread may take to reach its next traced line before it is treated as blocked


class Sched:
    def __init__(self, target_codes, labeler):
        self.targets = set(target_codes)
        self.labeler = labeler
        self.cv = threading.Condition()
        self.waiting = {}       # tid -> label of the line the thread is parked in front of
        self.grant = None
        self.free = set()
        self.done = set()
        self.results = {}
        self.log = []           # (tid, label) in execution order
        self.threads = {}

    # ---- inside controlled threads ------------------------------------------------------------------------
    def _park(self, tid, label):
        with self.cv:
            if tid not in self.free:
                self.waiting[tid] = label
                self.cv.notify_all()
                while self.grant != tid and tid not in self.free:
                    self.cv.wait()
                if self.grant == tid:
                    self.grant = None
                self.waiting.pop(tid, None)
            self.log.append((tid, label))
            self.cv.notify_all()

    def _tracer(self, tid):
        def local(frame, event, arg):
            if event == "line":
                code = frame.f_code
                text = linecache.getline(code.co_filename, frame.f_lineno)
                self._park(tid, self.labeler(frame, text))
            return local

        def glob(frame, event, arg):
            if frame.f_code in self.targets:
                return local
            return None
        return glob

    def _main(self, tid, fn):
        sys.settrace(self._tracer(tid))
        try:
            self.results[tid] = ("ok", fn())
        except BaseException as e:      # noqa
            self.results[tid] = ("exc", e)
        finally:
            sys.settrace(None)
            with self.cv:
                self.done.add(tid)
                self.waiting.pop(tid, None)
                self.cv.notify_all()

    # ---- driver side ------------------------------------------------------------------------------------------
    def spawn(self, tid, fn):
        t = threading.Thread(target=self._main, args=(tid, fn), daemon=True)
        self.threads[tid] = t
        t.start()

    def parked_at(self, tid, timeout=GRACE):
        """label the thread is parked in front of; None when finished (or blocked)"""
        with self.cv:
            self.cv.wait_for(lambda: tid in self.waiting or tid in self.done, timeout)
            return self.waiting.get(tid)

    def step(self, tid):
        """let tid execute one traced line; False when it has already finished"""
        with self.cv:
            ok = self.cv.wait_for(lambda: tid in self.waiting or tid in self.done, GRACE)
            if tid in self.done or not ok:
                return False
            self.grant = tid
            self.cv.notify_all()
            self.cv.wait_for(lambda: self.grant is None and (tid in self.waiting or tid in self.done), GRACE)
            return True

    def run_until(self, tid, label, limit=400):
        """model step (tid, label): execute unlabelled lines, then the line carrying `label`"""
        n = 0
        while n < limit:
            at = self.parked_at(tid)
            if at is None:
                return False
            if at == label:
                return self.step(tid)
            self.step(tid)
            n += 1
        return False

    def run_to(self, tid, label, limit=2000):
        """advance tid until it is parked in front of the line carrying `label` (which is not executed); False when the
        thread finished or blocked before reaching it"""
        n = 0
        while n < limit:
            at = self.parked_at(tid)
            if at is None:
                return False
            if at == label:
                return True
            self.step(tid)
            n += 1
        return False

    def finish(self, tid, timeout=20):
        with self.cv:
            self.free.add(tid)
            self.cv.notify_all()
            self.cv.wait_for(lambda: tid in self.done, timeout)
            return tid in self.done

    def finish_all(self, timeout=20):
        """release every thread and wait for all of them (a thread may be waiting for a lock another one holds)"""
        with self.cv:
            self.free.update(self.threads)
            self.cv.notify_all()
            return self.cv.wait_for(lambda: all(t in self.done for t in self.threads), timeout)


PATTERNS = [
    # BaseParser.resolve_forward_refs
    ("Check", r"if not self\.forward_refs"),
    ("Acquire", r"with self\._resolve_lock"),
    ("Snapshot", r"for name in list\(self\.forward_refs\)"),
    ("Lookup", r"self\.forward_refs\[name\]|self\.forward_refs\.get\(name"),
    ("Eval", r"evaluate_forward_ref\("),
    ("Annot", r"ref\.__forward_value__ = self\.rule_cls"),
    ("Pop", r"self\.forward_refs\.pop\("),
    ("Mark", r"resolved_names\.append\("),
    ("PopLoop", r"for name in resolved_names"),
    ("UpdField", r"field\.resolve_forward_refs\(\)"),
    ("UpdAdd", r"self\.addition_type, r ="),
    ("ClearLocal", r"ref\.__forward_evaluated__ = False"),
    # TypeTransformer.__call__: a field type that is still a reference is dereferenced here
    ("Convert", r"if not t\.__forward_evaluated__"),
    # TypeRegistry
    ("Snap", r"cache = self\._cache"),
    ("CacheChk", r"if self\.cache and t in "),
    ("CacheRead", r"return (self\._)?cache\[t\]"),
    ("Scan", r"for detector, trans, priority in self\._registry"),
    ("Detect", r"if detector\(t\)"),
    ("Fill", r"cache\[t\] = trans"),
    ("Replace", r"self\._registry = sorted|self\._registry\.insert"),
    ("Clear", r"self\._cache = \{\}|self\._cache\.clear"),
    # parsers cache
    ("PCheck", r"if key in __parsers__|__parsers__\.get\("),
    ("PSet", r"__parsers__\[key\] = inst"),
]
_COMPILED = [(n, re.compile(p)) for n, p in PATTERNS]


def label_of(frame, text):
    """label of a source line: "<Label>@<object the statement works on>" (parser name / registry), or "other"."""
    for n, rx in _COMPILED:
        if rx.search(text):
            me = frame.f_locals.get("self")
            tag = getattr(me, "name", None)
            if not isinstance(tag, str):
                tag = type(me).__name__ if me is not None else ""
            return "%s@%s" % (n, tag)
    return "other"
