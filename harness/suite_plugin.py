"""pytest plugin (loaded with -p harness.suite_plugin by harness/suite.py): the repository's own test-suite as a driver.

While the suite runs, every top-level conversion (TypeTransformer.__call__) and every data-class / function parse (BaseParser.__call__) is
observed: the caller's container inputs are projected before and after the call (C19: parsing never modifies the caller's input), and every
successful top-level conversion is applied once more to its own result (C03: re-parsing returns an equal value).  Only facts are recorded
(ndjson, VERIF_SUITE_OUT); TLC judges them (spec/Trace_Suite.tla).  Types for which the tests register their own converter are left out
of the idempotence records: what a user-written converter does is not the library's promise."""
import collections
import json
import os

from harness.alpha import alpha

OUT = os.environ.get("VERIF_SUITE_OUT")
RECORDS = []
USER_TYPES = set()
_depth = [0]


def snap(x, depth=0, seen=None):
    """canonical text of a container with its contents (identity of opaque objects, order of dicts and lists)"""
    seen = seen if seen is not None else set()
    if id(x) in seen or depth > 8:
        return "<cyc>"
    if isinstance(x, dict):
        seen.add(id(x))
        return "%s{%s}" % (type(x).__name__, ",".join("%s:%s" % (snap(k, depth + 1, seen), snap(v, depth + 1, seen)) for k, v in list(dict.items(x))))
    if isinstance(x, (list, tuple, collections.deque)):
        seen.add(id(x))
        return "%s[%s]" % (type(x).__name__, ",".join(snap(v, depth + 1, seen) for v in list(x)))
    if isinstance(x, (set, frozenset)):
        return "%s{%s}" % (type(x).__name__, ",".join(sorted(snap(v, depth + 1, seen) for v in list(x))))
    if isinstance(x, (int, float, str, bytes, bool, type(None), complex, bytearray)):
        return "%s(%r)" % (type(x).__name__, x)
    return "%s@%d" % (type(x).__name__, id(x))


def _test():
    return os.environ.get("PYTEST_CURRENT_TEST", "?").split(" ")[0]


def _user_type(t):
    cands = [t, getattr(t, "__origin__", None)]
    for c in cands:
        if isinstance(c, type):
            for u in USER_TYPES:
                try:
                    if c is u or issubclass(c, u):
                        return True
                except TypeError:
                    pass
    return False


def pytest_configure(config):
    if not OUT:
        return
    from utype.utils.transform import TypeTransformer
    from utype.parser.base import BaseParser
    orig_call = TypeTransformer.__call__
    orig_parse = BaseParser.__call__
    orig_register = TypeTransformer.registry.register

    def register(*classes, **kw):
        USER_TYPES.update(c for c in classes if isinstance(c, type))
        return orig_register(*classes, **kw)
    TypeTransformer.registry.register = register

    def call(self, data, t):
        top = _depth[0] == 0
        watch = top and isinstance(data, (dict, list, set, bytearray, collections.deque))
        before = snap(data) if watch else ""
        _depth[0] += 1
        try:
            out = orig_call(self, data, t)
        finally:
            _depth[0] -= 1
            if watch:
                RECORDS.append({"kind": "input", "where": "transform", "test": _test(), "type": repr(t)[:80], "b": before, "a": snap(data)})
        if top and not _user_type(t):
            _depth[0] += 1
            try:
                try:
                    out2 = orig_call(self, out, t)
                    ok2, v2 = True, alpha(out2)
                except Exception as e:
                    ok2, v2 = False, alpha(None)
            finally:
                _depth[0] -= 1
            RECORDS.append({"kind": "idem", "where": "transform", "test": _test(), "type": repr(t)[:80], "ok2": ok2, "v1": alpha(out), "v2": v2,
                            "b": repr(data)[:60], "a": repr(out)[:60]})
        return out
    TypeTransformer.__call__ = call

    def parse(self, data, context=None):
        watch = isinstance(data, (dict, list))
        before = snap(data) if watch else ""
        _depth[0] += 1
        try:
            return orig_parse(self, data, context=context)
        finally:
            _depth[0] -= 1
            if watch:
                RECORDS.append({"kind": "input", "where": "parser", "test": _test(), "type": repr(self)[:80], "b": before, "a": snap(data)})
    BaseParser.__call__ = parse


def pytest_sessionfinish(session):
    if not OUT:
        return
    none = alpha(None)
    with open(OUT, "w") as f:
        for i, r in enumerate(RECORDS):
            r["id"] = "s%d" % i
            r.setdefault("ok2", True)
            r.setdefault("v1", none)
            r.setdefault("v2", none)
            f.write(json.dumps(r, ensure_ascii=True, default=str) + "\n")
