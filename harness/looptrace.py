"""Statement-level observation of the two lookup loops (no source hooks: sys.settrace on the frames of BaseParser.field_first_parse and
data_first_parse).  At every visit of a loop head -- i.e. after 0, 1, .., n iterations -- the loop's locals are projected: the result mapping
so far, the error kinds collected so far, the unprovided fields and the dependencies.  spec/Trace_LoopSteps.tla replays DataLoops action by
action (FLoop / DLoop / DPost) and compares its state with every snapshot."""
import sys

HEADS = {"field_first_parse": {"for key, field in self.fields.items():": "floop"},
         "data_first_parse": {"for key, value in data.items():": "dloop", "for key, field in self.fields.items():": "dpost"},
         # FunctionParser.parse_params (utype/parser/func.py): the positional pass and the positional-only defaults
         "parse_params": {"for i, arg in enumerate(args):": "args", "for index, field in self.positional_only_fields:": "posonly"},
         # Rule._parse_seq_args / _parse_map_args (utype/parser/rule.py): the element loops
         "_parse_seq_args": {"for i, item in enumerate(value):": "seq"}, "_parse_map_args": {"for _key, _val in value.items():": "map"},
         # TypeTransformer.to_datetime (utype/utils/transform.py): the timestamp normalisation loop
         "to_datetime": {"while abs(data) > self.MS_WATERSHED:": "loop", "while abs(num) > self.MS_WATERSHED:": "loop-text"}}
FILES = {"field_first_parse": "parser/base.py", "data_first_parse": "parser/base.py", "parse_params": "parser/func.py",
         "_parse_seq_args": "parser/rule.py", "_parse_map_args": "parser/rule.py", "to_datetime": "utils/transform.py"}
_lines = {}


def _label(code, lineno):
    key = (code.co_filename, lineno)
    if key not in _lines:
        import linecache
        _lines[key] = linecache.getline(code.co_filename, lineno).strip()
    return HEADS[code.co_name].get(_lines[key])


def observe_steps(call, val, kind_of, names=("field_first_parse", "data_first_parse")):
    """run call() under the tracer; returns the list of snapshots [loop, res (assoc), errs, unprov, deps] of the lookup loops, or
    [loop, args, keys, errs] of parse_params when names = ("parse_params",)"""
    steps = []

    def local(frame, event, arg):
        if event == "line":
            lab = _label(frame.f_code, frame.f_lineno)
            if lab:
                loc = frame.f_locals
                ctx = loc.get("context")
                if frame.f_code.co_name == "to_datetime":
                    import math
                    d, w = abs(loc["num"] if lab == "loop-text" else loc["data"]), loc["self"].MS_WATERSHED
                    steps.append({"loop": lab, "k": 0 if d <= w else int(math.ceil(round(math.log(d / w, 1000), 9)))})      # thousands above the watershed
                    return local
                if frame.f_code.co_name in ("_parse_seq_args", "_parse_map_args"):
                    res = loc.get("result", [])
                    items = list(res.items()) if isinstance(res, dict) else [(None, v) for v in res]
                    steps.append({"loop": lab, "keys": [val(k) for k, _ in items] if isinstance(res, dict) else [], "vals": [val(v) for _, v in items]})
                    return local
                if frame.f_code.co_name == "parse_params":
                    steps.append({"loop": lab, "args": [val(v) for v in loc.get("parsed_args", [])], "keys": list(loc.get("parsed_keys", [])),
                                  "errs": [kind_of(e) for e in (ctx.errors if ctx is not None else [])]})
                    return local
                steps.append({"loop": lab,
                              "res": [{"k": str(k), "v": val(v)} for k, v in loc.get("result", {}).items()],
                              "errs": [kind_of(e) for e in (ctx.errors if ctx is not None else [])],
                              "unprov": sorted(loc.get("unprovided_fields", ())),
                              "deps": sorted(loc.get("dependencies", ()))})
        return local

    def tracer(frame, event, arg):
        if event == "call" and frame.f_code.co_name in names and frame.f_code.co_filename.endswith(FILES[frame.f_code.co_name]):
            return local
        return None
    old = sys.gettrace()
    sys.settrace(tracer)
    try:
        try:
            call()
        except Exception:
            pass
    finally:
        sys.settrace(old)
    return steps


def observe_contexts(call):
    """every RuntimeContext created while call() runs: [parent (1-based position in this list, 0 = none), routeNone, falsy, depth]"""
    out, index = [], {}

    def local(frame, event, arg):
        if event == "return":
            loc = frame.f_locals
            me = loc.get("self")
            if me is not None and hasattr(me, "depth"):
                par = loc.get("context")
                route = loc.get("route")
                index[id(me)] = len(out) + 1
                out.append({"parent": index.get(id(par), 0) if par is not None else 0, "routeNone": route is None,
                            "falsy": route is not None and not route, "depth": me.depth, "_keep": me})      # _keep: ids stay unique
        return local

    def tracer(frame, event, arg):
        if event == "call" and frame.f_code.co_name == "__init__" and frame.f_code.co_filename.endswith("parser/options.py") \
                and type(frame.f_locals.get("self")).__name__ == "RuntimeContext":
            return local
        return None
    old = sys.gettrace()
    sys.settrace(tracer)
    try:
        try:
            call()
        except Exception:
            pass
    finally:
        sys.settrace(old)
    # a context whose parent was created before tracing started is treated as a root with the parent's depth unknown: dropped
    return [{k: v for k, v in e.items() if k != "_keep"} for e in out]
