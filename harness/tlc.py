"""Thin driver around TLC: model-checking runs, simulation runs and batch trace judging.

Every verdict of the framework is computed by TLC evaluating TLA+ definitions from /verif/spec.
This module only starts TLC, feeds it files and parses its counters and PrintT tuples.
"""
import json
import os
import re
import shutil
import subprocess
import tempfile
import time

VERIF = os.path.dirname(os.path.dirname(os.path.abspath(__file__)))
SPEC = os.path.join(VERIF, "spec")
JAR = "/opt/veriftools/tla/tla2tools.jar:/opt/veriftools/tla/CommunityModules-deps.jar"


class TLCError(Exception):
    """Machinery failure (exit 2): TLC crashed, spec does not parse, ..."""


def scratch(prefix="verif-"):
    base = os.environ.get("VERIF_SCRATCH") or tempfile.gettempdir()
    return tempfile.mkdtemp(prefix=prefix, dir=base)


_GEN = re.compile(r"(\d+) states generated, (\d+) distinct states found, (\d+) states left on queue")
_SIMGEN = re.compile(r"The number of states generated: (\d+)")
_TUPSTART = re.compile(r'<<\s*"')
_DEPTH = re.compile(r"The depth of the complete state graph search is (\d+)")


def _tuples(text):
    """Extract PrintT'ed tuples that start with a string tag: <<"TAG", ...>> (bracket matched)."""
    out = []
    i = 0
    n = len(text)
    while True:
        m = _TUPSTART.search(text, i)
        if not m:
            break
        j = m.start()
        depth = 0
        k = j
        instr = False
        while k < n:
            c = text[k]
            if instr:
                if c == "\\":
                    k += 1
                elif c == '"':
                    instr = False
            elif c == '"':
                instr = True
            elif text.startswith("<<", k):
                depth += 1
                k += 1
            elif text.startswith(">>", k):
                depth -= 1
                k += 1
                if depth == 0:
                    break
            k += 1
        out.append(text[j:k + 1])
        i = k + 1
    return out


def parse_tla_value(s):
    """Parse the small subset of TLA+ value syntax TLC prints: strings, ints, booleans, tuples, sets,
    records, functions written (k :> v @@ ...)."""
    pos = 0

    def ws():
        nonlocal pos
        while pos < len(s) and s[pos] in " \t\r\n":
            pos += 1

    def val():
        nonlocal pos
        ws()
        if s.startswith("<<", pos):
            pos += 2
            items = []
            ws()
            if s.startswith(">>", pos):
                pos += 2
                return items
            while True:
                items.append(val())
                ws()
                if s.startswith(">>", pos):
                    pos += 2
                    return items
                assert s[pos] == ",", (s, pos)
                pos += 1
        if s[pos] == "{":
            pos += 1
            items = []
            ws()
            if s[pos] == "}":
                pos += 1
                return {"__set__": items}
            while True:
                items.append(val())
                ws()
                if s[pos] == "}":
                    pos += 1
                    return {"__set__": items}
                assert s[pos] == ",", (s, pos)
                pos += 1
        if s[pos] == "[":
            pos += 1
            rec = {}
            ws()
            if s[pos] == "]":
                pos += 1
                return rec
            while True:
                ws()
                m = re.match(r"[A-Za-z_][A-Za-z0-9_]*", s[pos:])
                key = m.group(0)
                pos += len(key)
                ws()
                assert s.startswith("|->", pos), (s, pos)
                pos += 3
                rec[key] = val()
                ws()
                if s[pos] == "]":
                    pos += 1
                    return rec
                assert s[pos] == ",", (s, pos)
                pos += 1
        if s[pos] == "(":
            pos += 1
            fn = {}
            while True:
                k = val()
                ws()
                assert s.startswith(":>", pos), (s, pos)
                pos += 2
                v = val()
                fn[k if isinstance(k, (str, int)) else json.dumps(k)] = v
                ws()
                if s.startswith("@@", pos):
                    pos += 2
                    continue
                assert s[pos] == ")", (s, pos)
                pos += 1
                return fn
        if s[pos] == '"':
            k = pos + 1
            buf = []
            while s[k] != '"':
                if s[k] == "\\":
                    k += 1
                buf.append(s[k])
                k += 1
            pos = k + 1
            return "".join(buf)
        m = re.match(r"-?\d+", s[pos:])
        if m:
            pos += len(m.group(0))
            return int(m.group(0))
        m = re.match(r"TRUE|FALSE", s[pos:])
        if m:
            pos += len(m.group(0))
            return m.group(0) == "TRUE"
        m = re.match(r"[A-Za-z_][A-Za-z0-9_]*", s[pos:])
        if m:
            pos += len(m.group(0))
            return m.group(0)
        raise ValueError("cannot parse TLA+ value at %d: %r" % (pos, s[pos:pos + 40]))

    v = val()
    return v


class Result:
    def __init__(self):
        self.generated = 0      # states generated (= transitions examined)
        self.distinct = 0       # distinct states
        self.depth = 0
        self.initial_states = None
        self.tuples = []        # parsed PrintT tuples (lists whose first element is a tag)
        self.invariant_violated = None
        self.error = None
        self.output = ""
        self.wall = 0.0
        self.cmd = ""
        self.coverage = {}      # action name -> (count, distinct)

    def tagged(self, tag):
        return [t for t in self.tuples if t and t[0] == tag]


def run(module, cfg, *, workers=None, env=None, simulate=None, depth=None, seed=None, timeout=3600,
        deadlock=False, coverage=False, extra=(), deque=False, spec_dir=SPEC, allow_violation=True):
    """Run TLC on spec/<module>.tla with spec/<cfg>. Returns a Result. Raises TLCError on machinery failure."""
    meta = scratch("tlcmeta-")
    if workers is None:
        workers = min(16, os.cpu_count() or 1)
    if os.environ.get("VERIF_WORKERS") and workers != 1:       # tools/xmatrix.py runs several trees side by side
        workers = min(workers, int(os.environ["VERIF_WORKERS"]))
    cmd = ["java", "-XX:+UseParallelGC", "-Xmx8g", "-Djava.io.tmpdir=" + meta]      # TLC leaves an empty tlc-<n> directory in the JVM's tmpdir on every run
    if deque:
        cmd.append("-Dtlc2.tool.queue.IStateQueue=StateDeque")
    cmd += ["-cp", JAR, "tlc2.TLC", "-workers", str(workers), "-metadir", meta, "-noGenerateSpecTE",
            "-config", cfg]
    if not deadlock:
        cmd.append("-deadlock")  # -deadlock DISABLES deadlock checking
    if coverage:
        cmd += ["-coverage", "1"]
    if simulate:
        cmd += ["-simulate", simulate]
    if depth:
        cmd += ["-depth", str(depth)]
    if seed is not None:
        cmd += ["-seed", str(seed)]
    cmd += list(extra)
    cmd.append(module)
    e = dict(os.environ)
    e.pop("JAVA_TOOL_OPTIONS", None)
    if env:
        e.update({k: str(v) for k, v in env.items()})
    t0 = time.time()
    try:
        p = subprocess.run(cmd, cwd=spec_dir, env=e, capture_output=True, text=True, timeout=timeout)
        out = p.stdout + p.stderr
        rc = p.returncode
    except subprocess.TimeoutExpired as ex:
        out = (ex.stdout or b"").decode("utf-8", "replace") if isinstance(ex.stdout, bytes) else (ex.stdout or "")
        rc = -9
    finally:
        shutil.rmtree(meta, ignore_errors=True)
    r = Result()
    r.wall = time.time() - t0
    r.output = out
    r.cmd = " ".join(cmd[cmd.index("tlc2.TLC"):]).replace(meta, "<meta>")
    gens = _GEN.findall(out)
    if gens:
        r.generated, r.distinct = int(gens[-1][0]), int(gens[-1][1])
    m = _SIMGEN.search(out)
    if m and not gens:
        r.generated = int(m.group(1))
    m = _DEPTH.search(out)
    if m:
        r.depth = int(m.group(1))
    m = re.search(r"Finished computing initial states: (\d+) distinct state", out)
    if m:
        r.initial_states = int(m.group(1))
    for t in _tuples(out):
        try:
            v = parse_tla_value(t)
        except Exception:
            continue
        if isinstance(v, list) and v and isinstance(v[0], str):
            r.tuples.append(v)
    m = re.search(r"Error: Invariant (\S+) is violated", out)
    if m:
        r.invariant_violated = m.group(1)
    m = re.search(r"Error: Action property (\S+) is violated", out)
    if m:
        r.invariant_violated = m.group(1)
    m = re.search(r"Error: Temporal property (\S+) was violated", out)
    if m:
        r.invariant_violated = r.invariant_violated or m.group(1)
    if "Temporal properties were violated" in out:
        r.invariant_violated = r.invariant_violated or "temporal"
    for m in re.finditer(r"<(\w+) line \d+, col \d+ to line \d+, col \d+ of module \w+>: (\d+):(\d+)", out):
        r.coverage[m.group(1)] = (int(m.group(2)), int(m.group(3)))
    finished = "Model checking completed" in out or "Finished in" in out or simulate
    hard = None
    if rc == -9:
        hard = "timeout"
    elif re.search(r"(Parsing or semantic analysis failed|\*\*\* Errors:|Error: TLC threw an unexpected exception"
                   r"|Error: Evaluating|Error: current state is not a legal state|Error: The error occurred|Error: Overflow|TLC encountered|java\.lang\.\w+Error|Error: The .* is not|was not found)", out):
        if not r.invariant_violated:
            hard = "tlc-error"
    elif rc != 0 and not r.invariant_violated and not finished:
        hard = "rc=%d" % rc
    if hard and not (simulate and rc == -9):
        r.error = hard
        raise TLCError("%s running %s/%s\n%s" % (hard, module, cfg, out[-3000:]))
    return r


def write_ndjson(path, records):
    with open(path, "w") as f:
        for r in records:
            f.write(json.dumps(r, separators=(",", ":"), ensure_ascii=True))
            f.write("\n")


def judge(module, cfg, records, *, workers=None, keep=None, timeout=3600, extra_env=None):
    """Batch trace judging: write records as ndjson, run the Trace_* spec over them.

    The spec prints <<"VIOL", id, clause>> for every P-clause that is FALSE on a recorded execution and
    <<"DIV", id, what>> for M-divergences.  Acceptance (every record was consumed) is checked by the
    caller through Result.distinct (one or more states per record).
    """
    # large traces are judged in slices: TLC deserialises the whole file into one value, and beyond a few hundred MB the
    # heap thrashes (a 120k-record slice once took 40 minutes instead of one)
    if len(records) > 2000 and keep is None:
        lines = [json.dumps(r, separators=(",", ":"), ensure_ascii=True) for r in records]
        limit, slices, cur, size = int(os.environ.get("VERIF_SLICE_BYTES", 40000000)), [], [], 0
        for r, ln in zip(records, lines):
            if cur and size + len(ln) > limit:
                slices.append(cur)
                cur, size = [], 0
            cur.append(r)
            size += len(ln)
        slices.append(cur)
        if len(slices) > 1:
            total = None
            for sl in slices:
                r = judge(module, cfg, sl, workers=workers, keep="", timeout=timeout, extra_env=extra_env)
                if total is None:
                    total = r
                else:
                    total.generated += r.generated
                    total.distinct += r.distinct
                    total.tuples.extend(r.tuples)
                    total.output += r.output[-2000:]
                    total.wall += r.wall
                    total.invariant_violated = total.invariant_violated or r.invariant_violated
            return total
    d = scratch("judge-")
    try:
        path = os.path.join(d, "trace.ndjson")
        write_ndjson(path, records)
        env = {"TRACE_FILE": path}
        if extra_env:
            env.update(extra_env)
        if workers is None:
            workers = 1 if len(records) < 4000 else min(8, os.cpu_count() or 1)
        r = run(module, cfg, workers=workers, env=env, timeout=timeout)
        if keep:
            shutil.copy(path, keep)
        kd = os.environ.get("VERIF_KEEP_TRACES")       # tools/selftest.py: keep a sample of what was judged, to corrupt it afterwards
        if kd:
            os.makedirs(kd, exist_ok=True)
            n = len([f for f in os.listdir(kd) if f.endswith(".json")])
            with open(os.path.join(kd, "%03d-%s.json" % (n, module)), "w") as f:
                json.dump({"module": module, "cfg": cfg, "extra_env": extra_env or {}, "records": records[:300] + records[-100:],
                           "flagged": sorted({t[1] for t in r.tuples if len(t) > 1 and isinstance(t[1], str)})}, f, default=str)
        return r
    finally:
        shutil.rmtree(d, ignore_errors=True)
