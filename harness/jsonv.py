"""JSON values (instances and schemas) -> the uniform records of spec/JsonSchema.tla, regex facts, $ref inlining."""
import fractions
import re

LIM = 30000


def jv(x):
    base = {"j": "null", "b": False, "n": 0, "d": 1, "s": "", "ln": 0, "a": [], "ks": [], "vs": [], "big": False}
    if x is None:
        return base
    if isinstance(x, bool):
        return dict(base, j="bool", b=x)
    if isinstance(x, (int, float)):
        if isinstance(x, float) and (x != x or x in (float("inf"), float("-inf"))):
            return dict(base, j="num", big=True, s=repr(x))
        f = fractions.Fraction(x)
        if abs(f.numerator) > LIM or f.denominator > LIM:
            return dict(base, j="num", big=True, s=repr(x), n=0 if f.denominator != 1 else 0, d=1 if f.denominator == 1 else 2)
        return dict(base, j="num", n=f.numerator, d=f.denominator)
    if isinstance(x, str):
        return dict(base, j="str", s=asc(x), ln=len(x))
    if isinstance(x, (list, tuple)):
        return dict(base, j="arr", a=[jv(e) for e in x])
    if isinstance(x, dict):
        return dict(base, j="obj", ks=[asc(str(k)) for k in x], vs=[jv(v) for v in x.values()])
    # not a JSON value at all (a set, a Decimal, a class ...): kept as such, no schema or instance may contain it
    return dict(base, j="notjson", s=asc(type(x).__name__))


def asc(s):
    return "".join(c if 32 <= ord(c) < 127 and c not in '"\\' else "?" for c in s)


def has_big(r):
    return r["big"] or any(has_big(e) for e in r["a"]) or any(has_big(e) for e in r["vs"])


def strings_of(x, keys=False):
    out = set()
    if isinstance(x, str):
        out.add(x)
    elif isinstance(x, (list, tuple)):
        for e in x:
            out |= strings_of(e, keys)
    elif isinstance(x, dict):
        for k, v in x.items():
            out.add(str(k))
            out |= strings_of(v, keys)
    return out


def patterns_of(schema):
    out = set()
    if isinstance(schema, dict):
        for k, v in schema.items():
            if not isinstance(k, str):
                continue
            if k == "pattern" and isinstance(v, str):
                out.add(v)
            elif k == "patternProperties" and isinstance(v, dict):
                out |= set(v)
                for s in v.values():
                    out |= patterns_of(s)
            else:
                out |= patterns_of(v)
    elif isinstance(schema, list):
        for s in schema:
            out |= patterns_of(s)
    return out


def regex_facts(schema, instance):
    """re.search(p, s) for every pattern of the schema and every string / key of the instance (ECMA-262 vs Python re
    differences are outside the supported fragment)"""
    pm = []
    for p in sorted(patterns_of(schema)):
        for s in sorted(strings_of(instance)):
            try:
                m = re.search(p, s) is not None
            except re.error:
                m = False
            pm.append({"p": asc(p), "s": asc(s), "m": m})
    return pm


def inline_refs(schema, root=None, depth=0):
    """replace {"$ref": "#/$defs/X"} by the definition (non-recursive documents only)"""
    root = schema if root is None else root
    if depth > 12:
        return {}
    if isinstance(schema, dict):
        if "$ref" in schema and isinstance(schema["$ref"], str) and schema["$ref"].startswith("#/"):
            tgt = root
            for part in schema["$ref"][2:].split("/"):
                tgt = tgt[part]
            return inline_refs(tgt, root, depth + 1)
        return {k: inline_refs(v, root, depth + 1) for k, v in schema.items() if k != "$defs"}
    if isinstance(schema, list):
        return [inline_refs(v, root, depth + 1) for v in schema]
    return schema
