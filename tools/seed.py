#!/venv/bin/python
"""Confirm a seeded change produced in a scratch worktree and file it under /verif/seeded/<PID>-<mk>/.

usage: tools/seed.py confirm <PID> <mk> [needs-text]     (worktree /tmp/mut/<PID>, files in out/<mk>/)
       tools/seed.py run <PID>-<mk> [<check-id> ...]       apply to /repo, run quick checks, undo; records result
       tools/seed.py table                                 print which checks catch which changes

Confirmation = in the scratch worktree: clean tree -> demo passes; patch applied -> the repository's 115 tests
pass and the demo fails; reverted again.  Nothing is ever committed to /repo.
"""
import json
import os
import shutil
import subprocess
import sys
import time

VERIF = os.path.dirname(os.path.dirname(os.path.abspath(__file__)))
SEEDED = os.path.join(VERIF, "seeded")
PY = "/venv/bin/python"


def sh(cmd, cwd, timeout=900):
    p = subprocess.run(cmd, cwd=cwd, shell=True, capture_output=True, text=True, timeout=timeout)
    return p.returncode, (p.stdout + p.stderr)


def confirm(pid, mk, needs=""):
    wt = "/tmp/mut/%s" % pid
    src = os.path.join(wt, "out", mk)
    patch = os.path.join(src, "patch.diff")
    ran = []
    sh("git checkout -- utype", wt)
    rc0, out0 = sh("%s out/%s/demo.py" % (PY, mk), wt)
    ran.append({"cmd": "clean tree: demo.py", "rc": rc0})
    rc, out = sh("git apply %s" % patch, wt)
    if rc:
        print("patch does not apply", out)
        return 2
    try:
        rct, outt = sh("%s -m pytest -q -p no:cacheprovider --timeout=900" % PY, wt)
        tail = [l for l in outt.strip().splitlines() if "passed" in l or "failed" in l][-1:]
        ran.append({"cmd": "patched: pytest", "rc": rct, "tail": tail})
        rc1, out1 = sh("%s out/%s/demo.py" % (PY, mk), wt)
        ran.append({"cmd": "patched: demo.py", "rc": rc1, "tail": out1.strip().splitlines()[-3:]})
    finally:
        sh("git checkout -- utype", wt)
    ok = rc0 == 0 and rct == 0 and rc1 != 0 and tail and "115 passed" in tail[0]
    print(json.dumps(ran, indent=1))
    print("CONFIRMED" if ok else "NOT CONFIRMED")
    if not ok:
        return 1
    dst = os.path.join(SEEDED, "%s-%s" % (pid, mk))
    os.makedirs(dst, exist_ok=True)
    for f in ("patch.diff", "demo.py", "notes.md"):
        if os.path.exists(os.path.join(src, f)):
            shutil.copy(os.path.join(src, f), os.path.join(dst, f))
    notes = ""
    if os.path.exists(os.path.join(src, "notes.md")):
        notes = open(os.path.join(src, "notes.md")).read()
    meta = {"id": "%s-%s" % (pid, mk), "breaks_property": pid,
            "origin": "independent sub-agent given only the property text and a scratch worktree",
            "needs_to_manifest": needs or notes[:600],
            "confirmed": ran, "confirmed_at": time.strftime("%Y-%m-%d %H:%M:%S"), "detected_by": {}}
    mp = os.path.join(dst, "meta.json")
    if os.path.exists(mp):
        old = json.load(open(mp))
        meta["detected_by"] = old.get("detected_by", {})
    json.dump(meta, open(mp, "w"), indent=1)
    return 0


def run(sid, checks):
    d = os.path.join(SEEDED, sid)
    meta = json.load(open(os.path.join(d, "meta.json")))
    if not checks:
        checks = [meta["breaks_property"]]
    rc, out = sh("git status --porcelain", "/repo")
    if out.strip():
        print("/repo is not clean; refusing")
        return 2
    rc, out = sh("git apply %s" % os.path.join(d, "patch.diff"), "/repo")
    if rc:
        print("patch does not apply to /repo", out)
        return 2
    try:
        for c in checks:
            t0 = time.time()
            rc, out = sh("./check %s --tier quick" % c, VERIF, timeout=3600)
            viol = [l for l in out.splitlines() if l.startswith("VIOLATION") or "violated clause" in l]
            meta["detected_by"][c] = {"exit": rc, "violation_lines": len([l for l in viol if l.startswith("VIOLATION")]),
                                      "first": viol[:3], "wall_s": round(time.time() - t0, 1)}
            print(sid, c, "exit", rc, viol[:4])
            if rc not in (0, 1):
                print(out[-1500:])
    finally:
        sh("git checkout -- .", "/repo")
        # evidence files were rewritten by a run on a modified tree: restore the committed ones
        sh("git checkout -- evidence", VERIF)
    json.dump(meta, open(os.path.join(d, "meta.json"), "w"), indent=1)
    return 0


def table():
    rows = []
    for sid in sorted(os.listdir(SEEDED)):
        mp = os.path.join(SEEDED, sid, "meta.json")
        if not os.path.exists(mp):
            continue
        m = json.load(open(mp))
        det = ", ".join("%s:%s" % (c, "CAUGHT" if r["exit"] == 1 else ("missed" if r["exit"] == 0 else "error"))
                        for c, r in sorted(m.get("detected_by", {}).items()))
        rows.append("| %s | %s | %s |" % (sid, m["breaks_property"], det or "not run"))
    print("| seeded change | property | quick checks |\n|---|---|---|")
    print("\n".join(rows))


if __name__ == "__main__":
    a = sys.argv[1:]
    if a[0] == "confirm":
        sys.exit(confirm(a[1], a[2], " ".join(a[3:])))
    if a[0] == "run":
        sys.exit(run(a[1], a[2:]))
    if a[0] == "table":
        table()
