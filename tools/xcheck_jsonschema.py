#!/venv/bin/python
"""Cross-check of spec/JsonSchema.tla (Val, WF) against the jsonschema package (vendored by setup.sh into /verif/_vendor)
on a grid of schemas x instances covering every keyword of the supported fragment.  Exit 1 on any disagreement."""
import itertools, json, os, sys
V = os.path.dirname(os.path.dirname(os.path.abspath(__file__)))
sys.path[:0] = [V, os.path.join(V, "_vendor")]
from harness import tlc
from harness.jsonv import jv, regex_facts, has_big
try:
    import jsonschema
except ImportError:       # fresh restore: vendor it from the offline wheelhouse (git-ignored, rebuilt on demand)
    import subprocess
    subprocess.run(["/venv/bin/python", "-m", "pip", "install", "-q", "--no-index", "--find-links", "/opt/veriftools/wheels", "--target",
                    os.path.join(V, "_vendor"), "jsonschema"], check=True, stdout=subprocess.DEVNULL)
    import importlib
    importlib.invalidate_caches()
    import jsonschema

SCHEMAS = [
    True, False, {}, {"type": "integer"}, {"type": "number", "minimum": 1}, {"type": ["string", "null"]}, {"exclusiveMinimum": 0, "maximum": 5},
    {"type": "number", "exclusiveMaximum": 2.5, "multipleOf": 0.5}, {"multipleOf": 3}, {"type": "string", "minLength": 1, "maxLength": 3},
    {"pattern": "^a+$"}, {"type": "string", "pattern": "b"}, {"enum": [1, "a", None, [1], {"a": 1}, True]}, {"const": 1}, {"const": "1"}, {"const": [1, 2]},
    {"type": "array", "items": {"type": "integer"}}, {"prefixItems": [{"type": "integer"}, {"type": "string"}]},
    {"prefixItems": [{"type": "integer"}], "items": {"type": "string"}}, {"items": False}, {"minItems": 1, "maxItems": 2}, {"uniqueItems": True},
    {"contains": {"type": "integer"}}, {"contains": {"type": "integer"}, "minContains": 2}, {"contains": {"minimum": 1}, "maxContains": 1, "minContains": 0},
    {"type": "object", "properties": {"a": {"type": "integer"}}, "required": ["a"]}, {"properties": {"a": {"type": "integer"}}, "additionalProperties": False},
    {"properties": {"a": {}}, "additionalProperties": {"type": "string"}}, {"patternProperties": {"^x": {"type": "integer"}}, "additionalProperties": False},
    {"patternProperties": {".*": {"type": "integer"}}}, {"minProperties": 1, "maxProperties": 2}, {"dependentRequired": {"a": ["b"]}},
    {"anyOf": [{"type": "integer"}, {"type": "string", "maxLength": 1}]}, {"oneOf": [{"type": "integer"}, {"minimum": 0}]}, {"allOf": [{"type": "integer"}, {"minimum": 3}]},
    {"not": {"type": "integer"}}, {"type": "object", "properties": {"a": {"type": "array", "items": {"type": "object", "required": ["b"]}}}},
    {"type": "integer", "format": "int64", "x-annotation": {"a": 1}, "decimal_places": 2}, {"required": ["a", "b"]}, {"type": "boolean"}, {"type": "null"},
    {"type": "number"}, {"type": "object"}, {"type": "array", "maxItems": 0},
]
INSTANCES = [None, True, False, 0, 1, 2, 3, -1, 2.5, 0.5, 1.0, 6, "", "a", "aa", "ab", "b", "1", "xyz", [], [1], [1, 2], [1, "a"], ["a"], [1, 1], [1, 1.0], [[1], [1]],
             [1, 2, 3], {}, {"a": 1}, {"a": "x"}, {"a": 1, "b": 2}, {"b": 2}, {"x1": 1}, {"x1": "s"}, {"a": [{"b": 1}, {}]}, {"a": 1, "c": "s"}, {"a": 1, "x": 1, "y": 2}]
recs = []
for i, (s, v) in enumerate(itertools.product(SCHEMAS, INSTANCES)):
    recs.append({"id": "x%d" % i, "s": jv(s), "v": jv(v), "pm": regex_facts(s, v), "_s": s, "_v": v})
r = tlc.judge("Trace_JsonXCheck", "Trace_JsonXCheck.cfg", [{k: v for k, v in x.items() if not k.startswith("_")} for x in recs], workers=8)
got = {t[1]: (t[2], t[3]) for t in r.tagged("VAL")}
bad = 0
for x in recs:
    exp = jsonschema.Draft202012Validator(x["_s"]).is_valid(x["_v"])
    try:
        jsonschema.Draft202012Validator.check_schema(x["_s"])
        wf = True
    except Exception:
        wf = False
    if x["id"] not in got or got[x["id"]][0] != exp or got[x["id"]][1] != wf:
        bad += 1
        if bad < 15:
            print("DISAGREE", json.dumps(x["_s"]), json.dumps(x["_v"]), "jsonschema:", exp, wf, "tla:", got.get(x["id"]))
print("pairs:", len(recs), "disagreements:", bad)
sys.exit(1 if bad else 0)
