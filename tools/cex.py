#!/venv/bin/python
"""Compact view of a TLC counterexample (stdin or file): one line per variable per state."""
import re, sys
sys.path.insert(0, "/verif")
from harness.tlc import parse_tla_value

def short(v):
    if isinstance(v, dict):
        if "__set__" in v:
            return "{" + ", ".join(short(x) for x in v["__set__"]) + "}"
        if set(v) >= {"k", "n", "s", "t"}:
            k = v["k"]
            return {"int": str(v["n"]), "str": repr(v["s"]), "bytes": "b" + repr(v["s"]), "none": "None", "FAIL": "FAIL"}.get(k, k)
        if set(v) == {"k", "v"}:
            return "%s=%s" % (v["k"], short(v["v"]))
        return "[" + ", ".join("%s: %s" % (a, short(b)) for a, b in v.items()) + "]"
    if isinstance(v, list):
        return "<" + ", ".join(short(x) for x in v) + ">"
    return str(v)

txt = open(sys.argv[1]).read() if len(sys.argv) > 1 else sys.stdin.read()
m = re.search(r"Error: .*", txt)
print(m.group(0) if m else "no error")
for st in re.split(r"\nState (\d+): ", txt)[1:]:
    if st.isdigit():
        print("-- state", st); continue
    body = st.split("\n\n")[0]
    for var in re.split(r"\n/\\ ", "\n" + body)[1:]:
        name, _, val = var.partition(" = ")
        name = name.replace("/\\ ", "")
        try:
            print("   %s = %s" % (name.strip(), short(parse_tla_value(val.strip()))))
        except Exception as e:
            print("   %s = <unparsed %s>" % (name.strip(), e))
