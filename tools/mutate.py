#!/venv/bin/python
"""tools/mutate.py [-j N] [--list] [NAME ...]: a hand-written catalogue of small edits of utype (one string replacement each), used to probe
the detection breadth of the checks beyond the two sub-agent-written seeded changes per property.

Each edit is applied to a scratch copy of /repo (never to /repo), the repository's own test-suite is run on the copy (green / red is
recorded: a red mutant is one the suite already sees), then the quick tier of the checks named for the edit (or all with --all) runs with
VERIF_REPO pointing at the copy.  Results go to seeded/mutate.json; nothing registered in MANIFEST.json depends on this tool.
"""
import concurrent.futures
import json
import os
import shutil
import subprocess
import sys
import time

V = os.path.dirname(os.path.dirname(os.path.abspath(__file__)))
OUT = os.path.join(V, "seeded", "mutate.json")
R = "utype/parser/rule.py"
T = "utype/utils/transform.py"
B = "utype/parser/base.py"
F = "utype/parser/field.py"
FN = "utype/parser/func.py"
E = "utype/utils/encode.py"
O = "utype/parser/options.py"

# name: (file, old, new, properties expected to be broken)
CATALOGUE = {
    "gt-accepts-bound": (R, "        if not value > gt:", "        if not value >= gt:", ["C01", "C02"]),
    "le-rejects-bound": (R, "        if not value <= le:\n            raise ValueError", "        if not value < le:\n            raise ValueError", ["C02"]),
    "max_length-off-by-one": (R, "        if len(v) > m:\n            raise ValueError", "        if len(v) >= m:\n            raise ValueError", ["C02"]),
    "min_length-accepts-shorter": (R, "        if len(v) < m:\n            raise ValueError", "        if len(v) < m - 1:\n            raise ValueError", ["C01", "C02"]),
    "multiple_of-ignores-negatives": (R, "        mod = value % of\n        if mod:\n            raise ValueError\n        return value", "        mod = value % of\n        if mod and value > 0:\n            raise ValueError\n        return value", ["C01", "C02"]),
    "unique_items-identity": (R, "            if val in lst:\n                raise ValueError(f\"value is not unique\")", "            if any(val is x for x in lst):\n                raise ValueError(f\"value is not unique\")", ["C01", "C02"]),
    "lax_ge-keeps-value": (R, "        if not value >= ge:\n            return ge\n        return value", "        if not value >= ge - 1:\n            return ge\n        return value", ["C03"]),
    "seq-args-preserve-drops": (R, "                        context.collect_waring(error.formatted_message)\n                        result.append(item)\n                        continue", "                        context.collect_waring(error.formatted_message)\n                        continue", ["C11"]),
    "map-keys-exclude-keeps": (R, "                    if options.invalid_keys == options.EXCLUDE:\n                        context.collect_waring(error.formatted_message)\n                        continue", "                    if options.invalid_keys == options.EXCLUDE:\n                        key = _key\n                        context.collect_waring(error.formatted_message)", ["C11"]),
    "int-ndl-accepts-fraction": (T, "            if data.as_tuple().exponent:\n                raise TypeError\n\n        return t(data)", "            if data.as_tuple().exponent and data != data.to_integral_value() and abs(data) > 1:\n                raise TypeError\n\n        return t(data)", ["C12"]),
    "int-true-words-more": (T, "                if data.lower() in self.TRUE_VALUES:\n                    return 1\n            elif isinstance(data, t):", "                if data.lower() in self.TRUE_VALUES or data.lower() == 'ok':\n                    return 1\n            elif isinstance(data, t):", []),
    "absence-not-reported-ffs": (B, "                unprovided_fields.add(name)\n                if field.is_required(options=options):\n                    context.handle_error(exc.AbsenceError(item=name))\n                    continue\n                default = field.get_default(options, defer=False)\n                # we don't catch this error for now", "                unprovided_fields.add(name)\n                if field.is_required(options=options) and len(data) > 0:\n                    context.handle_error(exc.AbsenceError(item=name))\n                    continue\n                default = field.get_default(options, defer=False)\n                # we don't catch this error for now", ["C05", "C06"]),
    "addition-false-silent": (B, "        if context.options.addition is False:\n            context.handle_error(exc.ExceedError(item=key, value=value))\n            return unprovided", "        if context.options.addition is False:\n            return unprovided", ["C05"]),
    "dfs-conflict-ignored": (B, "                    if provided_values[name] != value:\n                        context.handle_error(exc.AliasConflictError(item=name, value=value))\n                    continue", "                    continue", ["C05", "C06"]),
    "ffs-case-fold-last-wins": (B, "                        if _data[k] != v:\n                            case_conflicts.setdefault(k, v)\n                        continue", "                        if _data[k] != v:\n                            case_conflicts.setdefault(k, v)", []),      # equivalent: the conflict is still recorded and reported
    "deps-not-checked-dfs": (B, "            parsed = field.parse_value(value, context=context)\n            if unprovided(parsed):\n                continue\n\n            result[name] = parsed\n\n            if field.dependencies:\n                dependencies.update(", "            parsed = field.parse_value(value, context=context)\n            if unprovided(parsed):\n                continue\n\n            result[name] = parsed\n\n            if field.dependencies and len(data) > 2:\n                dependencies.update(", ["C05", "C06"]),
    "default-not-copied": (F, "        return copy_value(default)", "        return default", ["C19"]),
    "force-default-ignored": (F, "        if not unprovided(options.force_default):\n            default = options.force_default\n        elif", "        if not unprovided(options.force_default) and unprovided(self.default):\n            default = options.force_default\n        elif", ["C05"]),
    "exclude-required-silent": (F, "                    if self.is_required(context.options):\n                        # required field cannot be excluded\n                        context.handle_error(error)\n                    else:", "                    if False:\n                        # required field cannot be excluded\n                        context.handle_error(error)\n                    else:", ["C05", "C11"]),
    "posonly-default-not-passed": (FN, "            if not unprovided(default):\n                # this position is definitely after parsed_args", "            if not unprovided(default) and len(parsed_args) > 0:\n                # this position is definitely after parsed_args", []),      # equivalent: Python applies the same default
    "varargs-first-not-converted": (FN, "                arg = self.parse_pos_type(index=i, value=arg, context=context)\n                if unprovided(arg):\n                    continue", "                if i > self.pos_var_index:\n                    arg = self.parse_pos_type(index=i, value=arg, context=context)\n                if unprovided(arg):\n                    continue", ["C08"]),
    "time-encoder-drops-ms": (E, "    if data.microsecond:\n        r = r[:12]", "    if data.microsecond:\n        r = r[:8]", ["C14"]),
    "duration-encoder-no-sign": (E, "    return \"{}P{}DT{:02d}H{:02d}M{:02d}{}S\".format(\n        sign, days, hours, minutes, seconds, ms\n    )", "    return \"{}P{}DT{:02d}H{:02d}M{:02d}{}S\".format(\n        \"\", days, hours, minutes, seconds, ms\n    )", ["C14"]),
    "decimal-encoder-float-always": (E, "        if not data.as_tuple().exponent:\n            # integer\n            return int(data)\n        return float(data)", "        return float(data)", []),
    "bytes-encoder-latin1": (E, "    return data.decode(\"utf-8\", errors=\"replace\")\n\n\n@register_encoder(PurePath", "    return data.decode(\"latin-1\", errors=\"replace\")\n\n\n@register_encoder(PurePath", ["C14"]),
    "errors-collected-reversed": (O, "        self.errors.append(e)\n        if force_raise or self.force_error or not self.options.collect_errors:", "        self.errors.insert(0, e)\n        if force_raise or self.force_error or not self.options.collect_errors:", []),      # property-preserving: C10 speaks of the set of reported items, not their order
    "registry-no-invalidate": ("utype/utils/base.py", "                [(detector, f, priority)] + self._registry, key=lambda v: -v[2])\n            self._cache = {}", "                [(detector, f, priority)] + self._registry, key=lambda v: -v[2])", ["C16"]),
    "registry-append-end": ("utype/utils/base.py", "[(detector, f, priority)] + self._registry, key=lambda v: -v[2])", "self._registry + [(detector, f, priority)], key=lambda v: -v[2])", ["C16"]),
    "depth-off-by-one": (O, "if self.options.max_depth and self.depth > self.options.max_depth:", "if self.options.max_depth and self.depth >= self.options.max_depth:", ["C18"]),
    "xor-two-acceptors-ok": (R, "                        else:\n                            context.handle_error(\n                                exc.OneOfViolatedError(\n                                    f\"More than 1 conditions ({xor}, {con}) is True in XOR conditions\"\n                                )\n                            )\n                            xor = None\n                            break", "                        else:\n                            break", ["C09"]),
    "not-under-strict-options": (R, "                with context.enter(cls.combinator) as new_context:\n                    try:\n                        new_context.transformer(value, con)\n                        context.handle_error(\n                            exc.NegateViolatedError(", "                with context.enter(cls.combinator, options=utype.Options(no_explicit_cast=True)) as new_context:\n                    try:\n                        new_context.transformer(value, con)\n                        context.handle_error(\n                            exc.NegateViolatedError(", ["C09"]),
    "and-keeps-going": (R, "                        e = exc.ParseError(value=value, type=con, origin_exc=e)\n                    context.handle_error(e)\n                    break\n", "                        e = exc.ParseError(value=value, type=con, origin_exc=e)\n                    if con is cls.args[-1]:\n                        context.handle_error(e)\n                    break\n", ["C09"]),
    "setitem-addition-unparsed": ("utype/schema.py", "            if unprovided(addition):\n                # ignore addition\n                return\n            return super().__setitem__(alias, addition)", "            if unprovided(addition):\n                # ignore addition\n                return\n            return super().__setitem__(alias, value)", ["C07"]),
    "copy-shares-dict": ("utype/schema.py", "        obj.__dict__ = dict(self.__dict__)\n        return obj", "        obj.__dict__ = self.__dict__\n        return obj", ["C07"]),
    "setattr-failed-dependant-keeps": ("utype/schema.py", "            if state:\n                data, attrs = state\n                super().clear()", "            if state and False:\n                data, attrs = state\n                super().clear()", ["C07"]),
    "update-bypasses-parse": ("utype/schema.py", "        for key, val in data.items():\n            self.__setitem__(key, val)\n        # TODO: reduce the dependant", "        for key, val in data.items():\n            if isinstance(val, int):\n                dict.__setitem__(self, key, val)\n            else:\n                self.__setitem__(key, val)\n        # TODO: reduce the dependant", ["C07"]),
    "forwardref-no-lock": (B, "        with self._resolve_lock:\n            return self._resolve_forward_refs(", "        if True:\n            return self._resolve_forward_refs(", ["C20"]),
    "forwardref-stop-after-first": (B, "                    resolved_names.append(name)\n            except Exception:", "                    resolved_names.append(name)\n                    break\n            except Exception:", ["C17"]),
    "schema-required-skips-aliased": ("utype/specs/json_schema/generator.py", "            if field.is_required(options or self.options):\n                # will count options.ignore_required in\n                required.append(name)", "            if field.is_required(options or self.options) and name == field.attname:\n                # will count options.ignore_required in\n                required.append(name)", ["C13"]),
    "schema-input-lists-noinput": ("utype/specs/json_schema/generator.py", "            if f.always_no_input(options or self.options):\n                return None", "            if f.always_no_input(options or self.options) and not f.no_input:\n                return None", ["C13"]),
    "schema-addition-false-omitted": ("utype/specs/json_schema/generator.py", "        addition = options.addition\n        if addition is not None:\n            if isinstance(addition, type):", "        addition = options.addition\n        if addition:\n            if isinstance(addition, type):", ["C13"]),
    "map-args-consume-input": (R, "        for _key, _val in value.items():\n            with context.enter(route=f\"{_key}<key>\") as key_context:", "        for _key, _val in list(value.items()):\n            if isinstance(_val, list) and _val:\n                _val.pop()\n            with context.enter(route=f\"{_key}<key>\") as key_context:", ["C19"]),
    "seq-args-fourth-raw": (R, "        for i, item in enumerate(value):\n            with context.enter(route=i) as arg_context:\n                try:\n                    result.append(", "        for i, item in enumerate(value):\n            if i == 3:\n                result.append(item)\n                continue\n            with context.enter(route=i) as arg_context:\n                try:\n                    result.append(", ["C01"]),
    "map-none-values-raw": (R, "            if value_type:\n                with context.enter(route=key) as value_context:", "            if value_type and _val is not None:\n                with context.enter(route=key) as value_context:", ["C01"]),
    "tuple-last-position-raw": (R, "                try:\n                    result.append(\n                        arg_context.transformer.apply(value[i], arg, func=func)\n                    )", "                try:\n                    result.append(\n                        arg_context.transformer.apply(value[i], arg, func=func) if i < 2 else value[i]\n                    )", ["C01"]),
    "decode-always-lenient": (T, "            return data.decode(errors=\"strict\" if self.no_data_loss else \"ignore\")", "            return data.decode(errors=\"ignore\")", ["C12"]),
    "collapse-under-ndl": (T, "            if self.no_data_loss and len(value) > 1:", "            if self.no_data_loss and len(value) > 2:", ["C12"]),
    "bool-ndl-accepts-any": (T, "        if self.no_data_loss:\n            # bool can convert all the types", "        if self.no_data_loss and not isinstance(data, str):\n            # bool can convert all the types", ["C12"]),
    "bool-nec-accepts-words": (T, "        if self.no_explicit_cast:\n            raise TypeError\n        if isinstance(data, bytes):\n            data = data.decode()", "        if self.no_explicit_cast and not isinstance(data, str):\n            raise TypeError\n        if isinstance(data, bytes):\n            data = data.decode()", ["C12"]),
    "date-from-datetime-ndl": (T, "            if self.no_data_loss:\n                raise ValueError(f\"Invalid date: {data}, must be date\")\n            return data.date()", "            return data.date()", ["C12"]),
    "copy-value-shallow": ("utype/utils/functional.py", "        return type(data)([copy_value(d) for d in data])", "        return type(data)(list(data))", ["C19"]),
    "copy-value-dict-shared": ("utype/utils/functional.py", "        return {k: copy_value(v) for k, v in data.items()}", "        return dict(data)", ["C19"]),
    "max-errors-one-more": (O, "            and len(self.errors) >= self.options.max_errors", "            and len(self.errors) > self.options.max_errors", ["C10"]),
    "collect-swallows-exceed": (B, "        if context.options.addition is False:\n            context.handle_error(exc.ExceedError(item=key, value=value))\n            return unprovided", "        if context.options.addition is False:\n            if not context.options.collect_errors:\n                context.handle_error(exc.ExceedError(item=key, value=value))\n            return unprovided", ["C10"]),
    "depth-counts-routes": (O, "        if route is not None:\n            # index 0 and the key '' are routes too\n            self.routes.append(route)\n        else:\n            self.depth += 1", "        if route is not None:\n            # index 0 and the key '' are routes too\n            self.routes.append(route)\n            if isinstance(route, int) and route > 1:\n                self.depth += 1\n        else:\n            self.depth += 1", ["C18"]),
    "gen-return-unconverted": (FN, "                if result is None or not self.generator_return_type:\n                    # raise the same StopIteration\n                    return result\n                try:\n                    result = context.transformer(result, self.generator_return_type)", "                if result is None or not self.generator_return_type or True:\n                    # raise the same StopIteration\n                    return result\n                try:\n                    result = context.transformer(result, self.generator_return_type)", ["C08"]),
    "gen-first-yield-unconverted": (FN, "                if self.generator_yield_type:\n                    try:\n                        item = context.transformer(item, self.generator_yield_type)", "                if self.generator_yield_type and i > 0:\n                    try:\n                        item = context.transformer(item, self.generator_yield_type)", ["C08"]),
    "gen-send-unconverted": (FN, "                if sent is not None:\n                    if self.generator_send_type:\n                        try:\n                            sent = context.transformer(sent, self.generator_send_type)", "                if sent is not None:\n                    if self.generator_send_type and i > 0:\n                        try:\n                            sent = context.transformer(sent, self.generator_send_type)", ["C08"]),
    "datetime-offset-plus-only": (T, "        if '+' in str(data) or neg_offset:", "        if '+' in str(data):", ["C14"]),
}


def apply_and_run(name, checks, all_checks):
    f, old, new, exp = CATALOGUE[name]
    base = "/tmp/mut8/%s" % name
    shutil.rmtree(base, ignore_errors=True)
    os.makedirs(base)
    repo = os.path.join(base, "repo")
    subprocess.run(["rsync", "-a", "--exclude", ".git", "--exclude", "__pycache__", "/repo/", repo + "/"], check=True)
    res = {"file": f, "expected": exp}
    try:
        p = os.path.join(repo, f)
        s = open(p).read()
        if s.count(old) != 1:
            res["error"] = "the text to replace occurs %d times" % s.count(old)
            return name, res
        open(p, "w").write(s.replace(old, new))
        t = subprocess.run(["/venv/bin/python", "-m", "pytest", "-q", "-x", "-p", "no:cacheprovider", "--timeout=900"], cwd=repo, capture_output=True, text=True,
                           env=dict(os.environ, PYTHONPATH=repo))
        res["suite_green"] = t.returncode == 0
        env = dict(os.environ, VERIF_REPO=repo, VERIF_OUT=os.path.join(base, "out"), VERIF_TIER="quick", VERIF_WORKERS="4")
        res["checks"] = {}
        for c in (all_checks if checks is None else checks) or exp:
            t0 = time.time()
            q = subprocess.run(["./check", c, "--tier", "quick"], cwd=V, env=env, capture_output=True, text=True, timeout=3600)
            res["checks"][c] = {"exit": q.returncode, "wall_s": round(time.time() - t0, 1),
                                "first": [l for l in (q.stdout + q.stderr).splitlines() if "violated clause" in l or "MACHINERY" in l][:2]}
    finally:
        shutil.rmtree(base, ignore_errors=True)
    return name, res


def main():
    a = sys.argv[1:]
    jobs, checks, allc = 3, [], None
    if a and a[0] == "--list":
        for k, v in CATALOGUE.items():
            print(k, v[0], v[3])
        return
    while a and a[0].startswith("-"):
        if a[0] == "-j":
            jobs = int(a[1])
            a = a[2:]
        elif a[0] == "--all":
            allc = [c["property_id"] for c in json.load(open(os.path.join(V, "MANIFEST.json")))["checks"]]
            checks = None
            a = a[1:]
        elif a[0] == "--checks":
            checks = a[1].split(",")
            a = a[2:]
    names = a or sorted(CATALOGUE)
    done = json.load(open(OUT)) if os.path.exists(OUT) else {}
    with concurrent.futures.ThreadPoolExecutor(jobs) as ex:
        for name, res in ex.map(lambda n: apply_and_run(n, checks, allc), names):
            done[name] = res
            json.dump(done, open(OUT, "w"), indent=1, sort_keys=True)
            caught = [c for c, r in res.get("checks", {}).items() if r["exit"] == 1]
            print(name, "suite_green=%s" % res.get("suite_green"), "caught_by=%s" % caught, "expected=%s" % res["expected"], res.get("error", ""), flush=True)


if __name__ == "__main__":
    main()
