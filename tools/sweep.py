#!/venv/bin/python
"""tools/sweep.py [--tier quick|thorough] [--seeds 1,2,3] [IDs...]: run claimed checks under several seeds on the current tree and
report every run that does not exit 0 (a flaky alarm discredits every real one).  Evidence files are restored afterwards."""
import json, os, subprocess, sys, time
V = os.path.dirname(os.path.dirname(os.path.abspath(__file__)))
args = sys.argv[1:]
tier, seeds, ids = "quick", [1, 2, 3], []
while args:
    a = args.pop(0)
    if a == "--tier":
        tier = args.pop(0)
    elif a == "--seeds":
        seeds = [int(x) for x in args.pop(0).split(",")]
    else:
        ids.append(a)
ids = ids or sorted(json.load(open(os.path.join(V, "tools", "claimed.json"))))
bad = 0
for pid in ids:
    for sd in seeds:
        t0 = time.time()
        p = subprocess.run(["./check", pid, "--tier", tier], cwd=V, env=dict(os.environ, VERIF_SEED=str(sd)), capture_output=True, text=True)
        last = [l for l in p.stdout.splitlines() if l.startswith(pid + " ")][-1:] or [p.stdout[-300:]]
        print("%s seed=%d rc=%d %.0fs %s" % (pid, sd, p.returncode, time.time() - t0, last[0]), flush=True)
        if p.returncode != 0:
            bad += 1
            print("\n".join(l for l in p.stdout.splitlines() if "violated" in l or "MACHINERY" in l or "Error" in l)[:1500], flush=True)
subprocess.run(["git", "checkout", "--", "evidence"], cwd=V)
print("non-zero runs:", bad)
sys.exit(1 if bad else 0)
