#!/venv/bin/python
"""tools/claim.py <PID> <design_ref> <technique> <text> <note>   -> updates tools/claimed.json and MANIFEST.json"""
import json, os, subprocess, sys
V = os.path.dirname(os.path.dirname(os.path.abspath(__file__)))
p = os.path.join(V, "tools", "claimed.json")
c = json.load(open(p))
pid, ref, tech, text, note = sys.argv[1:6]
c[pid] = {"text": text, "design_ref": ref, "note": note, "technique": tech}
if len(sys.argv) > 6:
    c[pid]["category"] = sys.argv[6]
json.dump(c, open(p, "w"), indent=1)
subprocess.run([os.path.join(V, "tools", "manifest.py")])
