#!/venv/bin/python
"""tools/selftest.py [IDs...]: demonstrate that the trace specifications are bound to what the code did.

For every check: run the quick tier once with VERIF_KEEP_TRACES (a sample of the records every Trace_* module judged is kept), then corrupt
one observed fact per record (flip a recorded verdict: ok / ok1 / isinst / body / decoded / built ...; or, where a record has no verdict
field, drop one element of a recorded result) and judge the corrupted records again.  A trace module that still accepts everything is not
bound to the code.  Writes seeded/selftest.json; prints one line per trace module: corrupted N, rejected M."""
import copy
import json
import os
import shutil
import subprocess
import sys

V = os.path.dirname(os.path.dirname(os.path.abspath(__file__)))
sys.path.insert(0, V)
FLIP = ("ok", "ok1", "isinst", "body", "decoded", "built", "bindable", "accepted", "same", "resolved", "valid")


def flip_first(x, depth=0):
    """flip the first boolean fact with a verdict-like name; returns True when something was changed"""
    if isinstance(x, dict):
        for k in FLIP:
            if isinstance(x.get(k), bool):
                x[k] = not x[k]
                return True
        for v in x.values():
            if depth < 4 and flip_first(v, depth + 1):
                return True
    elif isinstance(x, list):
        for v in x[:6]:
            if depth < 4 and flip_first(v, depth + 1):
                return True
    return False


def main():
    from harness import tlc
    ids = sys.argv[1:] or sorted(json.load(open(os.path.join(V, "tools", "claimed.json"))))
    out = {}
    for pid in ids:
        kd = "/tmp/selftest/%s" % pid
        shutil.rmtree(kd, ignore_errors=True)
        env = dict(os.environ, VERIF_KEEP_TRACES=kd, VERIF_OUT="/tmp/selftest/out", VERIF_SEED="1")
        p = subprocess.run(["./check", pid, "--tier", "quick"], cwd=V, env=env, capture_output=True, text=True)
        if p.returncode not in (0,):
            print(pid, "check did not pass on the unchanged tree, rc", p.returncode)
            continue
        for f in sorted(os.listdir(kd)) if os.path.isdir(kd) else []:
            d = json.load(open(os.path.join(kd, f)))
            clean = [r for r in d["records"] if isinstance(r, dict) and r.get("id") not in d["flagged"]]
            bad = []
            for r in clean[:120]:
                c = copy.deepcopy(r)
                rest = {k: v for k, v in c.items() if k != "id"}
                if flip_first(rest):
                    rest["id"] = "X" + str(r["id"])
                    bad.append(rest)
            if not bad:
                out["%s/%s" % (pid, d["module"])] = {"corrupted": 0, "rejected": 0, "note": "no verdict-like boolean fact in the records"}
                continue
            try:
                res = tlc.judge(d["module"], d["cfg"], bad, workers=4, extra_env=d["extra_env"])
                rej = {t[1] for t in res.tuples if len(t) > 1}
                out["%s/%s" % (pid, d["module"])] = {"corrupted": len(bad), "rejected": len(rej & {b["id"] for b in bad})}
            except Exception as e:      # a corrupted record may also make the trace ill-formed: that is a rejection too
                out["%s/%s" % (pid, d["module"])] = {"corrupted": len(bad), "rejected": len(bad), "note": "trace rejected as ill-formed: " + str(e)[:80]}
            print(pid, d["module"], out["%s/%s" % (pid, d["module"])], flush=True)
        shutil.rmtree(kd, ignore_errors=True)
    json.dump(out, open(os.path.join(V, "seeded", "selftest.json"), "w"), indent=1, sort_keys=True)


if __name__ == "__main__":
    main()
