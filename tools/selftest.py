#!/venv/bin/python
"""tools/selftest.py [IDs...]: demonstrate that the trace specifications are bound to what the code did.

For every check: run the quick tier once with VERIF_KEEP_TRACES (a sample of the records every Trace_* module judged is kept), then corrupt
one observed fact per record (flip a recorded verdict: ok / ok1 / isinst / body / decoded / built ...; or, where a record has no verdict
field, drop one element of a recorded result) and judge the corrupted records again.  A trace module that still accepts everything is not
bound to the code.  Writes seeded/selftest.json; prints one line per trace module: corrupted N, rejected M."""
import copy
import json
import os
import shutil
import subprocess
import sys

V = os.path.dirname(os.path.dirname(os.path.abspath(__file__)))
sys.path.insert(0, V)
FLIP = ("ok", "ok1", "isinst", "body", "decoded", "built", "bindable", "same", "resolved", "valid", "raised")


def specific(module, r):
    """corruptions for records without a verdict-like boolean"""
    if module == "Trace_Conform":
        r["v"] = dict(r["v"], k="none", t=["NoneType", "object"], n=0, d=1, items=[], ks=[])
        return True
    if module == "Trace_SchemaObj":
        for st in reversed(r.get("steps", [])):
            for view in st.get("views", []):
                if view.get("data"):
                    view["data"][0]["v"] = dict(view["data"][0]["v"], n=view["data"][0]["v"]["n"] + 1000)     # the mapping view no longer agrees with getattr
                    return True
        return False
    if module == "Trace_LoopSteps" and r.get("steps"):
        r["steps"][-1]["errs"] = r["steps"][-1]["errs"] + ["parse"]
        return True
    if module == "Trace_WrapSteps" and r.get("steps"):
        r["steps"][-1]["keys"] = r["steps"][-1]["keys"] + ["zz"]
        return True
    if module == "Trace_TotalitySteps" and r.get("steps"):
        r["steps"][-1]["k"] = r["steps"][-1]["k"] + 1
        return True
    if module == "Trace_DepthSteps" and r.get("ctx"):
        r["ctx"][-1]["depth"] = r["ctx"][-1]["depth"] + 1
        return True
    if module == "Trace_ArgsSteps" and r.get("steps"):
        last = r["steps"][-1]
        if last["vals"]:
            last["vals"] = last["vals"][:-1]
            if last.get("keys"):
                last["keys"] = last["keys"][:-1]
            return True
        return False
    if module == "Trace_OptionsFlow" and r.get("obs"):
        r["obs"][0] = ["ne"] if r["obs"][0] != ["ne"] else []
        return True
    if module == "Trace_SchemaGenM":
        r["props"] = r["props"] + ["zz"]
        return True
    if module in ("Trace_Registry", "Trace_LayeredRegistry"):
        for st in r.get("steps", []):
            if st.get("op") == "res":
                st["fn"] = st["fn"] + 1
                return True
        return False
    if module == "Trace_SchemaGen":
        if r.get("kind") == "doc" and r.get("accepted"):
            r["accepted"] = r["accepted"][1:]
            return True
        if r.get("kind") == "out" and isinstance(r.get("v"), dict):
            r["v"] = dict(r["v"], j="str", s="corrupted", ln=9, a=[], ks=[], vs=[])
            return True
        return False
    if module == "Trace_Suite":
        if r.get("kind") == "input":
            r["a"] = r["a"] + "!"
        else:
            r["ok2"] = False
        return True
    return False


def flip_first(x, depth=0):
    """flip the first boolean fact with a verdict-like name; returns True when something was changed"""
    if isinstance(x, dict):
        for k in FLIP:
            if isinstance(x.get(k), bool):
                x[k] = not x[k]
                return True
        for v in x.values():
            if depth < 4 and flip_first(v, depth + 1):
                return True
    elif isinstance(x, list):
        for v in x[:6]:
            if depth < 4 and flip_first(v, depth + 1):
                return True
    return False


def main():
    from harness import tlc
    ids = sys.argv[1:] or sorted(json.load(open(os.path.join(V, "tools", "claimed.json"))))
    out = {}
    for pid in ids:
        kd = "/tmp/selftest/%s" % pid
        shutil.rmtree(kd, ignore_errors=True)
        env = dict(os.environ, VERIF_KEEP_TRACES=kd, VERIF_OUT="/tmp/selftest/out", VERIF_SEED="1")
        p = subprocess.run(["./check", pid, "--tier", "quick"], cwd=V, env=env, capture_output=True, text=True)
        if p.returncode not in (0,):
            print(pid, "check did not pass on the unchanged tree, rc", p.returncode)
            continue
        for f in sorted(os.listdir(kd)) if os.path.isdir(kd) else []:
            d = json.load(open(os.path.join(kd, f)))
            clean = [r for r in d["records"] if isinstance(r, dict) and r.get("id") not in d["flagged"]]
            bad = []
            for r in clean[:120]:
                c = copy.deepcopy(r)
                rest = {k: v for k, v in c.items() if k != "id"}
                if specific(d["module"], rest) or flip_first(rest):
                    rest["id"] = "X" + str(r["id"])
                    bad.append(rest)
            if not bad:
                out["%s/%s" % (pid, d["module"])] = {"corrupted": 0, "rejected": 0, "note": "no verdict-like boolean fact in the records"}
                continue
            try:
                res = tlc.judge(d["module"], d["cfg"], bad, workers=4, extra_env=d["extra_env"])
                rej = {t[1] for t in res.tuples if len(t) > 1}
                out["%s/%s" % (pid, d["module"])] = {"corrupted": len(bad), "rejected": len(rej & {b["id"] for b in bad})}
            except Exception as e:      # a corrupted record may also make the trace ill-formed: that is a rejection too
                out["%s/%s" % (pid, d["module"])] = {"corrupted": len(bad), "rejected": len(bad), "note": "trace rejected as ill-formed: " + str(e)[:80]}
            print(pid, d["module"], out["%s/%s" % (pid, d["module"])], flush=True)
        shutil.rmtree(kd, ignore_errors=True)
    path = os.path.join(V, "seeded", "selftest.json")
    done = json.load(open(path)) if os.path.exists(path) else {}
    done.update(out)
    json.dump(done, open(path, "w"), indent=1, sort_keys=True)


if __name__ == "__main__":
    main()
