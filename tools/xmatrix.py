#!/venv/bin/python
"""Cross matrix: every seeded change against every claimed check (quick tier), trees side by side.

usage: tools/xmatrix.py [-j N] [--checks C01,C02] [SID ...]        -> seeded/xmatrix.json, printed as a table by --table

Each seeded change gets a scratch copy of /repo's working tree (no .git) under /tmp/xm/<sid>/repo with the patch applied; the checks run with
VERIF_REPO pointing at the copy and VERIF_OUT at /tmp/xm/<sid>/out, so that neither /repo nor the committed evidence is touched.  The copy is
removed as soon as its row is done.  Nothing registered in MANIFEST.json depends on this tool.
"""
import concurrent.futures
import json
import os
import shutil
import subprocess
import sys
import time

VERIF = os.path.dirname(os.path.dirname(os.path.abspath(__file__)))
SEEDED = os.path.join(VERIF, "seeded")
OUTFILE = os.environ.get("XM_OUT") or os.path.join(SEEDED, "xmatrix.json")   # XM_OUT: a side run that must not touch the matrix file
ROOT = os.environ.get("XM_ROOT") or "/tmp/xm"


def row(sid, checks):
    base = os.path.join(ROOT, sid)
    shutil.rmtree(base, ignore_errors=True)
    os.makedirs(base)
    repo = os.path.join(base, "repo")
    subprocess.run(["rsync", "-a", "--exclude", ".git", "--exclude", "__pycache__", "/repo/", repo + "/"], check=True)
    res = {}
    try:
        if sid != "clean":
            p = subprocess.run(["patch", "-p1", "-s", "-i", os.path.join(SEEDED, sid, "patch.diff")], cwd=repo, capture_output=True, text=True)
            if p.returncode:
                return sid, {"error": "patch does not apply: " + (p.stdout + p.stderr)[-300:]}
        env = dict(os.environ, VERIF_REPO=repo, VERIF_OUT=os.path.join(base, "out"), VERIF_TIER="quick", VERIF_WORKERS="4")
        where = subprocess.run(["/venv/bin/python", "-c", "import utype; print(utype.__file__)"], capture_output=True, text=True,
                               env=dict(env, PYTHONPATH=repo)).stdout.strip()
        if not where.startswith(repo):
            return sid, {"error": "utype imported from " + where}
        for c in checks:
            t0 = time.time()
            p = subprocess.run(["./check", c, "--tier", "quick"], cwd=VERIF, env=env, capture_output=True, text=True, timeout=3600)
            out = p.stdout + p.stderr
            viol = [l for l in out.splitlines() if "violated clause" in l]
            res[c] = {"exit": p.returncode, "violations": len([l for l in out.splitlines() if l.startswith("VIOLATION")]), "first": viol[:2],
                      "wall_s": round(time.time() - t0, 1)}
            if p.returncode not in (0, 1):
                res[c]["tail"] = out[-600:]
    finally:
        shutil.rmtree(base, ignore_errors=True)
    return sid, res


def table():
    d = json.load(open(OUTFILE))
    checks = sorted({c for r in d.values() for c in r if c.startswith("C")})
    print("| seeded change | caught by (quick tier) | errors |\n|---|---|---|")
    for sid in sorted(d):
        r = d[sid]
        if "error" in r:
            print("| %s | - | %s |" % (sid, r["error"][:80]))
            continue
        caught = [c for c in checks if r.get(c, {}).get("exit") == 1]
        err = [c for c in checks if r.get(c, {}).get("exit") not in (0, 1, None)]
        print("| %s | %s | %s |" % (sid, " ".join(caught) or "-", " ".join(err)))


def main():
    a = sys.argv[1:]
    if a and a[0] == "--table":
        return table()
    jobs, checks = 4, None
    while a and a[0].startswith("-"):
        if a[0] == "-j":
            jobs = int(a[1])
        elif a[0] == "--checks":
            checks = a[1].split(",")
        a = a[2:]
    if checks is None:
        checks = [c["property_id"] for c in json.load(open(os.path.join(VERIF, "MANIFEST.json")))["checks"]]
    sids = a or (["clean"] + sorted(s for s in os.listdir(SEEDED) if os.path.exists(os.path.join(SEEDED, s, "patch.diff"))))
    done = json.load(open(OUTFILE)) if os.path.exists(OUTFILE) else {}
    with concurrent.futures.ThreadPoolExecutor(jobs) as ex:
        for sid, res in ex.map(lambda s: row(s, checks), sids):
            done.setdefault(sid, {}).update(res)
            if "error" not in res:
                done[sid].pop("error", None)
            json.dump(done, open(OUTFILE, "w"), indent=1, sort_keys=True)
            print(sid, {c: r.get("exit") for c, r in res.items() if isinstance(r, dict)} if "error" not in res else res, flush=True)


if __name__ == "__main__":
    main()
