#!/venv/bin/python
"""Regenerates MANIFEST.json from the registry below (claimed checks) -- every other property is listed under
not_applicable with its reason.  Run after adding a check."""
import json, os
VERIF = os.path.dirname(os.path.dirname(os.path.abspath(__file__)))
ALL = ["C%02d" % i for i in range(1, 21)]
NOT_BUILT = ("check not built yet (planned, see DESIGN.md section 11); not claimed until its TLA+ model and trace "
             "validation pass on the unchanged tree")
CLAIMED = json.load(open(os.path.join(VERIF, "tools", "claimed.json")))
NA = json.load(open(os.path.join(VERIF, "tools", "not_applicable.json")))

checks = []
for pid in ALL:
    if pid not in CLAIMED:
        continue
    c = CLAIMED[pid]
    checks.append({
        "property_id": pid,
        "quick_cmd": "./check %s --tier quick" % pid,
        "thorough_cmd": "./check %s --tier thorough" % pid,
        "evidence_file": "/verif/evidence/%s.json" % pid,
        "replay_cmd_template": "./check %s --replay {path}" % pid,
        "engine": "tlc",
        "level_claimed": {"category": c.get("category", "model_checking"), "text": c["text"], "design_ref": c["design_ref"]},
        "level_note": c["note"],
        "technique": c["technique"],
    })
man = {
    "version": 1,
    "setup_cmd": "./setup.sh",
    "hooks": {
        "guard": "UTYPE_VERIF",
        "enable": "no source hooks: utype is imported from /repo's working tree (PYTHONPATH=/repo, editable install); "
                  "observation through the public API and harness-side tracing only; ./check sets UTYPE_VERIF=1 for the harness",
        "baseline_off_cmd": "cd /repo && env -u UTYPE_VERIF /venv/bin/python -m pytest -ra -q -p no:cacheprovider --timeout=900 --continue-on-collection-errors",
        "source_commits": [],
        "add_only": True,
    },
    "engines": [{
        "name": "tlc", "path": "/opt/veriftools/tla/tla2tools.jar",
        "serves_properties": [c["property_id"] for c in checks],
        "kind_free_text": "TLA+ specifications in /verif/spec checked with TLC (exhaustive MC of the mechanism models, batch "
                          "trace validation of executions recorded from the real code: the property predicates are TLA+ "
                          "definitions evaluated by TLC on every step of every projected execution)"}],
    "checks": checks,
    "not_applicable": [{"property_id": p, "reason": NA.get(p, NOT_BUILT)} for p in ALL if p not in CLAIMED],
    "notes": "Family: model-based verification with explicit TLA+ specifications (spec/*.tla) and TLC; verdicts come only "
             "from TLA+ property predicates evaluated by TLC on projected executions of the real code. seeded/ holds "
             "independently produced breaking changes and which checks catch them (tools/seed.py table).",
}
json.dump(man, open(os.path.join(VERIF, "MANIFEST.json"), "w"), indent=1)
print("claimed:", [c["property_id"] for c in checks])
