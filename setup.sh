#!/bin/sh
# Offline setup: nothing to build. The checks import /repo through PYTHONPATH (and /venv's editable install),
# TLC is pre-installed. Verify the tools and the spec files parse.
set -e
cd "$(dirname "$0")"
command -v java >/dev/null
test -f /opt/veriftools/tla/tla2tools.jar
/venv/bin/python -c "import sys; sys.path.insert(0, '/repo'); import utype; print('utype', utype.__version__)"
mkdir -p evidence replay
# jsonschema (cross-check oracle of spec/JsonSchema.tla, thorough tier of C13) comes from the offline wheelhouse; tools/xcheck_jsonschema.py
# does the same on demand when this script was not run
test -d _vendor/jsonschema || /venv/bin/python -m pip install -q --no-index --find-links /opt/veriftools/wheels --target _vendor jsonschema >/dev/null
echo setup-ok
