#!/bin/sh
# Offline setup: nothing to build. The checks import /repo through PYTHONPATH (and /venv's editable install),
# TLC is pre-installed. Verify the tools and the spec files parse.
set -e
cd "$(dirname "$0")"
command -v java >/dev/null
test -f /opt/veriftools/tla/tla2tools.jar
/venv/bin/python -c "import sys; sys.path.insert(0, '/repo'); import utype; print('utype', utype.__version__)"
mkdir -p evidence replay
echo setup-ok
